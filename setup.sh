#!/bin/bash
# MANIFEST.setup_cmd: build the harness (plain and -race) from files on disk only, warming /verif/.cache.
set -u
export GOFLAGS=-mod=mod GOPROXY=off GOSUMDB=off GOTOOLCHAIN=local
export GOCACHE=/verif/.cache/go-build
export CGO_ENABLED=1
mkdir -p /verif/.bin /verif/.cache /verif/evidence /verif/replays
cd /verif/harness || exit 2
go run ./genfuncs /repo > zz_funcs_gen.go || exit 2
go build -tags verif -o /verif/.bin/check . || exit 2
go build -race -tags verif -o /verif/.bin/check-race . || exit 2
echo setup-ok
