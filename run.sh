#!/bin/bash
# usage: run.sh <Cxx> quick|thorough [--replay file]
# Rebuilds the harness against /repo's current working tree (hooks enabled) and runs one check.
set -u
export GOFLAGS=-mod=mod GOPROXY=off GOSUMDB=off GOTOOLCHAIN=local
export GOCACHE=/verif/.cache/go-build
export CGO_ENABLED=1
PROP="$1"; TIER="${2:-quick}"; shift; shift || true
mkdir -p /verif/.bin /verif/.cache /verif/evidence /verif/replays
cd /verif/harness || exit 2
if ! go run ./genfuncs /repo > zz_funcs_gen.go.tmp 2> /verif/.bin/build.log; then
  echo "BUILD-FAILED (function table generator):"; cat /verif/.bin/build.log; rm -f zz_funcs_gen.go.tmp; exit 2
fi
mv zz_funcs_gen.go.tmp zz_funcs_gen.go
if ! go build -tags verif -o /verif/.bin/check . 2> /verif/.bin/build.log; then
  echo "BUILD-FAILED (infrastructure, not a verdict):"; cat /verif/.bin/build.log; exit 2
fi
case "$PROP" in
  C10|C11)
    if ! go build -race -tags verif -o /verif/.bin/check-race . 2> /verif/.bin/build-race.log; then
      echo "RACE-BUILD-FAILED (infrastructure):"; cat /verif/.bin/build-race.log; exit 2
    fi;;
esac
if [ "${1:-}" = "--replay" ]; then
  exec /verif/.bin/check -prop "$PROP" -tier "$TIER" -replay "$2"
fi
exec /verif/.bin/check -prop "$PROP" -tier "$TIER"
