#!/bin/bash
# round 2: tells the agent which mechanisms were already used
id=$1
git -C /repo worktree add -q --detach /tmp/wt9-$id HEAD && mkdir -p /tmp/seed9-$id
python3 - "$id" <<'PY'
import sys,glob
id=sys.argv[1]
t=open('/tmp/agent_prompt.tmpl').read()
p=open(f'/tmp/prop-{id}.txt').read()
t=t.replace('{WT}',f'/tmp/wt9-{id}').replace('{OUT}',f'/tmp/seed9-{id}').replace('{PROP}',p)
used=[]
for d in sorted(glob.glob(f'/verif/seeded/{id}-*/notes.txt')):
    used.append("- "+open(d).read().strip().split("\n")[0][:400])
extra="\n\nThis is a NINTH ROUND. Earlier contributors already delivered the following changes for this property; yours must break the property through DIFFERENT functions / mechanisms / clauses than these, and should be harder to stumble upon (needing a rarer combination of configuration, input shape, boundary value or operation order):\n"+"\n".join(used)+"\n\nUp to sixteen changes per property exist already (listed above); study them and stay away from their mechanisms. Both slots are free this round, with one requirement each. Slot `q` (FAILURE PATHS): a change that only shows when a call FAILS or is REFUSED part-way or for a secondary reason - a batch cut short by capacity or by a rejecting policy, an argument in the middle of a variadic list that is invalid, an error coming back from a deeply nested element or from a user closure, a refused call on a read-only / full / uninitialised / invalid instance, a second failure while an earlier error is still recorded - and then leaves partial or inconsistent state, reports the wrong outcome, swallows or overwrites an error, or disturbs the NEXT successful call. The success paths must stay correct. Slot `r` (OPTION INTERPLAY): a change that needs a COMBINATION of at least two options / settings / modes that are each harmless alone (for instance FIFO with negative indices and a capacity; mutex with read-only; case-folding with a symbol and lead-once; no-nesting with a push policy; parenthetical with encapsulation and no-padding; a presentation policy with a validity policy; forward indices inside a nested stack whose parent has none) - with any single one of them, or with none, everything behaves correctly. Aim for subtlety: everything nearby must still behave correctly, and the original test suite must not notice. Name the change directories `q` and `r` instead of `a` and `b`.\n"
if id in ("C10","C11"):
    extra+="\nConcurrency note: the repository contains, behind the build tag `verif` (verif_on.go), `VerifHook func(ev string, stackID, mutexID uintptr)` called at \"lock.want\", \"lock.held\", \"lock.release\", \"lock.released\", and `VerifDump(x)`; your demo_test.go may use them and will be run with `go test -tags verif -count=1 -run TestSeeded .`. Make the demonstration deterministic (park goroutines via the hook) or single-goroutine; do not rely on the race detector.\n"
open(f'/tmp/agent9-{id}.txt','w').write(t+extra)
PY
echo prepared3 $id
