#!/bin/bash
# round 2: tells the agent which mechanisms were already used
id=$1
git -C /repo worktree add -q --detach /tmp/wt10-$id HEAD && mkdir -p /tmp/seed10-$id
python3 - "$id" <<'PY'
import sys,glob
id=sys.argv[1]
t=open('/tmp/agent_prompt.tmpl').read()
p=open(f'/tmp/prop-{id}.txt').read()
t=t.replace('{WT}',f'/tmp/wt10-{id}').replace('{OUT}',f'/tmp/seed10-{id}').replace('{PROP}',p)
used=[]
for d in sorted(glob.glob(f'/verif/seeded/{id}-*/notes.txt')):
    used.append("- "+open(d).read().strip().split("\n")[0][:400])
extra="\n\nThis is a TENTH ROUND. Earlier contributors already delivered the following changes for this property; yours must break the property through DIFFERENT functions / mechanisms / clauses than these, and should be harder to stumble upon (needing a rarer combination of configuration, input shape, boundary value or operation order):\n"+"\n".join(used)+"\n\nUp to eighteen changes per property exist already (listed above); study them and stay away from their mechanisms. Both slots are free this round, with one requirement each. Slot `s` (ORDER AND REPETITION): a change that breaks a relation BETWEEN calls that should hold whatever the values are: two setters / operations that must commute (A then B gives what B then A gives) but no longer do; a call that must be idempotent (doing it twice equals doing it once) but is not; two ways of reaching the same state (one Push of three values vs three Pushes; Insert at the end vs Push; Remove(0) vs Pop in FIFO mode; constructor argument vs later setter; set-unset-set vs set) that now differ in some LATER observation; a round trip that only works the first time. Each single call, looked at alone right after it returns, must still appear correct. Slot `t` (STACK OR CONDITION): a change in code that Stack and Condition SHARE (the configuration record nodeConfig and its option bits, encapsulation, identifiers, logging, auxiliary data, the alias converters, the equality / marshal / string helpers in misc.go) or in the places where one is handled INSIDE the other (a Condition as a Stack element, a Stack as a Condition's expression, a Condition as a Condition's expression), such that one of the two types - or one direction of nesting - is handled by the branch meant for the other, or a fix correct for Stacks is wrong for Conditions (or the reverse). Everything that involves only the other type must stay correct. Aim for subtlety: everything nearby must still behave correctly, and the original test suite must not notice. Name the change directories `s` and `t` instead of `a` and `b`.\n"
if id in ("C10","C11"):
    extra+="\nConcurrency note: the repository contains, behind the build tag `verif` (verif_on.go), `VerifHook func(ev string, stackID, mutexID uintptr)` called at \"lock.want\", \"lock.held\", \"lock.release\", \"lock.released\", and `VerifDump(x)`; your demo_test.go may use them and will be run with `go test -tags verif -count=1 -run TestSeeded .`. Make the demonstration deterministic (park goroutines via the hook) or single-goroutine; do not rely on the race detector.\n"
open(f'/tmp/agent10-{id}.txt','w').write(t+extra)
PY
echo prepared3 $id
