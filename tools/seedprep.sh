#!/bin/bash
id=$1
git -C /repo worktree add -q --detach /tmp/wt-$id HEAD && mkdir -p /tmp/seed-$id
python3 - "$id" <<'PY'
import sys
id=sys.argv[1]
t=open('/tmp/agent_prompt.tmpl').read()
p=open(f'/tmp/prop-{id}.txt').read()
open(f'/tmp/agent-{id}.txt','w').write(t.replace('{WT}',f'/tmp/wt-{id}').replace('{OUT}',f'/tmp/seed-{id}').replace('{PROP}',p))
PY
echo prepared $id
