#!/bin/bash
# round 2: tells the agent which mechanisms were already used
id=$1
git -C /repo worktree add -q --detach /tmp/wt3-$id HEAD && mkdir -p /tmp/seed3-$id
python3 - "$id" <<'PY'
import sys,glob
id=sys.argv[1]
t=open('/tmp/agent_prompt.tmpl').read()
p=open(f'/tmp/prop-{id}.txt').read()
t=t.replace('{WT}',f'/tmp/wt3-{id}').replace('{OUT}',f'/tmp/seed3-{id}').replace('{PROP}',p)
used=[]
for d in sorted(glob.glob(f'/verif/seeded/{id}-*/notes.txt')):
    used.append("- "+open(d).read().strip().split("\n")[0][:400])
extra="\n\nThis is a THIRD ROUND. Earlier contributors already delivered the following changes for this property; yours must break the property through DIFFERENT functions / mechanisms / clauses than these, and should be harder to stumble upon (needing a rarer combination of configuration, input shape, boundary value or operation order):\n"+"\n".join(used)+"\n\nGood hunting grounds this round: shared helpers (misc.go, cfg.go, log.go, op.go) that several features rely on; the interaction of two features that are each fine alone (e.g. an option, a policy closure, the mutex, FIFO mode, capacity, an alias form, an earlier recorded error) ; state left behind by an EARLIER call of another method; values of rarer Go types or shapes; the second and later elements of a variadic call; behaviour that only differs for one stack kind. Aim for subtlety: prefer changes whose effect is confined to one narrow corner (for example one particular option combination, one particular value type or text, one position, one length, one particular earlier operation) while everything nearby still behaves correctly. Name the change directories `e` and `f` instead of `a` and `b`.\n"
if id in ("C10","C11"):
    extra+="\nConcurrency note: the repository contains, behind the build tag `verif` (verif_on.go), `VerifHook func(ev string, stackID, mutexID uintptr)` called at \"lock.want\", \"lock.held\", \"lock.release\", \"lock.released\", and `VerifDump(x)`; your demo_test.go may use them and will be run with `go test -tags verif -count=1 -run TestSeeded .`. Make the demonstration deterministic (park goroutines via the hook) or single-goroutine; do not rely on the race detector.\n"
open(f'/tmp/agent3-{id}.txt','w').write(t+extra)
PY
echo prepared3 $id
