#!/bin/bash
# round 2: tells the agent which mechanisms were already used
id=$1
git -C /repo worktree add -q --detach /tmp/wt6-$id HEAD && mkdir -p /tmp/seed6-$id
python3 - "$id" <<'PY'
import sys,glob
id=sys.argv[1]
t=open('/tmp/agent_prompt.tmpl').read()
p=open(f'/tmp/prop-{id}.txt').read()
t=t.replace('{WT}',f'/tmp/wt6-{id}').replace('{OUT}',f'/tmp/seed6-{id}').replace('{PROP}',p)
used=[]
for d in sorted(glob.glob(f'/verif/seeded/{id}-*/notes.txt')):
    used.append("- "+open(d).read().strip().split("\n")[0][:400])
extra="\n\nThis is a SIXTH ROUND. Earlier contributors already delivered the following changes for this property; yours must break the property through DIFFERENT functions / mechanisms / clauses than these, and should be harder to stumble upon (needing a rarer combination of configuration, input shape, boundary value or operation order):\n"+"\n".join(used)+"\n\nTen changes per property exist already (listed above), so the obvious and the not-so-obvious mechanisms are taken. Good hunting grounds this round: (1) unusual but legal Go values and types - NaN and negative zero, invalid UTF-8 or NUL bytes or very long text in strings, zero-size arrays and empty structs, types declared with unexported fields, named types of basic kinds, interface values holding interface-typed fields, channels, values whose String / Error methods have pointer receivers; (2) integer arithmetic on lengths, capacities, indices and bit masks (overflow, sign, uint16 truncation, off-by-one only at a power of two); (3) behaviour that depends on WHICH OTHER instances exist or existed, on map iteration order, on address reuse after garbage collection, or on the number of calls made so far; (4) the second and later nested levels treated differently from the first; (5) code paths only reached through the less common of two equivalent spellings (toggle form vs explicit form, deprecated alias vs modern name, variadic with zero / one / many arguments, value vs pointer receiver forms, Stack method vs package-level helper); (6) error paths: what is left behind when a call is refused half-way. Slot `k`: the change must be in a shared helper (misc.go, cfg.go, log.go, op.go or a private helper used by several exported methods) and must break the property through only ONE of the exported methods that use the helper. Slot `l`: free choice, but the faulty call itself must return the correct result; the damage must only be observable through a LATER call (of any method) or on ANOTHER instance. Aim for subtlety: everything nearby must still behave correctly. Name the change directories `k` and `l` instead of `a` and `b`.\n"
if id in ("C10","C11"):
    extra+="\nConcurrency note: the repository contains, behind the build tag `verif` (verif_on.go), `VerifHook func(ev string, stackID, mutexID uintptr)` called at \"lock.want\", \"lock.held\", \"lock.release\", \"lock.released\", and `VerifDump(x)`; your demo_test.go may use them and will be run with `go test -tags verif -count=1 -run TestSeeded .`. Make the demonstration deterministic (park goroutines via the hook) or single-goroutine; do not rely on the race detector.\n"
open(f'/tmp/agent6-{id}.txt','w').write(t+extra)
PY
echo prepared3 $id
