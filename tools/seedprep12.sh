#!/bin/bash
# round 2: tells the agent which mechanisms were already used
id=$1
git -C /repo worktree add -q --detach /tmp/wt12-$id HEAD && mkdir -p /tmp/seed12-$id
python3 - "$id" <<'PY'
import sys,glob
id=sys.argv[1]
t=open('/tmp/agent_prompt.tmpl').read()
p=open(f'/tmp/prop-{id}.txt').read()
t=t.replace('{WT}',f'/tmp/wt12-{id}').replace('{OUT}',f'/tmp/seed12-{id}').replace('{PROP}',p)
used=[]
for d in sorted(glob.glob(f'/verif/seeded/{id}-*/notes.txt')):
    used.append("- "+open(d).read().strip().split("\n")[0][:400])
extra="\n\nThis is a TWELFTH ROUND. Earlier contributors already delivered the following changes for this property; yours must break the property through DIFFERENT functions / mechanisms / clauses than these, and should be harder to stumble upon (needing a rarer combination of configuration, input shape, boundary value or operation order):\n"+"\n".join(used)+"\n\nUp to twenty-two changes per property exist already (listed above); study them and stay away from their mechanisms. Both slots are free this round: no theme is imposed. The changes will be judged by a checker that explores the library EXHAUSTIVELY BUT WITHIN BOUNDS: every operation sequence up to a small depth over a small alphabet of operations and values, every tree up to a small depth and width (plus a few long chains and wide stacks), every configuration from a fixed list, a handful of hand-picked awkward values, every interleaving of two or three short threads. It compares every observable result with a simple reference model after every step. The checker is not naive: besides plain values it already tries operators, elements and map keys of uncomparable types (slices, maps, funcs), typed nil pointers and typed nil errors, aliases and pointers (several levels, also inside interfaces) of Stack and Condition, closures that reject / return empty results / answer depending on their arguments / read the stack they guard, errors on record and rejecting validity policies as part of the state, read-only at every level, sub-slices of one backing array passed as settings, white space in settings, capacities and batches up to a few thousand with every size around the boundary, stacks rebuilt through Remove, repeated and toggled setters, freed handles and pooled memory, a second goroutine at work (every interleaving of lock operations, closures as scheduling points), and the package-level defaults changed before or after construction. Slot `w`: aim at what such a checker is LEAST likely to have in its alphabet - a value, an argument form, a configuration, an ordering or a combination that is legal and documented, that a real user could plausibly hit, but that nobody would think of putting on a short list (and that the changes above have not used). Slot `x`: the most subtle change you can devise in a DIFFERENT source file than your `w`, of any kind, as long as it differs in mechanism from everything listed above. Aim for subtlety: everything nearby must still behave correctly, and the original test suite must not notice. Name the change directories `w` and `x` instead of `a` and `b`.\n"
if id in ("C10","C11"):
    extra+="\nConcurrency note: the repository contains, behind the build tag `verif` (verif_on.go), `VerifHook func(ev string, stackID, mutexID uintptr)` called at \"lock.want\", \"lock.held\", \"lock.release\", \"lock.released\", and `VerifDump(x)`; your demo_test.go may use them and will be run with `go test -tags verif -count=1 -run TestSeeded .`. Make the demonstration deterministic (park goroutines via the hook) or single-goroutine; do not rely on the race detector.\n"
open(f'/tmp/agent12-{id}.txt','w').write(t+extra)
PY
echo prepared3 $id
