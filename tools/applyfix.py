import sys,subprocess
def fix(path, old, new, msg):
    s=open(path).read()
    assert s.count(old)==1, (msg, s.count(old))
    open(path,'w').write(s.replace(old,new))
    r=subprocess.run("cd /repo && go build ./... && go build -tags verif ./... && go test -count=1 ./... 2>&1 | tail -3", shell=True, capture_output=True, text=True)
    if "ok " not in r.stdout or "FAIL" in r.stdout:
        print("TESTS FAILED for", msg.split("\n")[0]); print(r.stdout, r.stderr)
        subprocess.run("cd /repo && git checkout -- .", shell=True)
        sys.exit(1)
    subprocess.run(["git","-C","/repo","commit","-qam",msg],check=True)
    print("committed:", msg.split("\n")[0])
