#!/bin/bash
# round 2: tells the agent which mechanisms were already used
id=$1
git -C /repo worktree add -q --detach /tmp/wt7-$id HEAD && mkdir -p /tmp/seed7-$id
python3 - "$id" <<'PY'
import sys,glob
id=sys.argv[1]
t=open('/tmp/agent_prompt.tmpl').read()
p=open(f'/tmp/prop-{id}.txt').read()
t=t.replace('{WT}',f'/tmp/wt7-{id}').replace('{OUT}',f'/tmp/seed7-{id}').replace('{PROP}',p)
used=[]
for d in sorted(glob.glob(f'/verif/seeded/{id}-*/notes.txt')):
    used.append("- "+open(d).read().strip().split("\n")[0][:400])
extra="\n\nThis is a SEVENTH ROUND. Earlier contributors already delivered the following changes for this property; yours must break the property through DIFFERENT functions / mechanisms / clauses than these, and should be harder to stumble upon (needing a rarer combination of configuration, input shape, boundary value or operation order):\n"+"\n".join(used)+"\n\nTwelve changes per property exist already (listed above); study them and stay away from their mechanisms. Both slots are free this round, with one requirement each. Slot `m`: a change that a careful reviewer who knows this code base well would wave through - a refactoring, a clean-up, a performance tweak, a defensive check, an API-consistency fix - whose unwanted consequence is far from the lines changed (another file, another type, a different method, a later call, another instance, a different goroutine). Slot `n`: a change in how TWO calls interact that each still honour their own documentation when used alone: ordering of two setters, a setter followed by a getter of a DIFFERENT setting, a constructor followed by a copy / alias / pointer of the instance, a call repeated with the same arguments (idempotence), a call undone by its inverse (set/unset, Push/Pop, Insert/Remove, Reverse twice, Marshal of Unmarshal, toggle twice) not restoring the earlier state exactly. Think about hidden state: lazily built values, flags, counters, lengths and capacities of internal slices, identity vs equality of stored values, what a zero value or nil means at each site. Aim for subtlety: everything nearby must still behave correctly, and the original test suite must not notice. Name the change directories `m` and `n` instead of `a` and `b`.\n"
if id in ("C10","C11"):
    extra+="\nConcurrency note: the repository contains, behind the build tag `verif` (verif_on.go), `VerifHook func(ev string, stackID, mutexID uintptr)` called at \"lock.want\", \"lock.held\", \"lock.release\", \"lock.released\", and `VerifDump(x)`; your demo_test.go may use them and will be run with `go test -tags verif -count=1 -run TestSeeded .`. Make the demonstration deterministic (park goroutines via the hook) or single-goroutine; do not rely on the race detector.\n"
open(f'/tmp/agent7-{id}.txt','w').write(t+extra)
PY
echo prepared3 $id
