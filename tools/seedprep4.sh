#!/bin/bash
# round 2: tells the agent which mechanisms were already used
id=$1
git -C /repo worktree add -q --detach /tmp/wt4-$id HEAD && mkdir -p /tmp/seed4-$id
python3 - "$id" <<'PY'
import sys,glob
id=sys.argv[1]
t=open('/tmp/agent_prompt.tmpl').read()
p=open(f'/tmp/prop-{id}.txt').read()
t=t.replace('{WT}',f'/tmp/wt4-{id}').replace('{OUT}',f'/tmp/seed4-{id}').replace('{PROP}',p)
used=[]
for d in sorted(glob.glob(f'/verif/seeded/{id}-*/notes.txt')):
    used.append("- "+open(d).read().strip().split("\n")[0][:400])
extra="\n\nThis is a FOURTH ROUND. Earlier contributors already delivered the following changes for this property; yours must break the property through DIFFERENT functions / mechanisms / clauses than these, and should be harder to stumble upon (needing a rarer combination of configuration, input shape, boundary value or operation order):\n"+"\n".join(used)+"\n\nGood hunting grounds this round: (1) effects that only show at a distance - the faulty call returns the right answer and leaves a state that makes a LATER, different call misbehave (three or more steps); (2) sizes and depths beyond the obvious - behaviour that is right for lengths 0..4 and nesting depth 1..2 but wrong for a longer stack, a deeper tree, a longer path, a longer run, a later batch position, or after the backing array has been reallocated; (3) two instances at once - state shared between a stack and its copy / its alias / a stack it was transferred or marshalled from, or between parent and child; (4) rarely used but documented entry points - deprecated method aliases, package-level helper functions, the toggle form (no argument) of option setters, Auxiliary, log levels, SetDefault*Logger; (5) arithmetic at boundaries of int / uint16 / bit masks; (6) one stack kind, one operator, one option bit behaving differently from its siblings. Aim for subtlety: prefer changes whose effect is confined to one narrow corner while everything nearby still behaves correctly. Name the change directories `g` and `h` instead of `a` and `b`.\n"
if id in ("C10","C11"):
    extra+="\nConcurrency note: the repository contains, behind the build tag `verif` (verif_on.go), `VerifHook func(ev string, stackID, mutexID uintptr)` called at \"lock.want\", \"lock.held\", \"lock.release\", \"lock.released\", and `VerifDump(x)`; your demo_test.go may use them and will be run with `go test -tags verif -count=1 -run TestSeeded .`. Make the demonstration deterministic (park goroutines via the hook) or single-goroutine; do not rely on the race detector.\n"
open(f'/tmp/agent4-{id}.txt','w').write(t+extra)
PY
echo prepared3 $id
