#!/bin/bash
# round 2: tells the agent which mechanisms were already used
id=$1
git -C /repo worktree add -q --detach /tmp/wt2-$id HEAD && mkdir -p /tmp/seed2-$id
python3 - "$id" <<'PY'
import sys,glob
id=sys.argv[1]
t=open('/tmp/agent_prompt.tmpl').read()
p=open(f'/tmp/prop-{id}.txt').read()
t=t.replace('{WT}',f'/tmp/wt2-{id}').replace('{OUT}',f'/tmp/seed2-{id}').replace('{PROP}',p)
used=[]
for d in sorted(glob.glob(f'/verif/seeded/{id}-*/notes.txt')):
    used.append("- "+open(d).read().strip().split("\n")[0][:400])
extra="\n\nThis is a SECOND ROUND. Earlier contributors already delivered the following changes for this property; yours must break the property through DIFFERENT functions / mechanisms / clauses than these, and should be harder to stumble upon (needing a rarer combination of configuration, input shape, boundary value or operation order):\n"+"\n".join(used)+"\n\nAim for subtlety: prefer changes whose effect is confined to one narrow corner (for example one particular option combination, one particular value type or text, one position, one length, one particular earlier operation) while everything nearby still behaves correctly. Name the change directories `c` and `d` instead of `a` and `b`.\n"
if id in ("C10","C11"):
    extra+="\nConcurrency note: the repository contains, behind the build tag `verif` (verif_on.go), `VerifHook func(ev string, stackID, mutexID uintptr)` called at \"lock.want\", \"lock.held\", \"lock.release\", \"lock.released\", and `VerifDump(x)`; your demo_test.go may use them and will be run with `go test -tags verif -count=1 -run TestSeeded .`. Make the demonstration deterministic (park goroutines via the hook) or single-goroutine; do not rely on the race detector.\n"
open(f'/tmp/agent2-{id}.txt','w').write(t+extra)
PY
echo prepared2 $id
