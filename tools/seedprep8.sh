#!/bin/bash
# round 2: tells the agent which mechanisms were already used
id=$1
git -C /repo worktree add -q --detach /tmp/wt8-$id HEAD && mkdir -p /tmp/seed8-$id
python3 - "$id" <<'PY'
import sys,glob
id=sys.argv[1]
t=open('/tmp/agent_prompt.tmpl').read()
p=open(f'/tmp/prop-{id}.txt').read()
t=t.replace('{WT}',f'/tmp/wt8-{id}').replace('{OUT}',f'/tmp/seed8-{id}').replace('{PROP}',p)
used=[]
for d in sorted(glob.glob(f'/verif/seeded/{id}-*/notes.txt')):
    used.append("- "+open(d).read().strip().split("\n")[0][:400])
extra="\n\nThis is a EIGHTH ROUND. Earlier contributors already delivered the following changes for this property; yours must break the property through DIFFERENT functions / mechanisms / clauses than these, and should be harder to stumble upon (needing a rarer combination of configuration, input shape, boundary value or operation order):\n"+"\n".join(used)+"\n\nUp to fourteen changes per property exist already (listed above); study them and stay away from their mechanisms. Both slots are free this round, with one requirement each. Slot `o` (DEPTH): a change that needs a long run-up to manifest - at least FOUR state-changing calls on the same instance before the call that goes wrong, or a structure nested at least four levels deep, or more than five elements / arguments / entries - while every shorter history, shallower tree and smaller stack still behaves correctly. Think of counters, thresholds, growth and shrink steps of internal slices, state that accumulates (errors, flags, cached lengths), values that only differ after several round trips. Slot `p` (IDENTITY AND ENVIRONMENT): a change whose effect depends on something other than the arguments of the failing call: WHICH handle the call is made through (a copy of the Stack / Condition value, an alias type, a pointer, the handle stored inside a parent), whether the very same value / closure / slice / map instance is also held by another instance, what ANOTHER instance of the package did earlier (package-level state, caches keyed by type or by pointer, default loggers), or identity where equality is meant (or the reverse). Aim for subtlety: everything nearby must still behave correctly, and the original test suite must not notice. Name the change directories `o` and `p` instead of `a` and `b`.\n"
if id in ("C10","C11"):
    extra+="\nConcurrency note: the repository contains, behind the build tag `verif` (verif_on.go), `VerifHook func(ev string, stackID, mutexID uintptr)` called at \"lock.want\", \"lock.held\", \"lock.release\", \"lock.released\", and `VerifDump(x)`; your demo_test.go may use them and will be run with `go test -tags verif -count=1 -run TestSeeded .`. Make the demonstration deterministic (park goroutines via the hook) or single-goroutine; do not rely on the race detector.\n"
open(f'/tmp/agent8-{id}.txt','w').write(t+extra)
PY
echo prepared3 $id
