#!/bin/bash
# round 2: tells the agent which mechanisms were already used
id=$1
git -C /repo worktree add -q --detach /tmp/wt5-$id HEAD && mkdir -p /tmp/seed5-$id
python3 - "$id" <<'PY'
import sys,glob
id=sys.argv[1]
t=open('/tmp/agent_prompt.tmpl').read()
p=open(f'/tmp/prop-{id}.txt').read()
t=t.replace('{WT}',f'/tmp/wt5-{id}').replace('{OUT}',f'/tmp/seed5-{id}').replace('{PROP}',p)
used=[]
for d in sorted(glob.glob(f'/verif/seeded/{id}-*/notes.txt')):
    used.append("- "+open(d).read().strip().split("\n")[0][:400])
extra="\n\nThis is a FIFTH ROUND. Earlier contributors already delivered the following changes for this property; yours must break the property through DIFFERENT functions / mechanisms / clauses than these, and should be harder to stumble upon (needing a rarer combination of configuration, input shape, boundary value or operation order):\n"+"\n".join(used)+"\n\nThis round the two slots have different briefs. Change `i` must be a THRESHOLD bug: correct for everything small and only wrong beyond a threshold that a casual or small-scope test would not cross - for example only for stacks holding 6 or more elements, a nil run or batch longer than 4, nesting depth 3 or more, a path / chain of 4 or more steps, the third or later call of the same method, the fourth or later argument of a variadic call, three or more option bits set at once, a text longer than some length, a backing array that has been reallocated twice, an integer beyond 16 / 255 / 65535. State the exact threshold in notes.txt and make the demo show both sides of it (just below: still right; at or above: wrong). Change `j` must be an INTERPLAY bug between two features that are each correct alone (an option and a policy closure, FIFO mode and an index option, capacity and an alias form, the mutex and an earlier recorded error, a deprecated alias and its modern twin, a Condition inside a Stack inside a Condition ...), ideally one where the faulty call returns the right answer and a LATER call of a different method shows the damage. Aim for subtlety in both: everything nearby must still behave correctly. Name the change directories `i` and `j` instead of `a` and `b`.\n"
if id in ("C10","C11"):
    extra+="\nConcurrency note: the repository contains, behind the build tag `verif` (verif_on.go), `VerifHook func(ev string, stackID, mutexID uintptr)` called at \"lock.want\", \"lock.held\", \"lock.release\", \"lock.released\", and `VerifDump(x)`; your demo_test.go may use them and will be run with `go test -tags verif -count=1 -run TestSeeded .`. Make the demonstration deterministic (park goroutines via the hook) or single-goroutine; do not rely on the race detector.\n"
open(f'/tmp/agent5-{id}.txt','w').write(t+extra)
PY
echo prepared3 $id
