#!/usr/bin/env python3
"""Regenerates MANIFEST.json from the table below (kept next to the checks so the two stay in step)."""
import json, subprocess
hook_commit = "2f7712d"
checks = {
 "C01": ("A", "explicit-state BFS over operation histories vs. a Go reference list, on the real code",
         "Every reachable stack state up to the length bound (all kinds x LIFO/FIFO x capacity x index options) is expanded with every operation of the alphabet; after each transition all content observations (Len, IsEmpty, Index over [-Len-2,Len+2], Front, Back, Cap/Avail/IsFull, return values) are compared with the reference list. Exhaustive to the fix-point of the bounded domain, which is what a history-quantified property needs and a fixed example cannot give.",
         "Trusted: the reference list model (listmodel.go), the token-renaming symmetry argument, VerifDump as the state key. Element values are fresh tokens and nil; lengths up to the stated bound.", "§3 C01"),
}
not_built = {f"C{i:02d}" for i in range(1,21)} - set(checks)
m = {
 "version": 1,
 "setup_cmd": "./setup.sh",
 "hooks": {
  "guard": "verif",
  "enable": "go build -tags verif (harness module replaces github.com/JesseCoretta/go-stackage with /repo)",
  "baseline_off_cmd": "cd /repo && GOFLAGS=-mod=mod GOPROXY=off GOSUMDB=off GOTOOLCHAIN=local go test -json -vet=off -count=1 -timeout 25m ./...",
  "source_commits": [hook_commit],
  "add_only": True,
 },
 "engines": [
  {"name": "A", "path": "harness/bfs.go", "serves_properties": sorted(k for k,v in checks.items() if v[0]=="A"), "kind_free_text": "explicit-state breadth-first search over operation histories of the real implementation, compared step by step with Go reference models"},
  {"name": "B", "path": "harness/gen.go", "serves_properties": sorted(k for k,v in checks.items() if v[0]=="B"), "kind_free_text": "exhaustive bounded enumeration of inputs/trees/configurations (depth-1 transition systems) against reference oracles"},
  {"name": "C", "path": "harness/sched.go", "serves_properties": sorted(k for k,v in checks.items() if v[0]=="C"), "kind_free_text": "cooperative scheduler over the lock hooks with preemption-bounded stateless DFS; separate free-running -race pass"},
 ],
 "checks": [],
 "not_applicable": [{"property_id": p, "reason": "check not built yet (work in progress; model checking is applicable)"} for p in sorted(not_built)],
 "notes": "All checks: cwd=/verif, ./run.sh <id> <tier> rebuilds the harness against /repo's working tree with -tags verif and runs it. Known findings: /verif/known_findings.txt.",
}
for pid,(eng,tech,text,note,ref) in sorted(checks.items()):
    m["checks"].append({
     "property_id": pid,
     "quick_cmd": f"./run.sh {pid} quick",
     "thorough_cmd": f"./run.sh {pid} thorough",
     "evidence_file": f"/verif/evidence/{pid}.json",
     "replay_cmd_template": f"./run.sh {pid} quick --replay {{path}}",
     "engine": eng,
     "level_claimed": {"category": "model_checking", "text": text, "design_ref": ref},
     "level_note": note,
     "technique": tech,
    })
json.dump(m, open("/verif/MANIFEST.json","w"), indent=1)
print("checks:", len(m["checks"]), "not_applicable:", len(m["not_applicable"]))
