#!/usr/bin/env python3
"""Regenerates MANIFEST.json from the table below (kept next to the checks so the two stay in step)."""
import json, subprocess
hook_commit = "2f7712d"
checks = {
 "C01": ("A", "explicit-state BFS over operation histories vs. a Go reference list, on the real code",
         "Every reachable stack state up to the length bound (all kinds x LIFO/FIFO x capacity x index options) is expanded with every operation of the alphabet; after each transition all content observations (Len, IsEmpty, Index over [-Len-2,Len+2], Front, Back, Cap/Avail/IsFull, return values) are compared with the reference list. Exhaustive to the fix-point of the bounded domain, which is what a history-quantified property needs and a fixed example cannot give.",
         "Trusted: the reference list model (listmodel.go), the token-renaming symmetry argument, VerifDump as the state key. Element values are fresh tokens and nil; lengths up to the stated bound.", "§3 C01"),

 "C03": ("A", "explicit-state BFS over growth/shrink histories around the capacity boundary, on the real code",
         "Every state with Len<=k for k=1..3 (quick) / 1..5 (thorough), every kind, LIFO/FIFO, is expanded with Push batches of 1-3, Insert, Transfer-into (sources of length 0-3), Marshal-into, Pop, Remove and Reset; Len<=k, Cap, Avail, IsFull and the 'earliest offered values kept in order' content are checked after every transition; the no-capacity family (no argument, 0, -1) is explored the same way. Fix-point reached, so every history that fills, drains and refills the stack is covered.",
         "Trusted: reference list with capacity (listmodel.go); Transfer modelled all-or-nothing on free slots as C15 states.", "§3 C03"),
 "C13": ("A", "explicit-state BFS over push batches and option flips vs. a reference filter, on the real code",
         "State = element classes x no-nesting flag, for Stacks of every kind and for Conditions; every push batch (length <=2/3) over {primitive, nil, Stack, alias with/without String, pointer to alias, pointer to Stack, Condition, Condition holding a Stack} and every set/clear/toggle is applied in every reachable state; stored content, CanNest and IsNesting are compared with the reference after each transition.",
         "Trusted: the reference filter (a Stack-like value is a Stack, a declared alias or a non-nil pointer to either).", "§3 C13"),
 "C15": ("B", "exhaustive enumeration of (source, destination, capacity, destination form) with an all-or-nothing oracle",
         "Complete product of source length/nil pattern/FIFO/capacity x destination length/nil pattern/capacity none..max x 15 destination forms (native, aliases, pointers, read-only, zero, freed, nil pointers, foreign values); raw dumps of source and destination are compared before/after.",
         "Trusted: VerifDump for 'unchanged'; lengths up to 3 (quick) / 4 (thorough).", "§3 C15"),

 "C06": ("A", "explicit-state BFS over Condition constructor/setter histories vs. a reference record, on the real code",
         "From a blank start every Cond(kw,op,ex) over 6 keywords x 8 operators x 9 expressions (nil, empty, wrong type, user operators, stringers, stacks, aliases, conditions) and Init(); from every reachable state every setter over the same alphabets plus no-nesting/no-padding/parenthetical/encapsulation/SetErr; Keyword/Operator/Expression/Err, the Valid rule, String()=='' iff invalid and the exact rendering are compared after every transition. Fix-point reached.",
         "Trusted: reference acceptance rules written from the statement; blank placement inside a Condition's parentheses is not constrained.", "§3 C06"),
 "C18": ("A", "explicit-state BFS over option/setting/log-level setter histories vs. reference bit-sets and records",
         "Option bits: every tri-state method found by reflection (deprecated aliases included) x {true,false,toggle} from every reachable option set (all 2^8 on Stacks of each kind, all on Conditions), compared with a reference bit-set whose bit assignment is derived empirically, with the public getters, with behaviour (fold, lead-once, index options via String/Index) and differentially with a twin built directly. String-valued settings (ID, category, delimiter, symbol, encapsulation incl. duplicate refusal, auxiliary, FIFO latch): BFS, getters and exact String() compared. Log levels: fix-point over reachable 16-bit masks with names, constants, raw ints.",
         "Trusted: documentation of the none/all shortcuts in log.go; settings family complete to the depth reported in the evidence.", "§3 C18"),

 "C07": ("B", "exhaustive enumeration of (tree, index options, path) against a stepwise-descent reference on the real code",
         "Every tree of the bounded family (leaf, nil, empty Stack, Condition(leaf), nested Stack / alias / pointer-to-alias / Condition(Stack) / Condition(alias)) x 4 placements of the negative/forward index options x every path of length 0..3 (quick) / 0..5 (thorough) with indices in [-1,3]; Traverse's value and flag are compared with a descent that takes one real Index step at a time, exactly as the statement defines it; the tree's raw dump must be unchanged afterwards.",
         "Trusted: Index, ConvertStack, ConvertCondition, Expression as single steps (covered by C01/C08/C12); bounded depth/width.", "§3 C07"),

 "C19": ("B", "exhaustive enumeration of nil/non-nil patterns x scan limits x index options x nesting placements, with a compaction oracle",
         "Every pattern of length 0..8 (quick) / 0..12 (thorough) over distinct tokens, scan limits {default,1,2,3,13} restricted to patterns whose nil runs are shorter than the limit, the four index-option settings, and seven placements (top, in Stack, alias, pointer to alias, Condition expression, Condition alias holding an alias next to a sibling, two levels deep); afterwards the stack must hold exactly the former non-nil elements in order, Err()==nil, parents/siblings intact, and a stack without nil must be untouched (raw dump). The pinned tree fails this for most patterns (recorded finding); the check recognises the recorded defect only when the wrong outcome equals what the pinned algorithm computes, so any other wrong outcome still fails.",
         "Trusted: pinnedDefrag (transliteration of the recorded defect, used only to recognise it); VerifDump for 'untouched'.", "§3 C19"),
 "C20": ("B", "exhaustive enumeration of expression trees x mutex placements with an unwrap-closure oracle and a lock model on the real code",
         "Every tree of the bounded family (kinds, parenthetical flags, leaf/nil/empty/Stack/Condition(leaf)/Condition(Stack) children, all single-child chains up to length 4/5, aliases in the thorough tier) x mutex placement; after Reveal the depth-first leaf/Condition sequence must be identical, the result must be reachable from the input by unwrapping redexes only (receiver never unwrapped), normal forms equal, depth not larger; lock hooks report re-acquisition of a held mutex as deadlock and a mutex left held.",
         "Trusted: the redex definition copied from the statement; confluence of unwrapping (argued in DESIGN.md).", "§3 C20"),

 "C05": ("B", "exhaustive enumeration of (tree, rebuilt copy) and (tree, every single-point mutant) pairs, both directions",
         "Every tree of the bounded family - 15 leaf descriptions (primitives, *int, **string, []int, [3]int, []string, map, struct, *struct, embedded struct, struct with unexported field), Conditions over them, nested stacks with and without capacity, an alias - is built twice independently and must compare equal both ways; every single-point mutation (each leaf, each slice/array/map position, renamed key, keyword, operator, kind, capacity, sibling swap, one element more/fewer) must be rejected both ways; a change confined to an unexported struct field must be skipped; no comparison may panic.",
         "Trusted: the mutation generator; documented equivalences (slice vs array of equal content, pointer flattening) are not counted as differences.", "§3 C05"),

 "C04": ("B", "exhaustive enumeration of trees with a reference unmarshaller and a walk of the reconstruction, on the real code",
         "Every tree of the bounded family (all five kinds incl. empty stacks; string leaves incl. label-like ones and the empty string, int, float, bool, nil; Conditions whose expression is a primitive, a Stack or a Condition; built-in and user operators; depth up to 3): Unmarshal is compared with a reference unmarshaller written from the statement; Marshal of that result on a zero Stack (both call forms) is walked against the original (kinds, order, leaves, keyword/operator/expression); the second Unmarshal must be deeply equal (labels case-insensitive) and IsEqual must succeed both ways when no capacity/fold is involved.",
         "Trusted: the reference unmarshaller/walker; trees up to the stated bound.", "§3 C04"),
 "C16": ("B", "exhaustive enumeration of []any inputs x receivers x call forms with a no-panic / error-or-usable oracle",
         "Every input of the bounded family (labels in any case, junk/empty strings, numbers, nil, typed nils, valid/zero/user/empty operators and non-operators in the operator slot, ready-made and zero Stacks/Conditions, empty and nested envelopes, CONDITION rows of 1..6 fields, depth <=3, width <=4/5) x receiver {zero, initialised, full, read-only} x {Marshal(in...), Marshal(in)}: no panic; an error, or an initialised receiver on which String/Unmarshal/IsEqual/Valid/Len/Kind return; recognised labels honoured case-insensitively; unknown leading string gives BASIC with all entries; an initialised receiver grows by exactly one Stack/Condition.",
         "Trusted: the effective-input rule (single-element envelopes are stripped); user operators are total.", "§3 C16"),

 "C10": ("C", "stateless model checking of the real code: cooperative scheduler over lock hooks, exhaustive / preemption-bounded DFS over schedules, sequential-consistency oracle; separate free-running -race pass",
         "Harness goroutines run one at a time under a scheduler that owns every scheduling point (operation start, lock wanted - enabled only while a model of that mutex says free -, lock released). For each scenario (shared mutex-enabled stack of length 0..3, LIFO/FIFO, capacity none/Len+1; 2x1 over 12 mutators, 2x2, 3x1: every interleaving; 3x2: preemption bound 2) every schedule is executed; the outcome (return values + final content) must be one a sequential execution of the reference list produces, with no panic, no deadlock (no enabled thread), configuration never lost or returned, and every change of content or lock bookkeeping inside lock.held..lock.release (raw dump compared at every hook event). Violating schedules are replayed twice for determinism. The 'no data race' clause cannot be seen by a scheduler at synchronisation granularity, so the same bodies also run free-running in a -race binary; that pass is a labelled non-exhaustive complement.",
         "Trusted: the lock model (mutex free/held from the hook events), sequential reference list; interleavings at synchronisation granularity only; race pass is sampling and only classifies read/write vs write/write.", "§3 C10"),

 "C08": ("B", "exhaustive enumeration of (stack, index value, operation) against the reference list, and of (method found by reflection, awkward value, receiver) with a no-panic / still-usable oracle",
         "Ints: complete product of stacks (kinds, lengths 0..3/4, nil-slot patterns, the four index-option settings, capacity none/Len/Len+1) x index values {MinInt, MinInt+1, MinInt/2, -Len-2..Len+2, MaxInt/2, MaxInt-1, MaxInt} x {Index, Remove, Replace, Traverse, Insert, Defrag, Swap(i,j), Less(i,j)}: results and content compared with the reference list, raw dump unchanged when the index addresses no element, stack still initialised and of the same kind; every other int-taking method found by reflection is called with extreme values. Values: every Stack/Condition method found by reflection that takes `any` or an Operator x ~55 awkward values (typed nils of every depth, zero/freed Stacks and Conditions and aliases, funcs, chans, maps, NaN/Inf, private-field structs, zero reflect.Value, empty slices) x 9 receivers, followed by 18 follow-up calls on the same instance; nothing may panic.",
         "Trusted: reference list; the awkward-value catalogue (values outside it are not covered); user methods are total.", "§3 C08"),

 "C17": ("B", "exhaustive enumeration of (method found by reflection, argument tuple, receiver state) with a zero-result / still-zero oracle",
         "Every exported method in the method sets of *Stack, *Condition and Auxiliary x argument tuples from the typed catalogue (the awkward values wherever `any` is taken) x receiver states {zero, freed, freed twice, Init()-only Condition, nil/empty Auxiliary}; every exported package-level function (table generated from /repo's sources at build time) x awkward arguments, with follow-up calls on what it returns; Reset on every nil pattern of length 0..4 x kinds x capacity x configuration variants; Free on read-only and writable instances. No panic, handle still zero (except Marshal / Condition.Init), zero results, error from Valid/IsEqual, and zero and freed instances must answer identically (differential, no hard-coded sentinel strings).",
         "Trusted: the typed argument catalogue; sentinel strings are compared differentially only.", "§3 C17"),

 "C09": ("A", "exhaustive enumeration of (read-only receiver, method found by reflection, argument tuple), singly and as ordered pairs, with a raw-dump-unchanged oracle",
         "Every exported method of Stack and Condition (method sets read by reflection at run time) x argument tuples from the typed catalogue is called on every read-only receiver (5 kinds x 3 contents x plain/fully configured incl. mutex, FIFO, capacity, options, policies, logger; 4 Conditions), singly and as ordered pairs on representative receivers; the recursive raw dump (addresses included, nested instances too) must be identical before and after, the only exceptions being the read-only bit itself, the error via SetErr and Condition.Init replacing the handle; Free must fail and keep the instance; clearing the flag must give back exactly the state it was set on, and mutability.",
         "Trusted: VerifDump as the complete state; the typed argument catalogue.", "§3 C09"),

 "C11": ("A/B+C", "exhaustive enumeration of (receiver, query found by reflection, arguments) with a raw-dump-unchanged oracle and a lock-hook trap; exhaustive schedule exploration of concurrent queries; separate free-running -race pass",
         "Every exported method found by reflection that is not in the declared mutator list is a query: x argument tuples x receivers (5 kinds x 3 contents x {plain, mutex, read-only, both} x {default, fully configured}; 8 Conditions). The recursive raw dump (nested instances included) must be identical before/after, the answer identical when repeated, altering every returned slice must change nothing, and the lock hook turns any lock event during a query into a failure (the read path is lock-free). Concurrency: every schedule of three threads issuing queries on one shared mutex-enabled structure is explored under the cooperative scheduler (answers equal the isolated ones, nothing written); the memory-model clause is served by a free-running -race pass with 16 goroutines in which any report is a violation.",
         "Trusted: VerifDump as the complete state; the mutator list (a mutator wrongly listed there is not checked here); race pass is sampling.", "§3 C11"),

 "C14": ("A/B", "exhaustive enumeration of (policy predicate, batch, capacity, prefill) with recorded call logs; explicit-state BFS over closure install/remove histories with per-state dispatch checks",
         "Push policy: all 16 accept/reject predicates over 4 value classes x every batch of length 1..3 x capacity none/1/2/3 x pre-filled 0..2 x no-nesting on/off; the policy's call log, the stored content and Err() are compared with the documented rule (consulted once per value while room remains, stop at the first rejection, keep what was appended, nothing rejected stored). Other closures: BFS to fix-point over installing (accepting / rejecting / sentinel variants) and removing (both forms) validity, presentation, equality, unmarshal, marshal closures (evaluator on Conditions) for all five kinds and Conditions; in every reachable state Valid, String, IsEqual, Unmarshal, Marshal and Evaluate are compared with the closure's sentinel or with a twin that never had a closure; BASIC refuses a presentation policy.",
         "Trusted: closures are pure and total; reference rule written from the statement.", "§3 C14"),

 "C12": ("B", "exhaustive enumeration of form assignments (native / alias / alias with String / pointers) over nested positions, differential against the all-native tree",
         "For every base tree (nested Stacks, Conditions with leaf and Stack expressions, nil gaps, empty stacks, multi-byte leaves) every assignment of a form to every nested Stack position (6 forms) and Condition position (5 forms) is built and compared with the all-native tree from the same description: String, Unmarshal, per-node Kind/Len/IsNesting/String, Condition Len/IsNesting/IsFIFO, Traverse over every path, IsEqual both ways, Defrag and Transfer results; plus no-nesting refusal (Push, SetExpression), Transfer-into and ConvertStack/ConvertCondition for every form (underlying instance by address) and for nil, zero aliases, nil pointers and unrelated types.",
         "Trusted: the native tree as the oracle (its own behaviour is covered by the other properties); four user-declared alias types.", "§3 C12"),

 "C02": ("B", "exhaustive enumeration of (tree, per-node option combination, leaf text) against an independent reference renderer",
         "Every tree of the bounded family: all 16 flag combinations x symbol / delimiter x 4 encapsulation lists on the root of every kind over 0..2 leaves from ten texts (multi-byte, embedded blanks and tabs, the empty string, numbers, bool); every root configuration over nested stacks (7 configurations x 4 kinds x 3 contents, empty, BASIC, alias) and Conditions (valid, invalid, numeric, multi-byte, Stack expression, parenthetical / encapsulated / unpadded, empty expression); the full per-node product on one child under six root configurations; depth 3 in the thorough tier. String() must equal, character for character, the rendering computed by a reference renderer written from the statement (join rule, lead-once, fold, symbol, delimiter, encapsulation outermost-first, nested NOT prefix, parentheses, final blank condensing, nothing for BASIC / empty / invalid children).",
         "Trusted: the reference renderer and the blank-placement rule of DESIGN.md §4 where the statement is silent (pinned by the repository's own tests); nil/struct leaves are outside the domain.", "§3 C02"),
}
not_built = {f"C{i:02d}" for i in range(1,21)} - set(checks)
m = {
 "version": 1,
 "setup_cmd": "./setup.sh",
 "hooks": {
  "guard": "verif",
  "enable": "go build -tags verif (harness module replaces github.com/JesseCoretta/go-stackage with /repo)",
  "baseline_off_cmd": "cd /repo && GOFLAGS=-mod=mod GOPROXY=off GOSUMDB=off GOTOOLCHAIN=local go test -json -vet=off -count=1 -timeout 25m ./...",
  "source_commits": [hook_commit, "005f561"],
  "add_only": True,
 },
 "engines": [
  {"name": "A", "path": "harness/bfs.go", "serves_properties": sorted(k for k,v in checks.items() if v[0]=="A"), "kind_free_text": "explicit-state breadth-first search over operation histories of the real implementation, compared step by step with Go reference models"},
  {"name": "B", "path": "harness/gen.go", "serves_properties": sorted(k for k,v in checks.items() if v[0]=="B"), "kind_free_text": "exhaustive bounded enumeration of inputs/trees/configurations (depth-1 transition systems) against reference oracles"},
  {"name": "C", "path": "harness/sched.go", "serves_properties": sorted(k for k,v in checks.items() if v[0]=="C"), "kind_free_text": "cooperative scheduler over the lock hooks with preemption-bounded stateless DFS; separate free-running -race pass"},
 ],
 "checks": [],
 "not_applicable": [{"property_id": p, "reason": "check not built yet (work in progress; model checking is applicable)"} for p in sorted(not_built)],
 "notes": "All checks: cwd=/verif, ./run.sh <id> <tier> rebuilds the harness against /repo's working tree with -tags verif and runs it in a worker under a supervising process (a worker that dies after journalling a violation is reported as exit 1, otherwise exit 2). Known findings: /verif/known_findings.txt. 240 seeded changes with results: /verif/seeded/.",
}
# what the five seeding rounds added on top of the original bounded families (DESIGN.md section 7)
later = {
 "C01": " Later additions: push-policy / mutex / decorated variants, capacities at the edge of int, observed histories (every query issued between the steps), and a long regime (machines that start from 9..130 prefilled elements, drains as single operations).",
 "C02": " Later additions: more symbols / delimiters / leaf kinds, Conditions built through seven histories, and a second rendering of every tree after each presentation flag of the root and of the first nested stack was flipped with the toggle form (and flipped back).",
 "C03": " Later additions: push-policy, mutex, no-nesting and decorated variants, stacks made by Marshal on a zero value, observed histories, and a long regime (capacities 9..2000 almost full at the start).",
 "C04": " Later additions: decorated stacks, invalid Conditions, and a long regime of wide stacks (8..130 elements) at the top, nested and as Condition expressions.",
 "C05": " Later additions: many more leaf kinds (append-grown slices, []any, byte arrays, deep pointers, hollow handles, Stacks / Conditions inside typed slices), user operators, symbols and case folding shared by both sides, eight construction histories.",
 "C06": " Later additions: typed-nil and uncomparable operators, alias expressions, observed histories, an earlier copy of the handle across Init, and a small sequential machine with six encapsulation schemes in every order next to a bystander Condition.",
 "C07": " Later additions: seven option placements, reference descent by the harness's own type switches (not the library's converters), hollow siblings, Conditions completed after construction, depth-2 shapes in the quick tier, and chains of depth 6..33 with every prefix and one-index deviation.",
 "C08": " Later additions: ~80 awkward values, an independently built twin for every call, cross-comparison of all value pairs, self references for Transfer / IsEqual, Less over every pair and sorting, lock-leak tests, and a long regime (lengths 9..62).",
 "C09": " Later additions: rejecting closures on receivers, label-led Marshal tuples, fluent results must be the receiver, read-only instances nested at every position of small parents and at depth 1..12 below writable ancestors, and standing beside every package-level function call.",
 "C10": " Later additions: push-policy path (accepting and rejecting), SetMutex issued again, kinds rotated, index options with removals addressed from the end, twelve-value pushes, 2x3 programs with preemption bound 2 in the thorough tier.",
 "C11": " Later additions: spy leaves that record the structure while it is being rendered, closures as scheduling points, a repetition pass (6000 calls in a row), a pass with the package default loggers replaced after construction, exactly-full receivers, half-built / failing-policy Conditions.",
 "C12": " Later additions: aliases whose own String differs from the native text, a prelude of hollow alias values, Conditions built through histories, nested stacks with closures of their own, wide parents (8..20).",
 "C13": " Later additions: nil pointers and three-level pointers to aliases, decorated / capacity variants, the deprecated alias with explicit argument, a piecemeal Condition machine, observed histories.",
 "C14": " Later additions: mutex variants under the lock model, decorated kinds, four kinds of built-in-invalid Conditions, closures that answer as a function of their arguments, self comparands, batches of 8..70 with the first rejection at every critical position.",
 "C15": " Later additions: 21 destination forms (pointers to pointers), destinations that refuse elements themselves, mixed sources, mutex variants with lock-leak tests, the source as its own destination, and a long regime (sources 31..1100).",
 "C16": " Later additions: typed nils of depth 1..3 in every position, a typed-nil operator, mutex and mutex+policy receivers under the lock model, neighbours with swapped operators, undecoded-envelope test, wide inputs (14..70 entries).",
 "C17": " Later additions: package-level function table with inert-argument oracle, Reset on stacks that held 1023..2500 elements, bystander instances for every non-query call, copies of a handle across Free.",
 "C18": " Later additions: validity-rejecting and mutex variants, letter symbols / encapsulations, non-ASCII runes, Condition settings machine, SetLogger among the log-level operations, empty auxiliary map, observed histories.",
 "C19": " Later additions: eleven placements incl. parent options, pre-existing errors, index options / read-only flag on the nested stack, the receiver's own Err, run-length patterns with limits 60 / 100 and stacks of 65..135 slices.",
 "C20": " Later additions: typed nil pointers as leaves, decorated stacks, Conditions built through histories, behaviour modes (index options, capacity reached with one refused call made beforehand, read-only receiver), the fluent result must be the receiver, envelope runs above multi-child stacks, Conditions holding two-level stacks next to removable envelopes.",
}
for pid,(eng,tech,text,note,ref) in sorted(checks.items()):
    text += later.get(pid, "")
    m["checks"].append({
     "property_id": pid,
     "quick_cmd": f"./run.sh {pid} quick",
     "thorough_cmd": f"./run.sh {pid} thorough",
     "evidence_file": f"/verif/evidence/{pid}.json",
     "replay_cmd_template": f"./run.sh {pid} quick --replay {{path}}",
     "engine": eng,
     "level_claimed": {"category": "model_checking", "text": text, "design_ref": ref},
     "level_note": note,
     "technique": tech,
    })
json.dump(m, open("/verif/MANIFEST.json","w"), indent=1)
print("checks:", len(m["checks"]), "not_applicable:", len(m["not_applicable"]))
