package main

import (
	"fmt"
	"reflect"
	"strings"

	stackage "github.com/JesseCoretta/go-stackage"
)

// node is a description of an element of an expression tree; build() turns it into live values.
// Kinds: "leaf" (text), "nil", "S" stack, "A" alias of stack, "AS" alias with String, "PA" pointer to
// alias, "E" empty stack, "CL" condition(leaf), "CS" condition(stack), "CA" condition(alias stack).
type node struct {
	T    string `json:"t"`
	K    string `json:"k,omitempty"` // stack kind for S/A/AS/PA/E/CS/CA
	Kids []node `json:"kids,omitempty"`
	V    any    `json:"v,omitempty"` // leaf value override
}

func (n node) String() string {
	switch n.T {
	case "leaf":
		if n.V != nil {
			return fmt.Sprintf("%v", n.V)
		}
		return "x"
	case "nil":
		return "nil"
	case "tnil", "tnil2", "zalias", "nilPA":
		return n.T
	case "CL":
		return "C(x)"
	}
	var p []string
	for _, k := range n.Kids {
		p = append(p, k.String())
	}
	return n.T + ":" + n.K + "[" + strings.Join(p, ",") + "]"
}

type buildOpts struct {
	neg, fwd bool
	// per-stack hook (e.g. set options); called for every Stack built
	each func(s stackage.Stack, path string)
	// after is called once the stack's elements have been pushed
	after func(s stackage.Stack, path string)
	// ptrs collects the pointer variables created for "PS" / "CPS" nodes (so that a caller can re-point them)
	ptrs *[]*stackage.Stack
	// condAfter is called on every Condition once it is complete
	condAfter func(c stackage.Condition)
}

func (n node) buildStack(path string, o *buildOpts) stackage.Stack {
	s := newStackKind(n.K)
	if o != nil {
		if o.neg {
			s.SetNegativeIndices(true)
		}
		if o.fwd {
			s.SetForwardIndices(true)
		}
		if o.each != nil {
			o.each(s, path)
		}
	}
	var vals []any
	for i, k := range n.Kids {
		vals = append(vals, k.build(fmt.Sprintf("%s.%d", path, i), o))
	}
	fill(s, vals, fillMode(n.String()+path))
	if o != nil && o.after != nil {
		o.after(s, path)
	}
	return s
}

func (n node) build(path string, o *buildOpts) any {
	v := n.buildRaw(path, o)
	if o != nil && o.condAfter != nil {
		if cd, ok := refAsCond(v); ok {
			o.condAfter(cd)
		}
	}
	return v
}

func (n node) buildRaw(path string, o *buildOpts) any {
	switch n.T {
	case "leaf":
		if n.V != nil {
			return n.V
		}
		return "L" + path
	case "nil":
		return nil
	case "tnil": // a typed nil pointer: a non-nil element as far as Index is concerned
		return (*int)(nil)
	case "tnil2":
		var inner *string
		return &inner
	case "S", "E":
		return n.buildStack(path, o)
	case "A":
		return StackAlias(n.buildStack(path, o))
	case "AS":
		return StackAliasS(n.buildStack(path, o))
	case "PA":
		a := StackAlias(n.buildStack(path, o))
		return &a
	case "CL":
		var v any = "E" + path
		if n.V != nil {
			v = n.V
		}
		return stackage.Cond("kw"+path, stackage.Eq, v)
	case "CS":
		return stackage.Cond("kw"+path, stackage.Ne, n.buildStack(path, o))
	case "CA":
		return stackage.Cond("kw"+path, stackage.Ge, StackAlias(n.buildStack(path, o)))
	case "PI": // the address of an interface variable that holds a Stack: a leaf (nothing says one may look through it)
		var v any = n.buildStack(path, o)
		return &v
	case "RVS": // a reflect.Value that describes a Stack: a plain struct value, a leaf
		return reflect.ValueOf(n.buildStack(path, o))
	case "RVC": // ... that describes a Condition over a Stack
		return reflect.ValueOf(stackage.Cond("kw"+path, stackage.Le, n.buildStack(path, o)))
	case "CRVS": // a Condition whose expression is a reflect.Value describing a Stack
		return stackage.Cond("kw"+path, stackage.Lt, reflect.ValueOf(n.buildStack(path, o)))
	case "CPI":
		var v any = n.buildStack(path, o)
		return stackage.Cond("kw"+path, stackage.Eq, &v)
	case "PS", "CPS": // a pointer to a Stack variable, as element / as a Condition's expression
		v := n.buildStack(path, o)
		if o != nil && o.ptrs != nil {
			*o.ptrs = append(*o.ptrs, &v)
		}
		if n.T == "CPS" {
			return stackage.Cond("kw"+path, stackage.Le, &v)
		}
		return &v
	case "CSE": // a Condition over a Stack that was first built incomplete and completed afterwards: valid, but
		// the error recorded by Cond is still there
		return stackage.Cond("", stackage.Ne, n.buildStack(path, o)).SetKeyword("kw" + path)
	case "zalias": // a zero-valued Stack alias: an element like any other leaf, not a Stack
		return StackAlias{}
	case "nilPA":
		return (*StackAlias)(nil)
	case "CCL":
		return CondAlias(stackage.Cond("kw"+path, stackage.Eq, "E"+path))
	case "CCS":
		return CondAlias(stackage.Cond("kw"+path, stackage.Ne, n.buildStack(path, o)))
	case "P3S", "CP3S", "P3C": // three pointer levels above a Stack (as element / as a Condition's expression), above a Condition holding a Stack
		st := n.buildStack(path, o)
		if n.T == "P3C" {
			cd := stackage.Cond("kw"+path, stackage.Ne, st)
			p1 := &cd
			p2 := &p1
			return &p2
		}
		p1 := &st
		p2 := &p1
		if n.T == "CP3S" {
			return stackage.Cond("kw"+path, stackage.Le, &p2)
		}
		return &p2
	case "AF": // an alias that wraps every method of the exported Interface (it qualifies for Interface; it is a Stack alias)
		return StackAliasF(n.buildStack(path, o))
	case "CAF":
		return stackage.Cond("kw"+path, stackage.Gt, StackAliasF(n.buildStack(path, o)))
	case "CFS": // the same for a Condition alias, over a Stack
		return CondAliasF(stackage.Cond("kw"+path, stackage.Lt, n.buildStack(path, o)))
	case "NPS", "NPA", "CNPS", "NPC", "PNPS": // declared pointer types (type StackRef *Stack ...): pointers like any other
		st := n.buildStack(path, o)
		switch n.T {
		case "NPS":
			return StackRef(&st)
		case "NPA":
			a := StackAlias(st)
			return AliasRef(&a)
		case "CNPS":
			return stackage.Cond("kw"+path, stackage.Ge, StackRef(&st))
		case "NPC":
			cd := stackage.Cond("kw"+path, stackage.Ne, st)
			return CondRef(&cd)
		}
		r := StackRef(&st)
		return &r // a plain pointer to a declared pointer
	case "C2S": // a Condition whose expression is a Condition that holds a Stack: not a way down (the expression is no Stack)
		return stackage.Cond("outer"+path, stackage.Eq, stackage.Cond("inner"+path, stackage.Ne, n.buildStack(path, o)))
	case "C2A":
		return stackage.Cond("outer"+path, stackage.Eq, CondAlias(stackage.Cond("inner"+path, stackage.Ne, StackAlias(n.buildStack(path, o)))))
	}
	panic("node kind " + n.T)
}

// genStacks enumerates stack descriptions: wrappers in `wraps` around 0..width children, each child
// drawn from `atoms` or (if depth>1) from the stacks of depth-1. kinds cycles deterministically.
func genStacks(depth, minW, width int, atoms []node, wraps []string, kinds []string) []node {
	var lower []node
	if depth > 1 {
		lower = genStacks(depth-1, minW, width, atoms, wraps, kinds)
	}
	elems := append([]node{}, atoms...)
	elems = append(elems, lower...)
	var out []node
	ki := 0
	var rec func(cur []node)
	rec = func(cur []node) {
		if len(cur) >= minW {
			for _, w := range wraps {
				out = append(out, node{T: w, K: kinds[ki%len(kinds)], Kids: append([]node{}, cur...)})
				ki++
			}
		}
		if len(cur) == width {
			return
		}
		for _, e := range elems {
			rec(append(cur, e))
		}
	}
	rec(nil)
	return out
}
