package main

import (
	"encoding/json"
	"fmt"
	"regexp"
	"strings"

	stackage "github.com/JesseCoretta/go-stackage"
)

// C02 — String() renders the expression tree by one fixed compositional grammar (Engine B).

type gnode struct {
	T      string  `json:"t"` // leaf stack cond
	V      any     `json:"v,omitempty"`
	Kind   string  `json:"kind,omitempty"`
	Paren  bool    `json:"paren,omitempty"`
	Fold   bool    `json:"fold,omitempty"`
	NoPad  bool    `json:"nopad,omitempty"`
	Lonce  bool    `json:"leadonce,omitempty"`
	Sym    string  `json:"sym,omitempty"`
	Delim  string  `json:"delim,omitempty"`
	Enc    int     `json:"enc,omitempty"`
	Kids   []gnode `json:"kids,omitempty"`
	Kw     string  `json:"kw,omitempty"`
	Op     int     `json:"op,omitempty"`
	AsType string  `json:"as,omitempty"` // "", "alias": nested stack stored as an alias value
	// EncList, when set, is the encapsulation scheme itself (used by C18, whose machines build arbitrary lists)
	EncList [][]string `json:"-"`
}

var encLists = [][]any{nil, {`"`}, {[]string{"(", ")"}}, {[]string{"(", ")"}, `"`}, {[]string{"[", "]"}, []string{"<"}}, nil, nil, nil,
	// 8: a pair whose two sides are the same character, then a second scheme; 9: text that means something to
	// fmt, as a single character and as a pair
	{[]string{"'", "'"}, []string{"<", ">"}}, {"%", []string{"{%", "%}"}}}
var encModel = [][][]string{nil, {{`"`}}, {{"(", ")"}}, {{"(", ")"}, {`"`}}, {{"[", "]"}, {"<"}},
	{{"<", ">"}}, {{"<"}}, {{">"}}, // 5..7: used by c02SharedEncap only
	{{"'", "'"}, {"<", ">"}}, {{"%"}, {"{%", "%}"}}}

func (n gnode) cfgString() string {
	var f []string
	for _, x := range []struct {
		b bool
		n string
	}{{n.Paren, "paren"}, {n.Fold, "fold"}, {n.NoPad, "nopad"}, {n.Lonce, "leadonce"}} {
		if x.b {
			f = append(f, x.n)
		}
	}
	if n.Sym != "" {
		f = append(f, "sym="+n.Sym)
	}
	if n.Delim != "" {
		f = append(f, "delim="+n.Delim)
	}
	if n.Enc != 0 {
		f = append(f, fmt.Sprintf("enc=%d", n.Enc))
	}
	return strings.Join(f, ",")
}

func (n gnode) String() string {
	switch n.T {
	case "leaf":
		return fmt.Sprintf("%q", fmt.Sprint(n.leaf()))
	case "cond":
		return fmt.Sprintf("C{%s}(%q op%d %s)", n.cfgString(), n.Kw, n.Op, n.Kids[0])
	}
	p := make([]string, len(n.Kids))
	for i, k := range n.Kids {
		p[i] = k.String()
	}
	return fmt.Sprintf("%s{%s}[%s]", n.Kind, n.cfgString(), strings.Join(p, " "))
}

func (n gnode) leaf() any {
	if f, ok := n.V.(float64); ok && n.Kind == "int" {
		return int(f)
	}
	return n.V
}

func (n gnode) build() any {
	switch n.T {
	case "leaf":
		return n.leaf()
	case "cond":
		c := condHistory(n.Kw, c02Operator(n.Op), n.Kids[0].build(), fillMode(n.Kw+fmt.Sprint(n.Op, len(n.Kids))))
		if n.Paren {
			c.SetParen(true)
		}
		if n.NoPad {
			c.SetNoPadding(true)
		}
		if n.Enc != 0 {
			c.SetEncap(encLists[n.Enc]...)
		}
		return c
	}
	s := newStackKind(n.Kind)
	if n.Paren {
		s.SetParen(true)
	}
	if n.Fold {
		s.SetFold(true)
	}
	if n.NoPad {
		s.SetNoPadding(true)
	}
	if n.Lonce {
		s.SetLeadOnce(true)
	}
	if n.Sym != "" {
		s.SetSymbol(n.Sym)
	}
	if n.Delim != "" {
		if r := []rune(n.Delim); len(r) == 1 && r[0] < 0x20 {
			s.SetDelimiter(r[0]) // a control character is handed over as a rune (round 14): the other argument form
		} else {
			s.SetDelimiter(n.Delim)
		}
	}
	if n.Enc != 0 {
		s.SetEncap(encLists[n.Enc]...)
	}
	var vals []any
	for _, k := range n.Kids {
		vals = append(vals, k.build())
	}
	fill(s, vals, fillMode(n.String()))
	if n.AsType == "alias" {
		return StackAlias(s)
	}
	return s
}

var blanksRe = regexp.MustCompile(`[ \t]+`)

// refCondense: every run of blanks becomes one space, none at either end.
func refCondense(s string) string {
	return strings.Trim(blanksRe.ReplaceAllString(s, " "), " ")
}

func pad(nopad bool) string {
	if nopad {
		return ""
	}
	return " "
}

// ref is the reference renderer, written from the statement (DESIGN.md §3 C02 / §4 for blank placement).
func (n gnode) ref() string {
	switch n.T {
	case "leaf":
		return fmt.Sprint(n.leaf())
	case "cond":
		return n.refCond()
	}
	if n.Kind == "BASIC" {
		return ""
	}
	sym := n.Sym
	delim := n.Delim
	if n.Kind == "LIST" {
		sym = ""
	} else {
		delim = ""
	}
	var elems []string
	for _, k := range n.Kids {
		var e string
		switch k.T {
		case "leaf":
			enc := encModel[n.Enc]
			if n.EncList != nil {
				enc = n.EncList
			}
			e = refEncap(enc, fmt.Sprint(k.leaf()))
			if e != "" {
				e = pad(n.NoPad) + e + pad(n.NoPad)
			}
		case "cond":
			e = k.refCond()
		default:
			e = k.ref()
			ksym := k.Sym
			if k.Kind == "LIST" {
				ksym = ""
			}
			if e != "" && k.Kind == "NOT" && ksym == "" {
				w := "NOT"
				if k.Fold {
					w = "not"
				}
				e = w + " " + e
			}
		}
		if e != "" {
			elems = append(elems, e)
		}
	}
	word := n.Kind
	if n.Fold {
		word = strings.ToLower(word)
	}
	var body string
	switch {
	case len(elems) == 0:
		body = ""
	case n.Lonce:
		prefix := ""
		if n.Kind != "LIST" {
			switch {
			case sym != "":
				prefix = sym
			case n.NoPad:
				prefix = word
			default:
				prefix = " " + word + " "
			}
		}
		body = prefix + strings.Join(elems, "")
	case n.Kind == "LIST":
		sep := delim
		if sep == "" {
			sep = pad(n.NoPad)
		}
		body = strings.Join(elems, sep)
	case sym != "":
		body = strings.Join(elems, pad(n.NoPad)+sym+pad(n.NoPad))
	default:
		body = strings.Join(elems, " "+word+" ")
	}
	if n.Paren {
		body = "(" + pad(n.NoPad) + body + pad(n.NoPad) + ")"
	}
	return refCondense(body)
}

// c02Operator: 1..6 the built-in comparison operators (other small numbers: invalid ones), 101 / 102 user
// operators whose value is the zero value of its type, 103 an ordinary user operator.
func c02Operator(op int) stackage.Operator {
	switch op {
	case 101:
		return zeroOp{}
	case 102:
		return enumOp(0)
	case 103:
		return userOp{"~>", "follows"}
	case 104: // a user's operator that files itself under the package's own context name
		return cmpCtxOp("~=")
	case 105: // a user's operator of integer kind, beyond the six built-in values
		return enumOp(7)
	}
	return stackage.ComparisonOperator(op)
}

func (n gnode) refCond() string {
	if n.Kw == "" || ((n.Op < 1 || n.Op > 6) && (n.Op < 101 || n.Op > 105)) {
		return ""
	}
	ex := n.Kids[0]
	var raw string
	switch ex.T {
	case "leaf":
		if ex.leaf() == nil {
			return ""
		}
		raw = fmt.Sprint(ex.leaf())
		if raw == "" {
			if _, isStr := ex.leaf().(string); isStr {
				return "" // an empty string is not accepted as expression
			}
		}
	case "cond":
		raw = ex.refCond()
	default:
		raw = ex.ref()
	}
	p := pad(n.NoPad)
	s := n.Kw + p + refOpText(c02Operator(n.Op)) + p + refEncap(encModel[n.Enc], raw)
	if n.Paren {
		s = "(" + p + s + p + ")"
	}
	return s
}

func c02Check(c *Ctx, n gnode, count bool) {
	var got string
	if count {
		c.Evals.Add(1)
		c.Transitions.Add(1)
		c.Traces.Add(1)
	}
	size := len(n.String())
	if p := noPanic(func() { got = fmt.Sprintf("%s", n.build()) }); p != "" {
		c.Violation("panic", fmt.Sprintf("String() panicked on %s: %s", n, p), n, size)
		return
	}
	want := n.ref()
	if got != want {
		c.Violation("render:"+c02Class(n, got, want), fmt.Sprintf("String()=%q want %q for %s", got, want, n), n, size)
	}
	if count {
		if len(n.Kids) > 0 {
			c.Nontrivial(n.String())
		}
		c.Outcome(want)
	}
	if got == want && n.T == "stack" {
		c02Reconfigure(c, n, count)
	}
}

// c02Reconfigure starts from the already rendered tree (a non-initial state: whatever rendering left
// behind is still there), flips one presentation flag of the root or of its first nested Stack with
// the argument-free toggle form, renders again and compares with the reference for the changed
// description; then flips it back and expects the first text again.
func c02Reconfigure(c *Ctx, n gnode, count bool) {
	type target struct {
		path int // -1 root, else index of the nested stack
	}
	targets := []target{{-1}}
	for i, k := range n.Kids {
		if k.T == "stack" {
			targets = append(targets, target{i})
			break
		}
	}
	flags := []struct {
		name string
		flip func(g *gnode)
		call func(s stackage.Stack, g gnode)
	}{
		{"SetFold()", func(g *gnode) { g.Fold = !g.Fold }, func(s stackage.Stack, _ gnode) { s.SetFold() }},
		{"SetParen()", func(g *gnode) { g.Paren = !g.Paren }, func(s stackage.Stack, _ gnode) { s.SetParen() }},
		{"SetNoPadding()", func(g *gnode) { g.NoPad = !g.NoPad }, func(s stackage.Stack, _ gnode) { s.SetNoPadding() }},
		{"SetLeadOnce()", func(g *gnode) { g.Lonce = !g.Lonce }, func(s stackage.Stack, _ gnode) { s.SetLeadOnce() }},
		// options that govern what may be stored or how positions are addressed: the rendering of what is
		// already held must not notice them
		{"SetNoNesting()", func(g *gnode) {}, func(s stackage.Stack, _ gnode) { s.SetNoNesting() }},
		{"SetReadOnly()", func(g *gnode) {}, func(s stackage.Stack, _ gnode) { s.SetReadOnly() }},
		{"SetNegativeIndices()", func(g *gnode) {}, func(s stackage.Stack, _ gnode) { s.SetNegativeIndices() }},
		{"SetForwardIndices()", func(g *gnode) {}, func(s stackage.Stack, _ gnode) { s.SetForwardIndices() }},
		// things that have no say in how the content is rendered: an error put on record, an identifier, a
		// category, auxiliary data, log levels, a capacity-neutral comparison function
		{"SetErr(error)", func(g *gnode) {}, func(s stackage.Stack, _ gnode) { s.SetErr(errCat) }},
		{"SetErr(nil pointer inside an error value)", func(g *gnode) {}, func(s stackage.Stack, _ gnode) { s.SetErr((*ptrErr)(nil)) }},
		{"SetID; SetCategory; SetAuxiliary; SetLogLevel", func(g *gnode) {}, func(s stackage.Stack, _ gnode) {
			s.SetID("late-id").SetCategory("late-cat").SetAuxiliary(stackage.Auxiliary{"k": 1}).SetLogLevel("all").SetLessFunc(func(i, j int) bool { return i < j })
		}},
		// calls that are refused (no argument of a usable type) or have nothing to do with rendering
		{"SetEncap('[' as a rune)", func(g *gnode) {}, func(s stackage.Stack, _ gnode) { s.SetEncap('[') }},
		{"SetEncap(nil, 42)", func(g *gnode) {}, func(s stackage.Stack, _ gnode) { s.SetEncap(nil, 42) }},
		{"SetEncap(3.5, struct{}{})", func(g *gnode) {}, func(s stackage.Stack, _ gnode) { s.SetEncap(3.5, struct{}{}) }},
		// two ways to the same configuration: the case-fold option toggled while a symbol hides the word, the
		// symbol then put back as it was; no-padding toggled while the instance is parenthetical and back
		{"SetSymbol(tmp); SetFold(); SetSymbol(as before)", func(g *gnode) { g.Fold = !g.Fold }, func(s stackage.Stack, g gnode) {
			s.SetSymbol("tmp-symbol")
			s.SetFold()
			if g.Sym == "" {
				s.SetSymbol()
			} else {
				s.SetSymbol(g.Sym)
			}
		}},
		{"SetParen(); SetNoPadding(); SetParen()", func(g *gnode) { g.NoPad = !g.NoPad }, func(s stackage.Stack, g gnode) { s.SetParen(); s.SetNoPadding(); s.SetParen() }},
		{"SetLeadOnce(true) twice; SetFold(true) twice", func(g *gnode) { g.Lonce, g.Fold = true, true }, func(s stackage.Stack, g gnode) {
			s.SetLeadOnce(true).SetLeadOnce(true).SetFold(true).SetFold(true)
		}},
		{"SetID / SetCategory / SetAuxiliary", func(g *gnode) {}, func(s stackage.Stack, _ gnode) { s.SetID("an-id").SetCategory("a-category").SetAuxiliary() }},
	}
	size := len(n.String())
	for _, tg := range targets {
		for _, fl := range flags {
			var texts [3]string
			var wants [3]string
			p := noPanic(func() {
				root, _ := stackage.ConvertStack(n.build())
				live := root
				if tg.path >= 0 {
					v, _ := root.Index(tg.path)
					live, _ = stackage.ConvertStack(v)
				}
				mod := n
				mod.Kids = append([]gnode{}, n.Kids...)
				g := &mod
				if tg.path >= 0 {
					g = &mod.Kids[tg.path]
				}
				texts[0], wants[0] = root.String(), n.ref()
				fl.call(live, *g)
				fl.flip(g)
				texts[1], wants[1] = root.String(), mod.ref()
				fl.call(live, *g)
				if strings.Contains(fl.name, "twice") {
					texts[2], wants[2] = root.String(), mod.ref() // idempotent: saying it again keeps it
				} else {
					texts[2], wants[2] = root.String(), n.ref()
				}
			})
			if count {
				c.Evals.Add(2)
				c.Transitions.Add(2)
			}
			where := "root"
			if tg.path >= 0 {
				where = fmt.Sprintf("nested stack #%d", tg.path)
			}
			if p != "" {
				c.Violation("panic:after-toggle", fmt.Sprintf("rendering %s again after %s on the %s panicked: %s", n, fl.name, where, p), n, size)
				return
			}
			for i := 1; i < 3; i++ {
				if texts[i] != wants[i] {
					c.Violation("render-after-toggle:"+fl.name, fmt.Sprintf("after rendering once and then %s x%d on the %s, String()=%q want %q for %s", fl.name, i, where, texts[i], wants[i], n), n, size)
					return
				}
			}
		}
	}
}

// c02SharedEncap: two instances configured from parts of ONE slice the caller keeps (the whole pair for
// one, a one-element part with spare room behind it for the other), in both orders, Stacks of every kind
// and Conditions: each renders with exactly the scheme it was given, before and after the other one is
// configured and rendered, and the caller's slice is not written to.
func c02SharedEncap(c *Ctx) int {
	n := 0
	type inst struct {
		name  string
		mk    func(enc ...any) fmt.Stringer
		model func(enc int) gnode
	}
	var insts []inst
	for _, k := range kindNames {
		k := k
		insts = append(insts, inst{k, func(enc ...any) fmt.Stringer { return newStackKind(k).SetEncap(enc...).Push("x", "y") },
			func(enc int) gnode {
				return gnode{T: "stack", Kind: k, Enc: enc, Kids: []gnode{{T: "leaf", V: "x"}, {T: "leaf", V: "y"}}}
			}})
	}
	insts = append(insts, inst{"Condition", func(enc ...any) fmt.Stringer { return stackage.Cond("k", stackage.Eq, "v").SetEncap(enc...) },
		func(enc int) gnode {
			return gnode{T: "cond", Kw: "k", Op: 1, Enc: enc, Kids: []gnode{{T: "leaf", V: "v"}}}
		}})
	for _, a := range insts {
		for _, b := range insts {
			for order := 0; order < 2; order++ {
				for part := 0; part < 2; part++ {
					n++
					c.Transitions.Add(1)
					own := []string{"<", ">"}
					partArg, partEnc := own[:1], 6
					if part == 1 {
						partArg, partEnc = own[1:], 7
					}
					var whole, piece fmt.Stringer
					p := noPanic(func() {
						if order == 0 {
							whole = a.mk(own)
							_ = whole.String()
							piece = b.mk(partArg)
						} else {
							piece = b.mk(partArg)
							_ = piece.String()
							whole = a.mk(own)
						}
					})
					desc := fmt.Sprintf("%s.SetEncap(own) and %s.SetEncap(own[%d:%d]) (order %d), own = [\"<\" \">\"]", a.name, b.name, part, part+1, order)
					if p != "" {
						c.Violation("panic:shared-encap", desc+": "+p, nil, 0)
						continue
					}
					for round := 0; round < 2; round++ {
						if got, want := whole.String(), a.model(5).ref(); got != want {
							c.Violation("render:shared-encap-slice", fmt.Sprintf("%s: the instance given the whole pair renders %q want %q", desc, got, want), nil, 0)
						}
						if got, want := piece.String(), b.model(partEnc).ref(); got != want {
							c.Violation("render:shared-encap-slice", fmt.Sprintf("%s: the instance given the one-element part renders %q want %q", desc, got, want), nil, 0)
						}
					}
					if own[0] != "<" || own[1] != ">" {
						c.Violation("caller-slice-modified:SetEncap", fmt.Sprintf("%s: the caller's slice now reads %q", desc, own), nil, 0)
					}
				}
			}
		}
	}
	return n
}

// c02Class names the feature most likely involved, for stable violation keys.
func c02Class(n gnode, got, want string) string {
	nonASCII := func(s string) bool {
		for _, r := range s {
			if r > 127 {
				return true
			}
		}
		return false
	}
	switch {
	case nonASCII(want) && !nonASCII(strings.ReplaceAll(got, "Ã", "")) || strings.Contains(got, "Ã"):
		return "utf8"
	case strings.EqualFold(got, want):
		return "case-fold"
	case strings.ReplaceAll(got, " ", "") == strings.ReplaceAll(want, " ", ""):
		return "blanks"
	case strings.HasPrefix(got, want) || strings.HasSuffix(got, want) || strings.Contains(got, want):
		return "extra-text(dangling-operator?)"
	case strings.Contains(want, got):
		return "missing-text"
	}
	return "other"
}

func c02Cfgs(kind string, full bool) []gnode {
	var out []gnode
	syms := []string{"", "&", "&&", "vel", " && "} // the last one: blanks at either end belong to the symbol
	delims := []string{""}
	if kind == "LIST" {
		syms = []string{""}
		delims = []string{"", ",", "é", " ", "\n"}
	}
	encs := []int{0, 1, 2, 3, 8, 9}
	if !full {
		encs = []int{0, 3, 8}
	}
	for m := 0; m < 16; m++ {
		if kind == "LIST" && m&2 != 0 {
			continue // case folding has no effect on LIST
		}
		for _, sy := range syms {
			for _, dl := range delims {
				for _, en := range encs {
					out = append(out, gnode{T: "stack", Kind: kind, Paren: m&1 != 0, Fold: m&2 != 0, NoPad: m&4 != 0, Lonce: m&8 != 0, Sym: sy, Delim: dl, Enc: en})
				}
			}
		}
	}
	return out
}

func c02Trees(c *Ctx) []gnode {
	lf := func(v any) gnode {
		if _, ok := v.(int); ok {
			return gnode{T: "leaf", V: v, Kind: "int"}
		}
		return gnode{T: "leaf", V: v}
	}
	cond := func(kw string, op int, ex gnode) gnode { return gnode{T: "cond", Kw: kw, Op: op, Kids: []gnode{ex}} }
	leaves := []gnode{lf("a"), lf("b c"), lf(" x "), lf(""), lf("é"), lf("日本"), lf("a\tb"), lf(7), lf(2.5), lf(true), lf("l1\nl2"), lf("東京\u3000都"), lf("n\u00a0b\rc")}
	small := []gnode{lf("a"), lf("é x"), lf(""), lf(7)}
	kinds := []string{"AND", "OR", "NOT", "LIST"}
	with := func(cfg gnode, kids ...gnode) gnode { cfg.Kids = kids; return cfg }
	// children: stacks with a handful of configurations, empty stacks, BASIC, conditions
	var childStacks []gnode
	for _, k := range kinds {
		for _, cf := range []gnode{{}, {Paren: true}, {Fold: true}, {NoPad: true, Paren: true}, {Lonce: true}, {Sym: "|"}, {Paren: true, Fold: true, Lonce: true, Enc: 1}} {
			cf.T, cf.Kind = "stack", k
			if k == "LIST" {
				cf.Sym = ""
				if cf.Fold {
					cf.Delim = ";"
				}
			}
			childStacks = append(childStacks, with(cf, lf("p"), lf("q r")), with(cf, lf("é")), with(cf))
		}
	}
	childStacks = append(childStacks, gnode{T: "stack", Kind: "BASIC", Kids: []gnode{lf("hidden")}}, gnode{T: "stack", Kind: "AND", AsType: "alias", Kids: []gnode{lf("al"), lf("ias")}})
	conds := []gnode{cond("k", 1, lf("v")), cond("", 1, lf("v")), cond("k", 9, lf("v")), cond("n", 6, lf(7)), cond("k", 2, lf("日本 語")), cond("k\u00a0w", 2, lf("v\nw")),
		cond("s", 3, gnode{T: "stack", Kind: "OR", Kids: []gnode{lf("a"), lf("b")}}),
		{T: "cond", Kw: "p", Op: 4, Paren: true, Enc: 1, Kids: []gnode{lf("q")}}, {T: "cond", Kw: "p", Op: 5, NoPad: true, Paren: true, Kids: []gnode{lf("q")}},
		cond("e", 1, lf("")),
		// blanks at either end of a keyword belong to the keyword (visible where nothing pads or condenses)
		{T: "cond", Kw: "cn ", Op: 1, NoPad: true, Kids: []gnode{lf("x")}}, {T: "cond", Kw: " cn", Op: 2, NoPad: true, Paren: true, Kids: []gnode{lf("x")}}, {T: "cond", Kw: " ", Op: 1, NoPad: true, Kids: []gnode{lf("x")}},
		// user operators, two of them the zero value of their type
		cond("cn", 101, lf("Jesse")), cond("cn", 102, lf("J*")), cond("cn", 103, lf("x")), {T: "cond", Kw: "cn", Op: 101, NoPad: true, Paren: true, Kids: []gnode{lf("Jesse")}},
		cond("cn", 104, lf("Jesse")), cond("cn", 105, lf("J?")),
		// a Condition over a Stack that holds nothing (yet): a valid Condition with a text of its own
		cond("memberOf", 1, gnode{T: "stack", Kind: "LIST"}), cond("memberOf", 2, gnode{T: "stack", Kind: "AND", Paren: true}),
		// an invalid Condition (no keyword; operator out of range) as the expression of a valid one: it contributes nothing
		cond("outer", 1, cond("", 2, lf("v"))), cond("outer", 2, cond("k3", 9, lf("w"))), cond("outer", 3, cond("k4", 1, lf("")))}
	var trees []gnode
	// (0) every Go numeric kind, bool and a few float shapes as leaves and as Condition expressions
	for _, v := range []any{int8(-8), int16(-300), int32(70000), int64(-1 << 40), uint(7), uint8(200), uint16(65535), uint32(1 << 31), uint64(1 << 63), float32(1.5), float32(1e10), float32(1.1), float32(0.1), float32(-9.378), 0.1, 1.1, 1e21, 1e-7, -0.5, 100000.0, 1234567.0,
		complex64(complex(1, -2)), complex(0.5, 3), false, 0, -12, complex64(complex(0.1, 0.2)), complex(0.1, -0.7), float32(0.3), complex64(complex(1e-3, 3.3))} {
		for _, k := range kinds {
			trees = append(trees, gnode{T: "stack", Kind: k, Kids: []gnode{{T: "leaf", V: v}, lf("t")}}, gnode{T: "stack", Kind: k, NoPad: true, Enc: 1, Kids: []gnode{{T: "leaf", V: v}}})
		}
		trees = append(trees, gnode{T: "stack", Kind: "AND", Kids: []gnode{cond("n", 4, gnode{T: "leaf", V: v})}})
	}
	// (1) every root configuration x every kind over leaf content (1 and 2 leaves)
	for _, k := range kinds {
		for _, cf := range c02Cfgs(k, true) {
			trees = append(trees, with(cf))
			for i, a := range leaves {
				trees = append(trees, with(cf, a))
				for j, b := range leaves {
					if c.Quick() && (i+j)%3 != 0 {
						continue
					}
					trees = append(trees, with(cf, a, b))
				}
			}
		}
	}
	// (2) every root configuration (reduced encapsulation set) x children that are stacks / conditions
	for _, k := range kinds {
		for _, cf := range c02Cfgs(k, false) {
			for i, ch := range childStacks {
				trees = append(trees, with(cf, ch), with(cf, lf("a"), ch), with(cf, ch, small[i%len(small)]))
				if !c.Quick() || i%4 == 0 {
					trees = append(trees, with(cf, ch, childStacks[(i*7+3)%len(childStacks)]))
				}
			}
			for i, cd := range conds {
				trees = append(trees, with(cf, cd), with(cf, lf("a"), cd, lf("b")), with(cf, cd, conds[(i+1)%len(conds)]))
			}
		}
	}
	// (3) the full per-node product on one child under a few root configurations
	roots := []gnode{{T: "stack", Kind: "AND"}, {T: "stack", Kind: "OR", Paren: true, NoPad: true}, {T: "stack", Kind: "LIST", Delim: ","}, {T: "stack", Kind: "NOT", Fold: true, Lonce: true}, {T: "stack", Kind: "LIST"}, {T: "stack", Kind: "AND", Sym: "&", Enc: 2}}
	for _, r := range roots {
		for _, k := range kinds {
			for _, cf := range c02Cfgs(k, true) {
				ch := with(cf, lf("p"), lf("é q"))
				trees = append(trees, with(r, lf("x"), ch), with(r, ch, ch))
				if !c.Quick() {
					trees = append(trees, with(r, with(cf, lf("solo")), lf("y")), with(r, with(cf), lf("y")))
				}
			}
		}
	}
	// (5) the long regime: wide stacks (9 and more slices, well past any fixed scratch size) under every root
	// configuration, all leaves / with an empty-rendering leaf, a nested stack and a Condition among them;
	// and deep chains (5 and more levels)
	widths, depths := []int{9, 17, 33}, []int{5, 9, 17}
	if !c.Quick() {
		widths, depths = []int{8, 9, 10, 12, 16, 17, 32, 33, 65, 130}, []int{5, 6, 8, 9, 16, 17, 33, 65}
	}
	for wi, w := range widths {
		plain := make([]gnode, w)
		for i := range plain {
			plain[i] = leaves[(i+wi)%len(leaves)]
			if s, ok := plain[i].V.(string); ok && s != "" && !strings.ContainsAny(s, " \t\n\r\u00a0\u3000") {
				plain[i] = lf(fmt.Sprintf("%s%d", s, i))
			}
		}
		mixed := append([]gnode{}, plain...)
		mixed[w/2] = childStacks[(wi*5)%len(childStacks)]
		mixed[w-2] = conds[wi%len(conds)]
		mixed[1] = lf("")
		for _, k := range kinds {
			for ci, cf := range c02Cfgs(k, false) {
				if c.Quick() && (ci+wi)%2 != 0 {
					continue
				}
				trees = append(trees, with(cf, plain...), with(cf, mixed...), with(gnode{T: "stack", Kind: "AND"}, lf("t"), with(cf, plain...)), with(gnode{T: "stack", Kind: "OR"}, cond("wide", 2, with(cf, mixed...))))
			}
		}
	}
	for di, d := range depths {
		for _, k := range kinds {
			cfs := c02Cfgs(k, false)
			cur := with(cfs[di%len(cfs)], lf("bottom"), lf("é q"))
			for lvl := 1; lvl < d; lvl++ {
				cf := cfs[(lvl+di)%len(cfs)]
				cf.Kind = kinds[(lvl+di)%len(kinds)]
				if cf.Kind == "LIST" {
					cf.Sym = ""
				} else {
					cf.Delim = ""
				}
				if lvl%4 == 3 {
					cur = with(cf, lf(lvl), cond("lv", 1+lvl%6, cur))
				} else {
					cur = with(cf, cur, lf(fmt.Sprintf("l%d", lvl)))
				}
			}
			trees = append(trees, cur)
		}
	}
	if !c.Quick() {
		// (4) depth 3: a configured grandchild inside configured children
		for i, k := range kinds {
			for _, cf := range c02Cfgs(k, false) {
				for j, mid := range childStacks {
					if (i+j)%5 != 0 {
						continue
					}
					m := mid
					m.Kids = append(append([]gnode{}, mid.Kids...), with(cf, lf("g"), lf("h")))
					trees = append(trees, with(gnode{T: "stack", Kind: "OR"}, lf("t"), m), with(gnode{T: "stack", Kind: "LIST", Paren: true}, m, cond("c", 1, m)))
				}
			}
		}
	}
	return trees
}

func init() {
	register(&Check{ID: "C02", Engine: "B", Run: func(c *Ctx) {
		trees := c02Trees(c)
		c.Rule = "every tree of the bounded family: (1) all 16 flag combinations x symbol {none,&,&&} / delimiter {none, ',', 'é'} x 4 encapsulation lists on the root, every kind, over 0, 1 and 2 leaves from {a, 'b c', ' x ', '', 'é', '日本', 'a<TAB>b', 7, 2.5, true}; (2) every root configuration x nested stacks (7 configurations x 4 kinds x three contents, empty, BASIC, alias) and Conditions (valid, invalid, numeric, multi-byte, Stack expression, parenthetical/encapsulated/unpadded, empty expression); (3) the full per-node product on one child under six root configurations; (4, thorough) depth 3. Oracle: an independent reference renderer written from the statement; exact string comparison. non-trivial = distinct non-empty trees"
		parallelFor(len(trees), func(i int) {
			if c.TimeUp() {
				return
			}
			c02Check(c, trees[i], true)
		})
		c.Bound["shared_encapsulation_slice_cases"] = c02SharedEncap(c)
		c.States.Store(int64(len(trees)))
		c.Exhaustive = true
		c.Bound["trees"] = len(trees)
		c.Sample(map[string]any{"tree": trees[len(trees)/3].String(), "rendering": trees[len(trees)/3].ref()})
		c.Sample(map[string]any{"tree": trees[len(trees)/2].String(), "rendering": trees[len(trees)/2].ref()})
		c.Sample(map[string]any{"tree": trees[len(trees)-1].String(), "rendering": trees[len(trees)-1].ref()})
		c.Assumptions = append(c.Assumptions, "blank placement follows DESIGN.md §4: a leaf is padded by its parent unless that parent has no-padding, nested Stacks/Conditions are not padded, word operators are always blank-separated, symbols are padded unless no-padding, a delimiter is inserted as-is, a LIST without delimiter joins by one blank (nothing under no-padding, pinned by TestList_001_withNoDelim); in lead-once mode the elements follow the prefix without separator (LDAP filter style)", "nil and struct leaves are outside the property's element domain")
	}, Replay: func(c *Ctx, raw json.RawMessage) {
		var n gnode
		json.Unmarshal(raw, &n)
		c02Check(c, n, false)
	}})
}
