package main

import (
	"encoding/json"
	"fmt"
	"strings"

	stackage "github.com/JesseCoretta/go-stackage"
)

// C15 — Transfer copies everything or reports failure, and never touches the source (Engine B).

type c15Case struct {
	SrcLen  int    `json:"src_len"`
	SrcMask int    `json:"src_nonnil_mask"`
	SrcFIFO bool   `json:"src_fifo"`
	SrcCap  int    `json:"src_cap"`
	SrcKind string `json:"src_kind"`
	DstLen  int    `json:"dst_len"`
	DstMask int    `json:"dst_nonnil_mask"`
	DstCap  int    `json:"dst_cap"`
	DstForm string `json:"dst_form"`
	DstKind string `json:"dst_kind"`
	SrcMtx  bool   `json:"src_mutex,omitempty"`
	DstMtx  bool   `json:"dst_mutex,omitempty"`
	Deco    bool   `json:"decorated,omitempty"` // presentation settings, identifiers, an earlier error on both sides
	// Variant: "" | "dst-no-nesting" | "dst-push-policy" (the destination refuses strings ending in "1")
	Variant string `json:"variant,omitempty"`
	// SrcMixed: the source's odd positions hold a Stack, a Stack alias, a pointer to an alias, a Condition
	SrcMixed bool `json:"src_mixed,omitempty"`
	// DstRebuilt: the destination reached its content the long way round (a value in front, removed again,
	// the last value pushed afterwards)
	DstRebuilt bool `json:"dst_reached_through_remove,omitempty"`
}

var c15Forms = []string{"condition-holding-dst", "cond-alias-holding-dst", "ptr-condition-holding-dst", "read-only-condition-holding-dst", "native", "alias", "ptr-alias", "ptr-native", "aliasS", "read-only", "read-only-alias", "read-only-aliasS", "read-only-ptr-alias", "read-only-ptr-native", "zero", "freed", "nil", "int", "string", "condition", "nil-ptr-alias", "nil-ptr-native", "zero-alias",
	"nil-pp-native", "nil-pp-alias", "nil-ppp-native", "ptr-to-nil-ptr", "pp-native", "pp-alias", "p9-native", "p12-alias", "p9-int", "named-ptr-native"}

// c15RunSelf: the destination is the source itself (the same handle, an alias of it, a pointer to it).
// "dst holds its previous elements followed by every element of src" then reads old ++ old; the clause
// "the source is unchanged" cannot apply. Only capacity-limited sources are used, so that a copy loop
// that feeds on its own output still ends.
func c15RunSelf(c *Ctx, cs c15Case, count bool) {
	src := newStackKind(cs.SrcKind, cs.SrcCap)
	if cs.SrcFIFO {
		src.SetFIFO(true)
	}
	if cs.SrcMtx {
		src.SetMutex()
	}
	vals := patternValues(cs.SrcLen, cs.SrcMask, "s")
	src.Push(vals...)
	if src.Len() != cs.SrcLen {
		return
	}
	var dst any = src
	switch cs.DstForm {
	case "self-alias":
		dst = StackAlias(src)
	case "self-ptr":
		p := src
		dst = &p
	}
	before := dumpKey(src)
	if count {
		c.Evals.Add(1)
		c.Transitions.Add(1)
		c.Traces.Add(1)
	}
	var got bool
	if p := noPanic(func() { got = src.Transfer(dst) }); p != "" {
		c.Violation("panic:"+cs.DstForm, fmt.Sprintf("Transfer onto itself panicked for %s: %s", jsonString(cs), p), cs, cs.SrcLen)
		return
	}
	fits := cs.SrcCap-cs.SrcLen >= cs.SrcLen
	gotList := contents(src)
	if fits {
		want := append(append([]any{}, vals...), vals...)
		if !got {
			c.Violation("false-although-fits:"+cs.DstForm, fmt.Sprintf("Transfer onto itself returned false although there is room: %s (now %s)", jsonString(cs), showList(gotList)), cs, cs.SrcLen)
		} else if !sameList(gotList, want) {
			c.Violation("wrong-content:"+cs.DstForm, fmt.Sprintf("Transfer onto itself returned true but the stack holds %s, want %s: %s", showList(gotList), showList(want), jsonString(cs)), cs, cs.SrcLen)
		}
		if count && cs.SrcLen > 0 {
			c.Nontrivial(jsonString(cs))
		}
		c.Outcome(fmt.Sprintf("ok/%s/%d", cs.DstForm, len(gotList)))
		return
	}
	if got {
		c.Violation("true-on-failure:"+cs.DstForm+":no-room", fmt.Sprintf("Transfer onto itself returned true although there is no room: %s", jsonString(cs)), cs, cs.SrcLen)
	}
	if after := dumpKey(src); after != before {
		c.Violation("dst-changed-on-failure:"+cs.DstForm+":no-room", fmt.Sprintf("the stack changed although Transfer onto itself must fail: %s\n before %s\n after  %s", jsonString(cs), before, after), cs, cs.SrcLen)
	}
	if count {
		c.Nontrivial(jsonString(cs))
	}
	c.Outcome(fmt.Sprintf("fail/%s/false", cs.DstForm))
}

// c15Values: nil pattern by bit mask for short lists; for long ones (more elements than a mask has
// bits) mask -1 means no nil, any other value one nil at index 1.
func c15Values(n, mask int, prefix string) []any {
	if n <= 60 {
		return patternValues(n, mask, prefix)
	}
	out := make([]any, n)
	for i := range out {
		if i != 1 || mask == -1 {
			out[i] = fmt.Sprintf("%s%d", prefix, i)
		}
	}
	return out
}

func c15Run(c *Ctx, cs c15Case, count bool) {
	if strings.HasPrefix(cs.DstForm, "self") {
		c15RunSelf(c, cs, count)
		return
	}
	var src stackage.Stack
	if cs.SrcCap > 0 {
		src = newStackKind(cs.SrcKind, cs.SrcCap)
	} else {
		src = newStackKind(cs.SrcKind)
	}
	if cs.SrcFIFO {
		src.SetFIFO(true)
	}
	srcVals := c15Values(cs.SrcLen, cs.SrcMask, "s")
	if cs.SrcMixed {
		pa := StackAlias(stackage.And().Push("pa"))
		// Stacks, aliases, a Condition - and typed nil pointers, which are elements like any other value
		mixed := []any{stackage.Or().Push("in"), StackAlias(stackage.And().Push("al")), &pa, stackage.Cond("k", stackage.Eq, "v"), (*int)(nil), (*stackage.Stack)(nil), (*StackAlias)(nil)}
		// ... and nested Stacks that EQUAL the destination (as it is before the call, and empty) without being it
		twin := func(fill bool) stackage.Stack {
			var t stackage.Stack
			if cs.DstCap > 0 {
				t = newStackKind(cs.DstKind, cs.DstCap)
			} else {
				t = newStackKind(cs.DstKind)
			}
			if fill {
				t.Push(c15Values(cs.DstLen, cs.DstMask, "d")...)
			}
			return t
		}
		mixed = append(mixed, twin(true), twin(false), StackAlias(twin(true)))
		for i := 1; i < len(srcVals); i += 2 {
			if srcVals[i] != nil {
				srcVals[i] = mixed[(i/2+cs.SrcLen+2*cs.DstLen+cs.DstCap)%len(mixed)] // which one varies with the case, so that every kind meets every configuration
			}
		}
	}
	if cs.SrcMixed && cs.SrcLen > 0 {
		// one element is a Stack that equals the destination as it will be when the copy gets there (its
		// earlier content plus the source's elements before this one) - equal, not the same instance
		if j := (cs.SrcLen + cs.DstLen + cs.DstCap) % cs.SrcLen; srcVals[j] != nil {
			var t stackage.Stack
			if cs.DstCap > 0 {
				t = newStackKind(cs.DstKind, cs.DstCap)
			} else {
				t = newStackKind(cs.DstKind)
			}
			t.Push(c15Values(cs.DstLen, cs.DstMask, "d")...)
			t.Push(srcVals[:j]...)
			srcVals[j] = t
		}
	}
	src.Push(srcVals...)
	var dstNative stackage.Stack
	if cs.DstCap > 0 {
		dstNative = newStackKind(cs.DstKind, cs.DstCap)
	} else {
		dstNative = newStackKind(cs.DstKind)
	}
	dstVals := c15Values(cs.DstLen, cs.DstMask, "d")
	if cs.DstRebuilt && cs.DstLen >= 1 {
		dstNative.Push("passing-through")
		dstNative.Push(dstVals[:cs.DstLen-1]...)
		dstNative.Remove(0)
		dstNative.Push(dstVals[cs.DstLen-1])
	} else {
		dstNative.Push(dstVals...)
	}
	if dstNative.Len() != cs.DstLen || src.Len() != cs.SrcLen {
		return // not constructible (capacity smaller than requested length)
	}
	switch cs.Variant {
	case "dst-no-nesting":
		dstNative.SetNoNesting(true)
	case "dst-validity-rejects":
		// a validity policy of the destination that currently says no: Transfer does not ask it
		dstNative.SetValidityPolicy(func(...any) error { return errCat })
	case "dst-push-policy":
		dstNative.SetPushPolicy(func(x ...any) error {
			if s, ok := x[0].(string); ok && strings.HasSuffix(s, "1") {
				return fmt.Errorf("refused")
			}
			return nil
		})
	}
	if cs.Deco {
		decorate(src).SetErr(errCat).SetNegativeIndices(true).SetForwardIndices(true)
		decorate(dstNative).SetFIFO(true)
	}
	if cs.SrcMtx {
		src.SetMutex()
	}
	if cs.DstMtx {
		dstNative.SetMutex()
	}
	var dst any
	usable := true // destination is a usable Stack
	maybe := false // the statement does not say whether this form is usable
	switch cs.DstForm {
	case "native":
		dst = dstNative
	case "alias":
		dst = StackAlias(dstNative)
	case "aliasS":
		dst = StackAliasS(dstNative)
	case "ptr-alias":
		a := StackAlias(dstNative)
		dst = &a
	case "ptr-native":
		a := dstNative
		dst = &a
	case "read-only":
		dstNative.SetReadOnly(true)
		dst, usable = dstNative, false
	case "read-only-alias", "read-only-aliasS", "read-only-ptr-alias", "read-only-ptr-native":
		// the flag is set through the native handle; the destination arrives through another kind of handle
		dstNative.SetReadOnly(true)
		usable = false
		switch cs.DstForm {
		case "read-only-alias":
			dst = StackAlias(dstNative)
		case "read-only-aliasS":
			dst = StackAliasS(dstNative)
		case "read-only-ptr-alias":
			a := StackAlias(dstNative)
			dst = &a
		default:
			a := dstNative
			dst = &a
		}
	case "zero":
		dst, usable = stackage.Stack{}, false
	case "zero-alias":
		dst, usable = StackAlias{}, false
	case "freed":
		f := newStackKind(cs.DstKind)
		f.Push("gone")
		f.Free()
		dst, usable = f, false
	case "nil":
		dst, usable = nil, false
	case "int":
		dst, usable = 7, false
	case "string":
		dst, usable = "dst", false
	case "condition":
		dst, usable = stackage.Cond("k", stackage.Eq, "v"), false
	case "condition-holding-dst", "cond-alias-holding-dst", "ptr-condition-holding-dst", "read-only-condition-holding-dst":
		// a Condition is no Stack, whatever it holds
		cd := stackage.Cond("k", stackage.Eq, dstNative)
		usable = false
		switch cs.DstForm {
		case "condition-holding-dst":
			dst = cd
		case "cond-alias-holding-dst":
			dst = CondAlias(cd)
		case "ptr-condition-holding-dst":
			dst = &cd
		default:
			dst = cd.SetReadOnly(true)
		}
	case "nil-ptr-alias":
		dst, usable = (*StackAlias)(nil), false
	case "nil-ptr-native":
		dst, usable = (*stackage.Stack)(nil), false
	case "nil-pp-native":
		dst, usable = (**stackage.Stack)(nil), false
	case "nil-pp-alias":
		dst, usable = (**StackAlias)(nil), false
	case "nil-ppp-native":
		dst, usable = (***stackage.Stack)(nil), false
	case "ptr-to-nil-ptr":
		var p *stackage.Stack
		dst, usable = &p, false
	case "pp-native": // a pointer to a pointer to a live Stack: the statement lists "pointer" only, so
		// either answer is accepted, but a true answer must be backed by the content (maybeUsable)
		a := dstNative
		pa := &a
		dst, maybe = &pa, true
	case "pp-alias":
		a := StackAlias(dstNative)
		pa := &a
		dst, maybe = &pa, true
	case "p9-native": // nine (twelve) pointer levels: no more usable and no less harmless than two
		dst, maybe = deepPointer(dstNative, 9), true
	case "p12-alias":
		dst, maybe = deepPointer(StackAlias(dstNative), 12), true
	case "p9-int": // ... above something that is no Stack at all
		dst, usable = deepPointer(7, 9), false
	case "named-ptr-native": // a declared pointer type is a pointer
		a := dstNative
		dst = StackRef(&a)
	}
	srcBefore, dstBefore := dumpKey(src), dumpKey(dstNative)
	var got bool
	if count {
		c.Evals.Add(1)
		c.Transitions.Add(1)
		c.Traces.Add(1)
	}
	if p := noPanic(func() { got = src.Transfer(dst) }); p != "" {
		c.Violation("panic:"+cs.DstForm, fmt.Sprintf("Transfer panicked for %s: %s", jsonString(cs), p), cs, cs.SrcLen+cs.DstLen)
		return
	}
	for _, st := range []stackage.Stack{src, dstNative} {
		if m := stackage.VerifDump(st).Mtx; m != 0 {
			if _, held := heldMutexes.Load(m); held {
				heldMutexes.Delete(m)
				c.Violation("lock-leaked:"+cs.DstForm, fmt.Sprintf("a mutex is still held after Transfer returned (the next locking call blocks forever): %s", jsonString(cs)), cs, cs.SrcLen+cs.DstLen)
				return
			}
		}
	}
	free := -1
	if cs.DstCap > 0 {
		free = cs.DstCap - cs.DstLen
	}
	fits := free < 0 || free >= cs.SrcLen
	want := usable && fits
	refusedElem := false
	for _, v := range srcVals {
		if sv, ok := v.(string); ok && cs.Variant == "dst-push-policy" && strings.HasSuffix(sv, "1") {
			refusedElem = true
		}
		if cs.Variant == "dst-no-nesting" && isStackLike(v) {
			refusedElem = true
		}
	}
	if srcAfter := dumpKey(src); srcAfter != srcBefore {
		c.Violation("source-changed", fmt.Sprintf("source changed by Transfer in %s:\n before %s\n after  %s", jsonString(cs), srcBefore, srcAfter), cs, cs.SrcLen+cs.DstLen)
	}
	dstAfter := dumpKey(dstNative)
	if want && (refusedElem || (maybe && !got)) {
		// the destination itself turns away one of the source's elements (or the statement is silent
		// about the form and the call declined): the statement only requires that true is never
		// reported for an incomplete copy
		if got {
			c.Violation("true-although-element-refused:"+cs.Variant, fmt.Sprintf("Transfer returned true although the destination refused an element (it holds %s): %s", showList(contents(dstNative)), jsonString(cs)), cs, cs.SrcLen+cs.DstLen)
		}
		c.Outcome(fmt.Sprintf("refused-element/%s/%s/%v", cs.DstForm, cs.Variant, got))
		if count {
			c.Nontrivial(jsonString(cs))
		}
		return
	}
	if !want {
		if got {
			c.Violation("true-on-failure:"+cs.DstForm+fitTag(fits), fmt.Sprintf("Transfer returned true although it cannot succeed: %s", jsonString(cs)), cs, cs.SrcLen+cs.DstLen)
		}
		if dstAfter != dstBefore {
			c.Violation("dst-changed-on-failure:"+cs.DstForm+fitTag(fits), fmt.Sprintf("destination changed although Transfer must fail: %s\n before %s\n after  %s", jsonString(cs), dstBefore, dstAfter), cs, cs.SrcLen+cs.DstLen)
		}
		if count && usable {
			c.Nontrivial(jsonString(cs))
		}
		c.Outcome(fmt.Sprintf("fail/%s/%v", cs.DstForm, fits))
		return
	}
	wantList := append(append([]any{}, dstVals...), srcVals...)
	gotList := contents(dstNative)
	if !got {
		c.Violation("false-although-fits:"+cs.DstForm, fmt.Sprintf("Transfer returned false although the destination has room: %s (dst now %s)", jsonString(cs), showList(gotList)), cs, cs.SrcLen+cs.DstLen)
		return
	}
	if !sameList(gotList, wantList) {
		c.Violation("wrong-content:"+cs.DstForm, fmt.Sprintf("Transfer returned true but destination holds %s, want %s: %s", showList(gotList), showList(wantList), jsonString(cs)), cs, cs.SrcLen+cs.DstLen)
	}
	if count && cs.SrcLen > 0 {
		c.Nontrivial(jsonString(cs))
	}
	c.Outcome(fmt.Sprintf("ok/%s/%d", cs.DstForm, len(gotList)))
}

func fitTag(fits bool) string {
	if fits {
		return ""
	}
	return ":no-room"
}

func c15Cases(c *Ctx) []c15Case {
	maxL, maxCap := 3, 5
	if !c.Quick() {
		maxL, maxCap = 5, 11
	}
	var out []c15Case
	for sl := 0; sl <= maxL; sl++ {
		for sm := 0; sm < 1<<sl; sm++ {
			for _, sf := range []bool{false, true} {
				for _, sc := range []int{0, sl + 1} {
					for dl := 0; dl <= maxL; dl++ {
						for dm := 0; dm < 1<<dl; dm++ {
							if !c.Quick() || dm == (1<<dl)-1 || dm == 0 || dm == 1 {
								for dc := 0; dc <= maxCap; dc++ {
									if dc > 0 && dc < dl {
										continue
									}
									for _, form := range c15Forms {
										if form != "native" && (dm != (1<<dl)-1) {
											continue // nil patterns of the destination only with the native form
										}
										out = append(out, c15Case{sl, sm, sf, sc, "LIST", dl, dm, dc, form, "AND", false, false, false, "", false, false})
										if dm == (1<<dl)-1 && (form == "native" || form == "ptr-alias" || form == "read-only") {
											for _, v := range []string{"dst-no-nesting", "dst-push-policy"} {
												for _, mixed := range []bool{false, true} {
													x := c15Case{sl, sm, sf, sc, "LIST", dl, dm, dc, form, "AND", false, false, false, "", false, false}
													x.Variant, x.SrcMixed = v, mixed
													out = append(out, x)
												}
											}
											x := c15Case{sl, sm, sf, sc, "LIST", dl, dm, dc, form, "AND", false, false, false, "", true, false}
											out = append(out, x)
											y := c15Case{sl, sm, sf, sc, "LIST", dl, dm, dc, form, "AND", false, false, false, "dst-validity-rejects", false, false}
											out = append(out, y)
										}
										if dm == (1<<dl)-1 && sm == (1<<sl)-1 && (form == "native" || form == "alias" || form == "read-only" || form == "int") {
											out = append(out, c15Case{sl, sm, sf, sc, "LIST", dl, dm, dc, form, "AND", true, true, false, "", false, false}, c15Case{sl, sm, sf, sc, "LIST", dl, dm, dc, form, "AND", true, false, false, "", false, false}, c15Case{sl, sm, sf, sc, "LIST", dl, dm, dc, form, "AND", false, true, true, "", false, false})
										}
									}
								}
							}
						}
					}
				}
			}
		}
	}
	// the long regime: sources and destinations beyond any growth step or reservation threshold
	for _, sl := range []int{31, 63, 64, 65, 100, 300, 1100} {
		if c.Quick() && sl > 300 {
			continue
		}
		for _, sm := range []int{-1, -2} {
			for _, dl := range []int{0, 1, 70} {
				for _, dc := range []int{0, dl + sl, dl + sl - 1, dl + sl + 900} {
					for _, form := range []string{"native", "ptr-alias", "read-only"} {
						out = append(out, c15Case{SrcLen: sl, SrcMask: sm, SrcFIFO: sl%2 == 0, SrcKind: "LIST", DstLen: dl, DstMask: -1, DstCap: dc, DstForm: form, DstKind: "AND", DstMtx: dl == 1})
					}
				}
			}
		}
	}
	// destinations that reached their content through a Remove (and one more Push), tight on room
	for dl := 1; dl <= 4; dl++ {
		for _, free := range []int{0, 1, 2} {
			for sl := 1; sl <= 3; sl++ {
				for _, form := range []string{"native", "alias", "ptr-native"} {
					for _, fifo := range []bool{false, true} {
						out = append(out, c15Case{SrcLen: sl, SrcMask: -1, SrcKind: "LIST", SrcFIFO: fifo, DstLen: dl, DstMask: -1, DstCap: dl + free, DstForm: form, DstKind: "AND", DstRebuilt: true})
					}
				}
			}
		}
	}
	// destinations whose capacity lies beyond the largest reservation the constructor makes, almost full
	for _, dc := range []int{1023, 1024, 1025, 1500, 2049} {
		for _, free := range []int{0, 2, 5} {
			for _, sl := range []int{1, 5, 6} {
				for _, form := range []string{"native", "alias", "ptr-native"} {
					out = append(out, c15Case{SrcLen: sl, SrcMask: -1, SrcKind: "LIST", DstLen: dc - free, DstMask: -1, DstCap: dc, DstForm: form, DstKind: "AND"})
				}
			}
		}
	}
	// the source as its own destination (capacity-limited sources only)
	for sl := 0; sl <= maxL; sl++ {
		for sm := 0; sm < 1<<sl; sm++ {
			for _, sc := range []int{sl + 1, 2*sl - 1, 2 * sl, 2*sl + 1} {
				if sc < sl || sc < 1 {
					continue
				}
				for _, form := range []string{"self", "self-alias", "self-ptr"} {
					for _, mtx := range []bool{false, true} {
						out = append(out, c15Case{SrcLen: sl, SrcMask: sm, SrcFIFO: sm%2 == 1, SrcCap: sc, SrcKind: "LIST", DstForm: form, DstKind: "LIST", SrcMtx: mtx})
					}
				}
			}
		}
	}
	// rotate the kinds of source and destination through all five (the copy rule does not depend on
	// the kind, so every kind is sampled evenly at no extra cost)
	for i := range out {
		out[i].SrcKind = kindNames[i%5]
		out[i].DstKind = kindNames[(i/5+i)%5]
	}
	return out
}

func init() {
	register(&Check{ID: "C15", Engine: "B", Run: func(c *Ctx) {
		installLockModel()
		cases := c15Cases(c)
		c.Rule = "complete product of source (length, nil pattern, LIFO/FIFO, capacity) x destination (length, nil pattern, capacity none..max) x destination form (incl. nil and live pointers to pointers), the source itself as destination (handle, alias, pointer; capacity-limited); plus destinations that refuse elements themselves (no-nesting, push policy) and sources holding Stacks, aliases and Conditions; non-trivial = distinct cases with a usable destination and either a non-empty source that fits or a capacity refusal"
		parallelFor(len(cases), func(i int) { c15Run(c, cases[i], true) })
		c.States.Store(int64(len(cases)))
		c.Exhaustive = true
		c.Bound["max_len"] = cases[len(cases)-1].SrcLen
		c.Bound["dst_forms"] = c15Forms
		c.Sample(cases[0])
		c.Sample(cases[len(cases)/2])
		c.Sample(cases[len(cases)-1])
	}, Replay: func(c *Ctx, raw json.RawMessage) {
		var cs c15Case
		json.Unmarshal(raw, &cs)
		c15Run(c, cs, false)
	}})
}
