package main

import (
	"encoding/json"
	"fmt"
	"os"
	"strings"
	"sync"

	stackage "github.com/JesseCoretta/go-stackage"
)

// C20 — Reveal only removes redundant wrappers (Engine B + lock model).

type rnode struct {
	T     string  `json:"t"` // leaf, nil, tnilS / tnilC / tnilA (typed nil pointers), S, A (alias of stack), C
	K     string  `json:"k,omitempty"`
	Paren bool    `json:"paren,omitempty"`
	Deco  int     `json:"deco,omitempty"` // 1: symbol set, 2: case-folded, 3: both + lead-once/no-padding (presentation only)
	Kids  []rnode `json:"kids,omitempty"`
	Ex    *rnode  `json:"ex,omitempty"` // C: stack expression (nil = leaf expression)
	// Frozen: S/A: the stack is read-only (set once its content is in place). C: the Condition will refuse a
	// new expression - 1 read-only, 2 no-nesting switched on afterwards, 3 an error left on record
	Frozen int `json:"frozen,omitempty"`
}

func (n rnode) String() string {
	p := ""
	if n.Paren {
		p = "()"
	}
	if n.Frozen > 0 {
		p += fmt.Sprintf("!%d", n.Frozen)
	}
	switch n.T {
	case "leaf":
		return "x"
	case "nil":
		return "nil"
	case "tnilS", "tnilC", "tnilA", "pleaf":
		return n.T
	case "C":
		if n.Deco != 0 {
			p += fmt.Sprintf("~%d", n.Deco)
		}
		if n.Ex != nil {
			return "C" + p + "{" + n.Ex.String() + "}"
		}
		return "C" + p
	}
	if n.Deco != 0 {
		p += fmt.Sprintf("~%d", n.Deco)
	}
	var k []string
	for _, c := range n.Kids {
		k = append(k, c.String())
	}
	return n.T + ":" + n.K + p + "[" + strings.Join(k, ",") + "]"
}

// mutexMode: 0 none, 1 all, 2 root only, 3 all but root, 4 odd depths
func wantMutex(mode, depth int) bool {
	switch mode {
	case 1:
		return true
	case 2:
		return depth == 0
	case 3:
		return depth > 0
	case 4:
		return depth%2 == 1
	}
	return false
}

// behaviour modes (options and earlier refused calls that must not matter to Reveal):
// 0 none, 1 forward indices, 2 negative indices, 3 capacity reached + refused calls made earlier, 4 all of these,
// 5 the receiver is read-only (set just before the call; nothing may change), 6 locking switched on after the
// content was stored (instead of before), 7 / 8 the builder frees its own handles on the nested instances at even positions and in Conditions / at odd positions
// parenLeaf is a foreign value with a few methods that Stacks and Conditions have too.
type parenLeaf struct{ name string }

func (p parenLeaf) IsParen() bool  { return false }
func (p parenLeaf) String() string { return p.name }
func (p parenLeaf) Len() int       { return 1 }
func (p parenLeaf) IsInit() bool   { return true }

func (n rnode) build(path string, depth, mmode int, beh ...int) any {
	bm := 0
	if len(beh) > 0 {
		bm = beh[0]
	}
	switch n.T {
	case "leaf":
		return "L" + path
	case "nil":
		return nil
	case "tnilS":
		return (*stackage.Stack)(nil)
	case "tnilC":
		return (*stackage.Condition)(nil)
	case "tnilA":
		return (*StackAlias)(nil)
	case "pleaf": // somebody else's value that happens to have an IsParen method (and a String): a leaf
		return parenLeaf{"P" + path}
	case "S", "A":
		var s stackage.Stack
		if (bm == 3 || bm == 4) && len(n.Kids) > 0 {
			s = newStackKind(n.K, len(n.Kids))
		} else {
			s = newStackKind(n.K)
		}
		if bm == 1 || bm == 4 {
			s.SetForwardIndices(true)
		}
		if bm == 2 || bm == 4 {
			s.SetNegativeIndices(true)
		}
		if n.Paren {
			s.SetParen(true)
		}
		switch n.Deco {
		case 1:
			s.SetSymbol("!")
		case 2:
			s.SetFold(true)
		case 3:
			s.SetSymbol("~").SetFold(true).SetLeadOnce(true).SetNoPadding(true)
		}
		if wantMutex(mmode, depth) && bm != 6 {
			s.SetMutex()
		}
		var vals []any
		for i, k := range n.Kids {
			vals = append(vals, k.build(fmt.Sprintf("%s.%d", path, i), depth+1, mmode, bm))
		}
		fill(s, vals, fillMode(n.String()+path))
		if wantMutex(mmode, depth) && bm == 6 {
			s.SetMutex() // locking switched on when the content is already there
		}
		if bm == 7 || bm == 8 {
			c20FreeBuilderHandles(vals, bm-7)
		}
		if bm == 9 {
			// every stack's own validity closure says no, and an error is on record: neither is about nesting
			s.SetValidityPolicy(func(...any) error { return errCat }).SetErr(errCat)
		}
		if (bm == 3 || bm == 4) && len(n.Kids) > 0 {
			// one call that a full stack refuses (or that addresses nothing): the content stays as it
			// is. One call only, so that Reveal is the first to meet whatever the call left behind.
			switch fillMode(path+n.String()) % 5 {
			case 0:
				s.Insert("refused", 0)
			case 1:
				s.Push("refused")
			case 2:
				s.Replace("refused", len(vals)+3)
			case 3:
				s.Remove(len(vals) + 3)
			case 4:
				s.Swap(0, len(vals)+3)
			}
		}
		if n.Frozen > 0 {
			s.SetReadOnly(true)
		}
		if n.T == "A" {
			return StackAlias(s)
		}
		return s
	case "C":
		var ex any = "E" + path
		if n.Ex != nil {
			ex = n.Ex.build(path+".e", depth+1, mmode, bm)
		}
		c := condHistory("kw"+path, stackage.Ge, ex, fillMode(path+n.String()))
		if bm == 7 {
			c20FreeBuilderHandles([]any{ex}, 0)
		}
		if bm == 9 {
			c.SetValidityPolicy(func(...any) error { return errCat })
		}
		if n.Paren {
			c.SetParen(true)
		}
		if n.Deco != 0 {
			// a presentation closure of its own: how the Condition prints, not whether it is parenthetical
			c.SetPresentationPolicy(func(...any) string { return "presented" })
		}
		switch n.Frozen {
		case 1:
			c.SetReadOnly(true)
		case 2:
			c.SetNoNesting(true)
		case 3:
			c.SetErr(errCat)
		}
		return c
	}
	panic(n.T)
}

// rdepth is the nesting depth of a described tree.
func rdepth(n rnode) int {
	d := 0
	for _, k := range n.Kids {
		if x := rdepth(k); x > d {
			d = x
		}
	}
	if n.Ex != nil {
		if x := rdepth(*n.Ex); x > d {
			d = x
		}
	}
	return d + 1
}

// c20FreeBuilderHandles: whoever assembled the tree lets go of its own handles on the nested instances
// (Free on a copy of each handle) once they are stored: the tree keeps its own.
func c20FreeBuilderHandles(vals []any, parity int) {
	for i, v := range vals {
		if i%2 != parity {
			continue
		}
		switch tv := v.(type) {
		case stackage.Stack:
			h := tv
			h.Free()
		case StackAlias:
			h := stackage.Stack(tv)
			h.Free()
		case stackage.Condition:
			h := tv
			h.Free()
		}
	}
}

// snap is the structure read back from live objects through the public API.
type snap struct {
	T     string
	Kind  string
	Paren bool
	Kids  []snap
	Kw    string
	Op    string
	Ex    *snap
	Val   string
}

func takeSnap(v any) snap {
	if v == nil {
		return snap{T: "nil"}
	}
	if s, ok := refAsStack(v); ok && s.IsInit() {
		sn := snap{T: "S", Kind: trueKind(s), Paren: rawParen(s, s.IsParen())}
		for _, e := range contents(s) {
			sn.Kids = append(sn.Kids, takeSnap(e))
		}
		return sn
	}
	if c, ok := refAsCond(v); ok && c.IsInit() {
		sn := snap{T: "C", Kw: c.Keyword(), Paren: rawParen(c, c.IsParen())}
		if op := c.Operator(); op != nil {
			sn.Op = op.String()
		}
		e := takeSnap(c.Expression())
		sn.Ex = &e
		return sn
	}
	return snap{T: "leaf", Val: fmt.Sprintf("%T:%v", v, v)}
}

// rawParen reads the parenthetical flag from the raw record (option bit 1) rather than from IsParen: the
// flag is what "parenthetical" means in the statement, and a getter that answers differently for some
// kind or some policy (round 14: BASIC stacks, Conditions with a presentation closure) must not take the
// reference along. Instances the dump cannot read fall back to the getter.
func rawParen(x any, getter bool) bool {
	d := stackage.VerifDump(x)
	if d == nil || d.Nil || !d.CfgOK {
		return getter
	}
	return d.Opt&1 != 0
}

// c20Expected is the structure the description denotes (what build must have produced).
func c20Expected(n rnode, path string) snap {
	switch n.T {
	case "leaf":
		return snap{T: "leaf", Val: "string:L" + path}
	case "nil":
		return snap{T: "nil"}
	case "tnilS":
		return snap{T: "leaf", Val: "*stackage.Stack:<nil>"}
	case "tnilC":
		return snap{T: "leaf", Val: "*stackage.Condition:<nil>"}
	case "tnilA":
		return snap{T: "leaf", Val: "*main.StackAlias:<nil>"}
	case "pleaf":
		return snap{T: "leaf", Val: fmt.Sprintf("%T:%v", parenLeaf{"P" + path}, parenLeaf{"P" + path})}
	case "S", "A":
		sn := snap{T: "S", Kind: n.K, Paren: n.Paren}
		for i, k := range n.Kids {
			sn.Kids = append(sn.Kids, c20Expected(k, fmt.Sprintf("%s.%d", path, i)))
		}
		return sn
	}
	sn := snap{T: "C", Kw: "kw" + path, Op: ">=", Paren: n.Paren}
	e := snap{T: "leaf", Val: "string:E" + path}
	if n.Ex != nil {
		e = c20Expected(*n.Ex, path+".e")
	}
	sn.Ex = &e
	return sn
}

// trueKind reads the stack type from the raw record: Kind() reports the symbol or the folded word.
func trueKind(s stackage.Stack) string {
	switch stackage.VerifDump(s).Typ {
	case 1:
		return "AND"
	case 2:
		return "OR"
	case 3:
		return "NOT"
	case 4:
		return "LIST"
	case 6:
		return "BASIC"
	}
	return s.Kind()
}

func (s snap) String() string {
	p := ""
	if s.Paren {
		p = "()"
	}
	switch s.T {
	case "leaf":
		return s.Val
	case "nil":
		return "nil"
	case "C":
		return "C" + p + "(" + s.Kw + s.Op + s.Ex.String() + ")"
	}
	var k []string
	for _, c := range s.Kids {
		k = append(k, c.String())
	}
	return s.Kind + p + "[" + strings.Join(k, " ") + "]"
}

func (s snap) leaves(out *[]string) {
	switch s.T {
	case "leaf":
		*out = append(*out, s.Val)
	case "nil":
		*out = append(*out, "<nil>")
	case "C":
		*out = append(*out, "cond:"+s.Kw+s.Op)
		s.Ex.leaves(out)
	default:
		for _, k := range s.Kids {
			k.leaves(out)
		}
	}
}

func (s snap) depth() int {
	d := 0
	switch s.T {
	case "C":
		return s.Ex.depth()
	case "S":
		for _, k := range s.Kids {
			if kd := k.depth(); kd > d {
				d = kd
			}
		}
		return d + 1
	}
	return 0
}

// redex: a non-parenthetical, non-NOT Stack with exactly one non-parenthetical Stack or Condition child.
func (s snap) redex() bool {
	if s.T != "S" || s.Paren || s.Kind == "NOT" || len(s.Kids) != 1 {
		return false
	}
	c := s.Kids[0]
	return (c.T == "S" || c.T == "C") && !c.Paren
}

func (s snap) header(o snap) bool {
	return s.T == o.T && s.Kind == o.Kind && s.Paren == o.Paren && s.Kw == o.Kw && s.Op == o.Op && s.Val == o.Val
}

// reach: can `a` be obtained from `b` by unwrapping redexes (anywhere at or below b)?
func reach(b, a snap, mayUnwrapHere bool) bool {
	if b.header(a) {
		switch b.T {
		case "leaf", "nil":
			return true
		case "C":
			if reach(*b.Ex, *a.Ex, true) {
				return true
			}
		default:
			if len(b.Kids) == len(a.Kids) {
				ok := true
				for i := range b.Kids {
					if !reach(b.Kids[i], a.Kids[i], true) {
						ok = false
						break
					}
				}
				if ok {
					return true
				}
			}
		}
	}
	if mayUnwrapHere && b.redex() {
		return reach(b.Kids[0], a, true)
	}
	return false
}

// normal form: unwrap everything that may be unwrapped (the receiver itself never is).
func (s snap) normal(root bool) snap {
	switch s.T {
	case "C":
		e := s.Ex.normal(false)
		s.Ex = &e
		return s
	case "S":
		if !root && s.redex() {
			return s.Kids[0].normal(false)
		}
		kids := make([]snap, len(s.Kids))
		for i, k := range s.Kids {
			kids[i] = k.normal(false)
		}
		s.Kids = kids
		// unwrapping below may have produced a new redex here
		if !root && s.redex() {
			return s.Kids[0].normal(false)
		}
	}
	return s
}

// ---- lock model for Engine B: re-acquiring a held mutex is reported instead of hanging ----------

type deadlockPanic struct{ mutex uintptr }

var heldMutexes sync.Map

func installLockModel() {
	stackage.VerifHook = func(ev string, stackID, mutexID uintptr) {
		switch ev {
		case "lock.want":
			if _, held := heldMutexes.Load(mutexID); held {
				panic(deadlockPanic{mutexID})
			}
		case "lock.held":
			heldMutexes.Store(mutexID, true)
		case "lock.release":
			heldMutexes.Delete(mutexID)
		}
	}
}

func collectMutexes(d *stackage.VerifState, out map[uintptr]bool) {
	if d == nil {
		return
	}
	if d.Mtx != 0 {
		out[d.Mtx] = true
	}
	for i := range d.Slots {
		collectMutexes(d.Slots[i].Sub, out)
	}
	if d.Ex != nil {
		collectMutexes(d.Ex.Sub, out)
	}
}

type c20Case struct {
	Tree  rnode `json:"tree"`
	Mutex int   `json:"mutex_mode"`
	Beh   int   `json:"behaviour_mode,omitempty"`
}

func c20Run(c *Ctx, cs c20Case, count bool) {
	var root stackage.Stack
	built := func() (ok bool) {
		defer func() {
			if r := recover(); r != nil {
				if dp, is := r.(deadlockPanic); is {
					heldMutexes.Delete(dp.mutex)
				}
				ok = false
			}
		}()
		root = cs.Tree.build("r", 0, cs.Mutex, cs.Beh).(stackage.Stack)
		return true
	}()
	if !built {
		// the construction calls themselves failed: not Reveal's doing (C01/C03 speak about those)
		c.Outcome("skipped:construction-panicked")
		c.Skipped.Add(1)
		return
	}
	before := takeSnap(root)
	if want := c20Expected(cs.Tree, "r"); want.String() != before.String() {
		// the harness's own premise: the tree handed to Reveal is the one described
		if cs.Beh != 7 && cs.Beh != 8 {
			c.Outcome("skipped:tree-not-built-as-described")
			c.Skipped.Add(1)
			return
		}
		// (freeing the builder's handles took something away from the tree: whatever is left is still a
		// structure made through the public API alone, and every oracle below is relative to it)
		c.Outcome("tree-not-as-described-after-freeing-the-builder's-handles")
	}
	mx := map[uintptr]bool{}
	collectMutexes(stackage.VerifDump(root), mx)
	defer func() {
		for m := range mx {
			heldMutexes.Delete(m)
		}
	}()
	size := len(cs.Tree.String())
	if count {
		c.Evals.Add(1)
		c.Transitions.Add(1)
		c.Traces.Add(1)
		c.States.Add(1)
	}
	var dead bool
	var ret stackage.Stack
	p := func() (msg string) {
		defer func() {
			if r := recover(); r != nil {
				if _, ok := r.(deadlockPanic); ok {
					dead = true
					msg = "deadlock"
					return
				}
				msg = fmt.Sprint(r)
			}
		}()
		if cs.Beh == 5 {
			root.SetReadOnly(true)
		}
		ret = root.Reveal()
		return ""
	}()
	if dead {
		c.Violation("deadlock", fmt.Sprintf("Reveal tries to acquire a mutex that is already held on %s (mutex mode %d, behaviour mode %d)", cs.Tree, cs.Mutex, cs.Beh), cs, size)
		return
	}
	if p != "" {
		c.Violation("panic", fmt.Sprintf("Reveal panicked on %s (behaviour mode %d): %s", cs.Tree, cs.Beh, p), cs, size)
		return
	}
	if len(mx) > 0 {
		for m := range mx {
			if _, held := heldMutexes.Load(m); held {
				c.Violation("lock-leaked", fmt.Sprintf("a mutex is still held after Reveal returned on %s", cs.Tree), cs, size)
				break
			}
		}
	}
	// the fluent result is the receiver: whoever continues with the returned value continues with the tree
	if dr, d0 := stackage.VerifDump(ret), stackage.VerifDump(root); dr == nil || dr.Nil || dr.Addr != d0.Addr {
		c.Violation("returned-value-is-not-the-receiver", fmt.Sprintf("Reveal() on %s (behaviour mode %d; 5 = read-only receiver) returned a Stack that is not the receiver (initialised: %v, Len %d): the tree is lost to a caller who continues with the result", cs.Tree, cs.Beh, ret.IsInit(), ret.Len()), cs, size)
		return
	}
	after := takeSnap(root)
	if cs.Beh == 5 && after.String() != before.String() {
		c.Violation("read-only-receiver-changed", fmt.Sprintf("Reveal changed a read-only receiver: before %s after %s", before, after), cs, size)
		return
	}
	var lb, la []string
	before.leaves(&lb)
	after.leaves(&la)
	if strings.Join(lb, "|") != strings.Join(la, "|") {
		c.Violation("leaf-sequence-changed", fmt.Sprintf("Reveal changed the depth-first leaf sequence of %s: before %v after %v (tree after: %s)", cs.Tree, lb, la, after), cs, size)
		return
	}
	if after.depth() > before.depth() {
		c.Violation("depth-grew", fmt.Sprintf("nesting depth grew from %d to %d on %s", before.depth(), after.depth(), cs.Tree), cs, size)
	}
	if !before.header(after) || !reach(before, after, false) {
		c.Violation("not-an-unwrapping", fmt.Sprintf("the result is not reachable by removing redundant wrappers: before %s after %s", before, after), cs, size)
		return
	}
	if nb, na := before.normal(true).String(), after.normal(true).String(); nb != na {
		c.Violation("normal-form-differs", fmt.Sprintf("before and after reduce to different fully-unwrapped forms: %s vs %s", nb, na), cs, size)
	}
	if before.String() != after.String() {
		if count {
			c.Nontrivial(jsonString(cs))
		}
		c.Outcome("unwrapped:" + after.String())
	} else {
		c.Outcome("same")
	}
	// a second round on the same tree: every Condition that holds a Stack is given another expression through
	// its own handle, an envelope is pushed next to what is there, and Reveal runs again - judged by the same
	// oracles against the tree as it is now (what the first Reveal saw is history)
	if cs.Beh != 0 || cs.Mutex > 1 {
		return
	}
	edits := 0
	var edit func(v any, depth int)
	edit = func(v any, depth int) {
		if st, ok := refAsStack(v); ok && st.IsInit() && depth < 40 {
			for _, e := range contents(st) {
				edit(e, depth+1)
			}
			return
		}
		if cd, ok := refAsCond(v); ok && cd.IsInit() {
			if _, holds := refAsStack(cd.Expression()); holds {
				edits++
				if edits%2 == 1 {
					cd.SetExpression(stackage.And().Push(fmt.Sprintf("second-%d-a", edits), fmt.Sprintf("second-%d-b", edits)))
				} else {
					cd.SetExpression(fmt.Sprintf("second-%d-plain", edits))
				}
			} else {
				edit(cd.Expression(), depth+1)
			}
		}
	}
	p2 := func() (msg string) {
		defer func() {
			if r := recover(); r != nil {
				msg = fmt.Sprint(r)
			}
		}()
		edit(root, 0)
		root.Push(stackage.And().Push(stackage.Cond("late", stackage.Eq, "v")), stackage.Or().Push(stackage.And().Push("late-a", "late-b")))
		before = takeSnap(root)
		root.Reveal()
		after = takeSnap(root)
		return ""
	}()
	if p2 != "" {
		c.Violation("second-round:panic", fmt.Sprintf("after a first Reveal, new expressions for the Conditions and two more envelopes, the second Reveal on %s panicked: %s", cs.Tree, p2), cs, size)
		return
	}
	var lb2, la2 []string
	before.leaves(&lb2)
	after.leaves(&la2)
	if strings.Join(lb2, "|") != strings.Join(la2, "|") {
		c.Violation("second-round:leaf-sequence-changed", fmt.Sprintf("after a first Reveal on %s the Conditions were given other expressions and two envelopes were pushed; the second Reveal changed the leaf sequence: before %v after %v", cs.Tree, lb2, la2), cs, size)
		return
	}
	if !before.header(after) || !reach(before, after, false) {
		c.Violation("second-round:not-an-unwrapping", fmt.Sprintf("second Reveal on %s: before %s after %s", cs.Tree, before, after), cs, size)
	}
}

func c20Trees(c *Ctx) []rnode {
	headers := []rnode{{T: "S", K: "AND"}, {T: "S", K: "OR", Paren: true}, {T: "S", K: "NOT"}, {T: "S", K: "NOT", Paren: true}, {T: "S", K: "LIST"}}
	decorated := []rnode{{T: "S", K: "NOT", Deco: 1}, {T: "S", K: "NOT", Deco: 2}, {T: "S", K: "NOT", Deco: 3}, {T: "S", K: "AND", Deco: 3}, {T: "S", K: "OR", Deco: 1}}
	atoms := []rnode{{T: "leaf"}, {T: "nil"}, {T: "S", K: "OR"}, {T: "C"}, {T: "C", Paren: true}, {T: "tnilS"}, {T: "tnilC"}}
	lists := func(elems []rnode, maxW int) [][]rnode {
		var out [][]rnode
		var rec func(cur []rnode)
		rec = func(cur []rnode) {
			out = append(out, append([]rnode{}, cur...))
			if len(cur) == maxW {
				return
			}
			for _, e := range elems {
				rec(append(cur, e))
			}
		}
		rec(nil)
		return out
	}
	wrap := func(ls [][]rnode, hs []rnode) []rnode {
		var out []rnode
		for _, l := range ls {
			for _, h := range hs {
				h.Kids = l
				out = append(out, h)
			}
		}
		return out
	}
	withCond := func(ss []rnode) []rnode {
		out := append([]rnode{}, ss...)
		for i := range ss {
			s := ss[i]
			out = append(out, rnode{T: "C", Ex: &s})
			if i%3 == 0 {
				out = append(out, rnode{T: "C", Paren: true, Ex: &s})
			}
		}
		return out
	}
	var trees []rnode
	// depth-1 stacks
	d1small := wrap(lists([]rnode{{T: "leaf"}, {T: "C"}}, 2), headers)
	d1full := wrap(lists(atoms, 2), headers)
	if c.Quick() {
		elems := append(append([]rnode{}, atoms...), withCond(d1small)...)
		trees = append(trees, wrap(lists(elems, 2), headers[:4])...)
	} else {
		elems := append(append([]rnode{}, atoms...), withCond(d1full)...)
		trees = append(trees, wrap(lists(elems, 2), headers)...)
		// depth 3 over a reduced element set, width up to 2, and width 3 over atoms + small stacks
		d2 := wrap(lists(append(append([]rnode{}, atoms[:1]...), withCond(d1small)...), 2), headers[:3])
		e3 := append(append([]rnode{}, atoms[:2]...), withCond(d2)...)
		trees = append(trees, wrap(lists(e3, 1), headers[:3])...)
		for i := 0; i < len(e3); i += 701 {
			for j := 0; j < len(e3); j += 1103 {
				trees = append(trees, rnode{T: "S", K: "AND", Kids: []rnode{e3[i], e3[j]}})
			}
		}
		for _, a := range d1small {
			as := a
			as.T = "A"
			trees = append(trees, rnode{T: "S", K: "AND", Kids: []rnode{as}}, rnode{T: "S", K: "OR", Kids: []rnode{{T: "S", K: "AND", Kids: []rnode{as}}, {T: "leaf"}}})
		}
	}
	// single-child chains of length 1..4 (5 thorough) under a root, every header mix, several tails
	maxChain := 4
	if !c.Quick() {
		maxChain = 5
	}
	tails := [][]rnode{{{T: "leaf"}}, {{T: "leaf"}, {T: "leaf"}}, {{T: "C"}}, {{T: "C", Paren: true}}, {}, {{T: "tnilS"}}, {{T: "tnilC"}}, {{T: "tnilA"}}, {{T: "pleaf"}},
		// several children, the first of which is itself a Stack or a Condition (a run of envelopes above
		// such a stack must stop there)
		{{T: "C"}, {T: "leaf"}}, {{T: "S", K: "OR", Kids: []rnode{{T: "leaf"}}}, {T: "leaf"}}, {{T: "C"}, {T: "C"}}, {{T: "leaf"}, {T: "C"}}, {{T: "S", K: "AND", Kids: []rnode{{T: "C"}, {T: "leaf"}}}, {T: "C"}, {T: "leaf"}}, {{T: "C", Ex: &rnode{T: "S", K: "AND", Kids: []rnode{{T: "S", K: "OR", Kids: []rnode{{T: "leaf"}, {T: "leaf"}}}}}}}}
	var chains func(depth int, inner rnode)
	chains = func(depth int, inner rnode) {
		trees = append(trees, rnode{T: "S", K: "AND", Kids: []rnode{inner}}, rnode{T: "S", K: "OR", Kids: []rnode{{T: "leaf"}, inner, {T: "leaf"}}})
		if depth == maxChain {
			return
		}
		for _, h := range headers[:4] {
			h.Kids = []rnode{inner}
			chains(depth+1, h)
		}
	}
	for _, t := range tails {
		for _, h := range headers[:4] {
			h.Kids = t
			chains(1, h)
		}
	}
	// the long regime: chains of 6 to 40 (65) single-child levels - rotating headers, all NOT, all
	// parenthetical (nothing to unwrap), all plain (everything unwraps), Conditions as every third link
	deepLens := []int{6, 9, 15, 16, 17, 18, 24, 33}
	if !c.Quick() {
		deepLens = []int{6, 7, 8, 9, 12, 15, 16, 17, 18, 24, 31, 32, 33, 40, 65}
	}
	for _, d := range deepLens {
		for pat := 0; pat < 5; pat++ {
			for ti, t := range [][]rnode{{{T: "leaf"}}, {{T: "leaf"}, {T: "leaf"}}, {{T: "C"}}} {
				if pat > 0 && ti == 1 && c.Quick() {
					continue
				}
				cur := rnode{T: "S", K: "OR", Kids: t}
				for lvl := 1; lvl < d; lvl++ {
					var h rnode
					switch pat {
					case 0:
						h = headers[lvl%4]
					case 1:
						h = rnode{T: "S", K: "NOT"}
					case 2:
						h = rnode{T: "S", K: []string{"AND", "OR", "LIST"}[lvl%3], Paren: true}
					case 3:
						h = rnode{T: "S", K: []string{"AND", "OR"}[lvl%2]}
					default:
						h = headers[(lvl+1)%4]
						if lvl%3 == 0 {
							cc := cur
							cur = rnode{T: "C", Ex: &cc}
						}
					}
					h.Kids = []rnode{cur}
					cur = h
				}
				trees = append(trees, rnode{T: "S", K: "AND", Kids: []rnode{cur}}, rnode{T: "S", K: "OR", Kids: []rnode{{T: "leaf"}, cur}})
			}
		}
	}
	// a Condition whose expression is a Condition that holds a Stack (two and three Conditions deep), in the
	// first slot next to an envelope, and elsewhere
	for _, bottom := range [][]rnode{{{T: "leaf"}, {T: "leaf"}}, {{T: "S", K: "AND", Kids: []rnode{{T: "leaf"}}}}, {{T: "C"}, {T: "leaf"}}} {
		for _, exT := range []string{"S", "A"} {
			st := rnode{T: exT, K: "OR", Kids: bottom}
			inner := rnode{T: "C", Ex: &st}
			outer := rnode{T: "C", Ex: &inner}
			outer3 := rnode{T: "C", Ex: &outer}
			env := rnode{T: "S", K: "AND", Kids: []rnode{{T: "C"}}}
			for _, cc := range []rnode{outer, outer3} {
				trees = append(trees, rnode{T: "S", K: "AND", Kids: []rnode{cc, env}}, rnode{T: "S", K: "OR", Kids: []rnode{env, cc}}, rnode{T: "S", K: "AND", Kids: []rnode{cc}},
					rnode{T: "S", K: "LIST", Kids: []rnode{{T: "S", K: "AND", Kids: []rnode{cc}}, {T: "leaf"}}}, rnode{T: "S", K: "AND", Kids: []rnode{cc, {T: "leaf"}, env}})
			}
		}
	}
	// instances that refuse what Reveal may want to do to them: a Condition that will not take a new
	// expression (read-only, no-nesting switched on after the fact, an error on record) holding a Stack or an
	// alias, in the first slot next to an envelope, elsewhere, and inside an envelope; read-only nested stacks
	// (envelopes and multi-element ones), with every mutex placement
	for frozen := 1; frozen <= 3; frozen++ {
		for _, exT := range []string{"S", "A"} {
			for _, exKids := range [][]rnode{{{T: "leaf"}, {T: "leaf"}}, {{T: "S", K: "AND", Kids: []rnode{{T: "leaf"}}}}, {{T: "C"}}} {
				ex := rnode{T: exT, K: "OR", Kids: exKids}
				fc := rnode{T: "C", Ex: &ex, Frozen: frozen}
				env := rnode{T: "S", K: "AND", Kids: []rnode{{T: "C"}}}
				trees = append(trees, rnode{T: "S", K: "AND", Kids: []rnode{fc, env}}, rnode{T: "S", K: "OR", Kids: []rnode{env, fc}}, rnode{T: "S", K: "AND", Kids: []rnode{fc}},
					rnode{T: "S", K: "LIST", Kids: []rnode{{T: "S", K: "AND", Kids: []rnode{fc}}, {T: "leaf"}}}, rnode{T: "S", K: "AND", Kids: []rnode{fc, {T: "leaf"}, env, fc}})
			}
		}
	}
	for _, in := range [][]rnode{{{T: "leaf"}, {T: "leaf"}}, {{T: "leaf"}}, {{T: "C"}}, {{T: "S", K: "OR", Kids: []rnode{{T: "leaf"}}}}, {{T: "S", K: "OR", Kids: []rnode{{T: "leaf"}}}, {T: "leaf"}}} {
		for _, h := range headers {
			ro := h
			ro.Kids, ro.Frozen = in, 1
			trees = append(trees, rnode{T: "S", K: "AND", Kids: []rnode{ro}}, rnode{T: "S", K: "OR", Kids: []rnode{{T: "leaf"}, ro, {T: "S", K: "AND", Kids: []rnode{{T: "C"}}}}},
				rnode{T: "S", K: "AND", Kids: []rnode{{T: "S", K: "OR", Kids: []rnode{ro}}, {T: "C", Ex: &ro}}})
		}
	}
	// a Condition holding a two-level Stack, next to (before / after / two away from) an envelope that
	// Reveal removes: every pairing of headers for the two levels, three innermost contents
	for _, h1 := range headers {
		for _, h2 := range headers {
			for _, in := range [][]rnode{{{T: "leaf"}, {T: "leaf"}}, {{T: "leaf"}}, {{T: "C"}}} {
				lvl2 := h2
				lvl2.Kids = in
				lvl1 := h1
				lvl1.Kids = []rnode{lvl2}
				x := rnode{T: "C", Ex: &lvl1}
				for _, e := range []rnode{{T: "S", K: "AND", Kids: []rnode{{T: "C"}}}, {T: "S", K: "OR", Kids: []rnode{{T: "S", K: "AND", Kids: []rnode{{T: "leaf"}, {T: "leaf"}}}}}, {T: "S", K: "LIST", Kids: []rnode{{T: "leaf"}}}} {
					trees = append(trees, rnode{T: "S", K: "AND", Kids: []rnode{x, e}}, rnode{T: "S", K: "OR", Kids: []rnode{e, x}}, rnode{T: "S", K: "AND", Kids: []rnode{x, {T: "leaf"}, e}})
				}
			}
		}
	}
	// stacks whose presentation settings change what Kind() prints (symbol, case folding): wrappers,
	// wrapped and in between
	for _, d := range decorated {
		for _, t := range tails {
			in := d
			in.Kids = t
			for _, h := range append(append([]rnode{}, headers[:4]...), decorated...) {
				w := h
				w.Kids = []rnode{in}
				trees = append(trees, rnode{T: "S", K: "AND", Kids: []rnode{in}}, rnode{T: "S", K: "OR", Kids: []rnode{{T: "leaf"}, w}}, rnode{T: "S", K: "LIST", Kids: []rnode{w, {T: "C", Ex: &in}}})
				ww := d
				ww.Kids = []rnode{w}
				trees = append(trees, rnode{T: "S", K: "AND", Kids: []rnode{ww, {T: "leaf"}}})
			}
		}
	}
	// round 14: BASIC stacks (which never print parentheses but carry the flag all the same) as wrappers and
	// as only children, and Conditions with a presentation closure (parenthetical or not) as only children
	for _, par := range []bool{false, true} {
		for _, kids := range [][]rnode{{{T: "leaf"}}, {{T: "leaf"}, {T: "leaf"}}, {{T: "C"}}, {{T: "S", K: "AND", Kids: []rnode{{T: "leaf"}, {T: "leaf"}}}}, {{T: "S", K: "BASIC", Kids: []rnode{{T: "leaf"}}}}, {{T: "S", K: "BASIC", Paren: true, Kids: []rnode{{T: "leaf"}, {T: "leaf"}}}}} {
			b := rnode{T: "S", K: "BASIC", Paren: par, Kids: kids}
			trees = append(trees, rnode{T: "S", K: "AND", Kids: []rnode{b}}, rnode{T: "S", K: "OR", Kids: []rnode{{T: "leaf"}, b}}, rnode{T: "S", K: "AND", Kids: []rnode{{T: "S", K: "OR", Kids: []rnode{b}}, {T: "leaf"}}},
				rnode{T: "S", K: "BASIC", Kids: []rnode{{T: "S", K: "AND", Kids: []rnode{b}}}}, rnode{T: "S", K: "LIST", Kids: []rnode{{T: "C", Ex: &b}, {T: "S", K: "AND", Paren: true, Kids: []rnode{b}}}})
		}
		for _, ex := range []*rnode{nil, {T: "S", K: "AND", Kids: []rnode{{T: "S", K: "OR", Kids: []rnode{{T: "leaf"}, {T: "leaf"}}}}}} {
			pc := rnode{T: "C", Paren: par, Deco: 1, Ex: ex}
			trees = append(trees, rnode{T: "S", K: "AND", Kids: []rnode{{T: "S", K: "OR", Kids: []rnode{pc}}, {T: "leaf"}}}, rnode{T: "S", K: "OR", Kids: []rnode{{T: "S", K: "AND", Kids: []rnode{pc}}}},
				rnode{T: "S", K: "AND", Kids: []rnode{{T: "S", K: "LIST", Kids: []rnode{{T: "S", K: "OR", Kids: []rnode{pc}}}}, pc}}, rnode{T: "S", K: "AND", Kids: []rnode{{T: "S", K: "BASIC", Kids: []rnode{pc}}, {T: "S", K: "NOT", Kids: []rnode{pc}}}})
		}
	}
	return trees
}

// c20Concurrent (Engine C): "neither panics nor deadlocks on stacks with the mutex enabled" with somebody
// else at work. One thread reveals the root of a small tree in which every node has its mutex; the other
// makes one call on the root or on a nested stack (a Transfer into an ancestor, a repeated SetMutex, a
// Push, a Reveal of its own ...). Every schedule up to the preemption bound; oracle: no deadlock, no
// panic, no breach of the lock protocol, every leaf that was there is still there.
var c20cur struct{ root, mid, inner stackage.Stack }

type c20ConcCase struct {
	Tree     string `json:"tree"`
	Other    string `json:"other"`
	Schedule []int  `json:"schedule"`
}

func c20Concurrent(c *Ctx, only *c20ConcCase) (execs int, complete bool) {
	complete = true
	shapes := []struct {
		name string
		mk   func() stackage.Stack
	}{
		{"AND[OR[x LIST[a b]] c]", func() stackage.Stack {
			c20cur.inner = stackage.List().SetMutex().Push("a", "b")
			c20cur.mid = stackage.Or().SetMutex().Push("x", c20cur.inner)
			c20cur.root = stackage.And().SetMutex().Push(c20cur.mid, "c")
			return c20cur.root
		}},
		{"AND[OR[LIST[a b]] c] (the OR is a wrapper Reveal removes)", func() stackage.Stack {
			c20cur.inner = stackage.List().SetMutex().Push("a", "b")
			c20cur.mid = stackage.Or().SetMutex().Push(c20cur.inner)
			c20cur.root = stackage.And().SetMutex().Push(c20cur.mid, "c")
			return c20cur.root
		}},
		{"AND[Cond(k = OR[LIST[a]]) c]", func() stackage.Stack {
			c20cur.inner = stackage.List().SetMutex().Push("a")
			c20cur.mid = stackage.Or().SetMutex().Push(c20cur.inner)
			c20cur.root = stackage.And().SetMutex().Push(stackage.Cond("k", stackage.Eq, c20cur.mid), "c")
			return c20cur.root
		}},
	}
	node := map[string]func() stackage.Stack{"root": func() stackage.Stack { return c20cur.root }, "mid": func() stackage.Stack { return c20cur.mid }, "inner": func() stackage.Stack { return c20cur.inner }}
	var others []schedOp
	for _, n := range []string{"root", "mid", "inner"} {
		n := n
		others = append(others,
			schedOp{n + ".SetMutex() once more", func(stackage.Stack) string { node[n]().SetMutex(); return "" }},
			schedOp{n + ".Push(z)", func(stackage.Stack) string { node[n]().Push("z"); return "" }},
			schedOp{n + ".Reveal()", func(stackage.Stack) string { node[n]().Reveal(); return "" }},
			schedOp{n + ".String()", func(stackage.Stack) string { _ = node[n]().String(); return "" }})
	}
	for _, pair := range [][2]string{{"inner", "root"}, {"mid", "root"}, {"inner", "mid"}} { // (never an ancestor into its own descendant: that ties a knot)
		pair := pair
		others = append(others, schedOp{pair[0] + ".Transfer(" + pair[1] + ")", func(stackage.Stack) string { node[pair[0]]().Transfer(node[pair[1]]()); return "" }})
	}
	bound := 2
	if !c.Quick() {
		bound = 3
	}
	var leavesOf func(v any, out map[string]int, depth int)
	leavesOf = func(v any, out map[string]int, depth int) {
		if depth > 12 {
			return
		}
		if st, ok := refAsStack(v); ok {
			for _, e := range contents(st) {
				leavesOf(e, out, depth+1)
			}
			return
		}
		if cd, ok := refAsCond(v); ok {
			leavesOf(cd.Expression(), out, depth+1)
			return
		}
		if str, ok := v.(string); ok {
			out[str]++
		}
	}
	schedFine = true
	for _, sh := range shapes {
		for _, other := range others {
			if only != nil && (only.Tree != sh.name || only.Other != other.Name) {
				continue
			}
			progs := [][]schedOp{{{"root.Reveal()", func(s stackage.Stack) string { s.Reveal(); return "" }}}, {other}}
			sig := "Reveal|" + opClass(other.Name)
			want := map[string]int{}
			leavesOf(sh.mk(), want, 0)
			distinct := map[string]bool{}
			visit := func(x *execResult) {
				c.Transitions.Add(int64(len(x.points)))
				desc := func(msg string) string {
					return fmt.Sprintf("%s\n tree %s, one thread calls Reveal on the root, the other %s\n schedule %v\n trace: %s", msg, sh.name, other.Name, x.choices, strings.Join(x.trace, " / "))
				}
				rep := map[string]any{"tree": sh.name, "other": other.Name, "schedule": x.choices}
				switch {
				case x.timeout:
					c.Violation("concurrent:hang:"+sig, desc("a thread did not reach its next scheduling point within 20 s"), rep, len(x.choices))
				case x.protocol != "":
					c.Violation("concurrent:lock-protocol:"+sig, desc("lock protocol broken: "+x.protocol), rep, len(x.choices))
				case len(x.panicked) > 0:
					c.Violation("concurrent:panic:"+sig, desc("panic: "+strings.Join(x.panicked, " ; ")), rep, len(x.choices))
				case x.deadlock != "":
					c.Violation("concurrent:deadlock:"+sig, desc("deadlock: "+x.deadlock), rep, len(x.choices))
				default:
					got := map[string]int{}
					leavesOf(c20cur.root, got, 0)
					for l := range want {
						if got[l] == 0 {
							c.Violation("concurrent:leaf-lost:"+sig, desc(fmt.Sprintf("leaf %q is no longer anywhere under the root (leaves now %v)", l, got)), rep, len(x.choices))
							break
						}
					}
					distinct[fmt.Sprint(got)+x.final] = true
				}
			}
			if only != nil {
				// replay: the recorded schedule, twice (the same schedule gives the same observations)
				x1 := runSchedule(sh.mk, progs, only.Schedule, false)
				x2 := runSchedule(sh.mk, progs, only.Schedule, false)
				if x1.deadlock != x2.deadlock || x1.protocol != x2.protocol || len(x1.panicked) != len(x2.panicked) || x1.final != x2.final {
					fmt.Println("replay: NON-DETERMINISTIC schedule (infrastructure problem)")
					os.Exit(2)
				}
				fmt.Printf("replay: tree %s, Reveal on the root | %s\n schedule %v\n trace: %s\n panics: %v deadlock: %q protocol: %q\n", sh.name, other.Name, only.Schedule, strings.Join(x1.trace, " / "), x1.panicked, x1.deadlock, x1.protocol)
				visit(x1)
				return 2, true
			}
			n, done := exploreSchedules(sh.mk, progs, bound, false, visit, c.TimeUp)
			execs += n
			complete = complete && done
			if len(distinct) > 1 {
				c.Nontrivial("concurrent " + sh.name + other.Name)
			}
			for o := range distinct {
				c.Outcome("concurrent " + sh.name + other.Name + o)
			}
		}
	}
	return execs, complete
}

func init() {
	register(&Check{ID: "C20", Engine: "B", Run: func(c *Ctx) {
		nConc, concDone := c20Concurrent(c, nil)
		c.States.Add(int64(nConc))
		c.Traces.Add(int64(nConc))
		c.Evals.Add(int64(nConc))
		c.Bound["concurrent_schedules"] = nConc
		c.Bound["concurrent_preemption_bound"] = map[bool]int{true: 2, false: 3}[c.Quick()]
		installLockModel()
		if msg := sameNamedTypes(); msg != "" {
			c.Violation("same-named-types", "two distinct types that merely print the same name (function-local declarations), one an alias of Stack, one a plain value: "+msg, nil, 0)
		}
		trees := c20Trees(c)
		modes := []int{0, 1, 2, 3}
		if !c.Quick() {
			modes = []int{0, 1, 2, 3, 4}
		}
		c.Rule = "every tree of the bounded family (kinds AND/OR/NOT/LIST, parenthetical flags, children: leaf, nil, empty Stack, Stack, Condition(leaf), Condition(Stack), parenthetical Conditions; all single-child chains up to length 4/5 with several tails; aliases in the thorough tier) typed nil pointers to Stack / Condition / alias as leaves; x mutex placement (none, all, root only, all but root, alternating) x behaviour mode (none, forward indices, negative indices, capacity reached with refused Insert/Push/Replace/Remove/Swap made beforehand, all, locking switched on late, builder handles freed, every node's validity closure rejecting with an error on record); oracle: identical depth-first leaf/Condition sequence, result reachable from the input by unwrapping redexes only (receiver never unwrapped), equal normal forms, no panic, no re-acquisition of a held mutex (lock hooks), no mutex left held; non-trivial = distinct cases in which Reveal changed the structure"
		c.Bound["trees"] = len(trees)
		behs := []int{0, 1, 3, 5, 6, 7, 8, 9}
		if !c.Quick() {
			behs = []int{0, 1, 2, 3, 4, 5, 6, 7, 8, 9}
		}
		c.Bound["mutex_modes"] = len(modes)
		c.Bound["behaviour_modes"] = len(behs)
		c.Exhaustive = concDone
		c.Rule += "; (concurrent, Engine C) three small trees with every mutex on: one thread reveals the root while another makes one call (repeated SetMutex, Push, Reveal, String on root / middle / innermost stack, Transfer of a nested stack into an ancestor or the other way), every schedule up to the preemption bound, scheduling points at every lock operation and inside critical sections: no deadlock, no panic, no unlock of a mutex not held, no leaf lost"
		parallelFor(len(trees), func(i int) {
			if c.TimeUp() {
				return
			}
			for _, m := range modes {
				for _, b := range behs {
					if !c.Quick() && m >= 2 && b != 0 && !(b == 6 && m == 2) {
						continue // thorough: every behaviour mode with no / all mutexes, the other placements plain
					}
					if !c.Quick() && ((m == 1 && (b == 1 || b == 2)) || (b == 8 && m == 1)) {
						continue // thorough: the single index options are tried without mutexes (mode 4 = all of them, with)
					}
					if (b == 1 || b == 4) && rdepth(trees[i]) > 12 {
						// with forward indices on, Reveal visits the last element of every level twice (an index
						// one past the end resolves to it): 2^depth visits. Not a deadlock, but nothing a check
						// can wait for at depth 33; the forward-index modes stop at depth 12.
						continue
					}
					if (b == 6 && m != 1 && m != 2) || (b >= 7 && m > 1) {
						continue // late locking: all / root only; freed builder handles: no / all mutexes
					}
					c20Run(c, c20Case{trees[i], m, b}, true)
				}
			}
		})
		c.Sample(c20Case{trees[len(trees)/2], 1, 0})
		c.Sample(c20Case{trees[len(trees)-1], 3, 3})
		c.Sample(c20Case{trees[7], 0, 1})
		c.Assumptions = append(c.Assumptions, "an unwrap is also accepted at a Condition's expression position and for alias-typed stacks (the statement does not restrict where the redundant Stack sits)")
	}, Replay: func(c *Ctx, raw json.RawMessage) {
		var cc c20ConcCase
		if json.Unmarshal(raw, &cc) == nil && cc.Tree != "" {
			c20Concurrent(c, &cc)
			return
		}
		installLockModel()
		var cs c20Case
		json.Unmarshal(raw, &cs)
		c20Run(c, cs, false)
	}})
}
