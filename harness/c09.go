package main

import (
	"bytes"
	"encoding/json"
	"fmt"
	"io"
	"log"
	"reflect"
	"sort"
	"strings"

	stackage "github.com/JesseCoretta/go-stackage"
)

// C09 — a read-only Stack or Condition cannot be changed (Engine A/B, reflection-driven).

type c09Recv struct {
	Name string
	Mk   func() any
}

func c09Receivers(c *Ctx) []c09Recv {
	var out []c09Recv
	pp := func(...any) error { return nil }
	rp := func(...any) string { return "PRESENTED" }
	kinds := kindNames
	for _, k := range kinds {
		k := k
		for ci, content := range []func() []any{
			func() []any { return nil },
			func() []any { return []any{"a", nil, "b"} },
			func() []any {
				return []any{stackage.Or().Push("n1", nil, "n2"), stackage.Cond("ck", stackage.Eq, stackage.List().Push("e")), "leaf"}
			},
			func() []any { // redundant wrappers and nil gaps: something for Reveal and Defrag to do
				return []any{stackage.And().Push(stackage.Or().Push("x", "y")), nil, stackage.List().Push(stackage.Cond("k", stackage.Eq, "v")), nil, nil, "z"}
			},
		} {
			content := content
			for vi := 0; vi < 4; vi++ {
				vi := vi
				if c.Quick() && vi >= 1 && ci == 0 {
					continue
				}
				out = append(out, c09Recv{fmt.Sprintf("%s/content%d/variant%d", k, ci, vi), func() any {
					var s stackage.Stack
					if vi == 1 {
						s = newStackKind(k, 5)
						s.SetMutex().SetFIFO(true).SetParen(true).SetFold(true).SetNegativeIndices(true).SetNoNesting(false).SetID("id").SetCategory("cat").SetEncap(`"`).
							SetAuxiliary(stackage.Auxiliary{"k": 1}).SetPushPolicy(pp).SetValidityPolicy(pp).SetLogLevel(stackage.LogLevel2).SetLessFunc(func(i, j int) bool { return i < j })
						if k != "BASIC" {
							s.SetPresentationPolicy(rp)
						}
						s.SetDelimiter(",").SetSymbol("&")
					} else {
						s = newStackKind(k)
					}
					if vi == 2 {
						// closures that currently say "no": the flag must hold regardless of what they answer
						s.SetValidityPolicy(func(...any) error { return errCat }).SetMutex().SetNoNesting(true)
						s.SetEqualityPolicy(func(any, any) error { return errCat })
					}
					s.Push(content()...)
					if vi == 2 {
						s.SetPushPolicy(func(...any) error { return nil })
					}
					if vi == 3 {
						// every option bit on, no closure: the flag must hold whatever the other bits say
						s.SetNoNesting(true).SetParen(true).SetFold(true).SetLeadOnce(true).SetNoPadding(true).SetNegativeIndices(true).SetForwardIndices(true).SetMutex()
					}
					return s.SetReadOnly(true)
				}})
			}
		}
	}
	out = append(out,
		c09Recv{"Condition/leaf", func() any { return stackage.Cond("kw", stackage.Eq, "val").SetReadOnly(true) }},
		c09Recv{"Condition/stack", func() any {
			return stackage.Cond("kw", stackage.Ne, stackage.And().Push("x", nil, stackage.Or().Push("y"))).SetParen(true).SetEncap("'").SetID("cid").SetCategory("ccat").
				SetAuxiliary(stackage.Auxiliary{"z": 2}).SetLogLevel(stackage.LogLevel1).SetReadOnly(true)
		}},
		c09Recv{"Condition/invalid", func() any { return stackage.Cond("", stackage.Eq, "val").SetReadOnly(true) }},
		c09Recv{"Condition/rejecting-validity", func() any {
			return stackage.Cond("kw", stackage.Eq, "val").SetValidityPolicy(func(...any) error { return errCat }).SetReadOnly(true)
		}},
		// an error on record when the flag is set (a plain one, and a nil pointer inside a non-nil error value):
		// readers leave it exactly as it is
		c09Recv{"AND/content1/error-on-record", func() any { return stackage.And().Push("a", nil, "b").SetErr(errCat).SetReadOnly(true) }},
		c09Recv{"OR/content1/typed-nil-error-on-record", func() any { return stackage.Or().Push("a", nil, "b").SetErr((*ptrErr)(nil)).SetReadOnly(true) }},
		c09Recv{"LIST/content2/typed-nil-error-below", func() any {
			return stackage.List().Push(stackage.Or().Push("n1").SetErr((*ptrErr)(nil)).SetReadOnly(true), stackage.Cond("ck", stackage.Eq, "v").SetErr((*ptrErr)(nil)).SetReadOnly(true), "leaf").SetReadOnly(true)
		}},
		c09Recv{"Condition/error-on-record", func() any { return stackage.Cond("kw", stackage.Eq, "val").SetErr(errCat).SetReadOnly(true) }},
		c09Recv{"Condition/typed-nil-error-on-record", func() any { return stackage.Cond("kw", stackage.Eq, "val").SetErr((*ptrErr)(nil)).SetReadOnly(true) }},
		// settings that were cleared and then set before the flag went up (the niladic reset form)
		c09Recv{"AND/content1/encap-after-reset", func() any { return stackage.And().SetEncap().SetEncap(`"`).Push("a", nil, "b").SetReadOnly(true) }},
		c09Recv{"LIST/content2/encap-after-reset", func() any {
			return stackage.List().SetEncap().SetEncap("'").Push(stackage.Or().SetEncap().SetEncap("<").Push("n1"), stackage.Cond("ck", stackage.Eq, "v").SetEncap().SetEncap([]string{"<", ">"}), "leaf").SetReadOnly(true)
		}},
		c09Recv{"Condition/encap-after-reset", func() any { return stackage.Cond("kw", stackage.Eq, "val").SetEncap().SetEncap([]string{"<", ">"}).SetReadOnly(true) }},
		// expressions held under a type of the caller's own, or through pointers
		c09Recv{"Condition/alias-expression", func() any {
			return stackage.Cond("kw", stackage.Eq, StackAlias(stackage.And().Push("x", "y"))).SetReadOnly(true)
		}},
		c09Recv{"Condition/pointer-expression", func() any {
			st := stackage.Or().Push("x", nil)
			return stackage.Cond("kw", stackage.Eq, &st).SetReadOnly(true)
		}},
		c09Recv{"Condition/pointer-alias-expression", func() any {
			st := StackAlias(stackage.List().Push("x"))
			return stackage.Cond("kw", stackage.Eq, &st).SetReadOnly(true)
		}},
		c09Recv{"Condition/condition-alias-expression", func() any {
			return stackage.Cond("kw", stackage.Eq, CondAlias(stackage.Cond("i", stackage.Ne, "v"))).SetReadOnly(true)
		}},
		c09Recv{"Condition/init-only", func() any { var cd stackage.Condition; cd.Init(); return cd.SetNoNesting(true).SetReadOnly(true) }},
		c09Recv{"deep-chain/5", func() any { return c09DeepChain(5) }}, c09Recv{"deep-chain/7", func() any { return c09DeepChain(7) }}, c09Recv{"deep-chain/18", func() any { return c09DeepChain(18) }},
		c09Recv{"deep-chain/6/conditions", func() any { return c09DeepChain(6, true) }}, c09Recv{"deep-chain/17/conditions", func() any { return c09DeepChain(17, true) }},
		// encapsulation entries that are parts of one slice the caller keeps (spare room behind the first)
		c09Recv{"AND/content1/encap-parts", func() any {
			chars := []string{"<", ">", "|"}
			return stackage.And().SetEncap(chars[:1], chars[1:2]).Push("a", nil, "b").SetReadOnly(true)
		}},
		c09Recv{"LIST/content2/encap-parts", func() any {
			chars := []string{"<", ">", "|"}
			return stackage.List().SetEncap(chars[:1], chars[1:2]).Push(stackage.Or().SetEncap(chars[2:]).Push("n1"), "leaf").SetReadOnly(true)
		}},
		c09Recv{"Condition/encap-parts", func() any {
			chars := []string{"<", ">", "|"}
			return stackage.Cond("kw", stackage.Eq, "val").SetEncap(chars[:1], chars[1:2]).SetReadOnly(true)
		}},
	)
	return out
}

// c09DeepChain: read-only stacks nested n levels deep; at the bottom, instances whose own closures fail
// (an Unmarshaler, a validity policy, an equality policy that answer with errors): queries that come back
// with an error from far below must leave every level as it was, like those that succeed.
func c09DeepChain(n int, conds ...bool) stackage.Stack {
	fail := fmt.Errorf("closure of the innermost instance says no")
	cur := stackage.And().Push("bottom",
		stackage.Cond("deep", stackage.Eq, "v").SetUnmarshaler(func(...any) ([]any, error) { return nil, fail }).SetValidityPolicy(func(...any) error { return fail }).SetReadOnly(true),
		stackage.List().Push("x", nil).SetUnmarshaler(func(...any) ([]any, error) { return nil, fail }).SetEqualityPolicy(func(any, any) error { return fail }).SetReadOnly(true))
	cur.SetReadOnly(true)
	for lvl := n - 1; lvl >= 1; lvl-- {
		var link any = cur
		if lvl%3 == 0 && len(conds) > 0 && conds[0] {
			link = stackage.Cond(fmt.Sprintf("l%d", lvl), stackage.Ne, cur).SetReadOnly(true)
		}
		cur = newStackKind(kindNames[lvl%5]).Push(lvl, link, nil).SetReadOnly(true)
	}
	return cur
}

// roBit finds the raw bit driven by SetReadOnly on a fresh instance (no internal constant is assumed).
func roBit(x any) uint16 {
	var y any
	if _, ok := x.(stackage.Stack); ok {
		y = stackage.And()
	} else {
		y = stackage.Cond("k", stackage.Eq, "v")
	}
	b0 := optBits(y)
	callOpt(y, "SetReadOnly", true)
	return optBits(y) &^ b0
}

// exactKey is the raw recursive dump; mask clears option bits, noErr ignores the error field.
func c09Key(x any, mask uint16, noErr bool) string {
	d := stackage.VerifDump(x)
	d.Opt &^= mask
	if noErr {
		d.Err = nil
	}
	return d.Key(true)
}

type c09Call struct {
	Method string `json:"method"`
	Args   string `json:"args"`
	args   []reflect.Value
}

func c09Calls(x any) []c09Call {
	var ms []methodEntry
	if _, ok := x.(stackage.Stack); ok {
		ms = methodsOf(stackage.Stack{}, "Stack")
	} else {
		ms = methodsOf(stackage.Condition{}, "Condition")
	}
	pick := func(t reflect.Type, pos int) []namedValue { return basicValues(t) }
	var out []c09Call
	for _, me := range ms {
		for _, t := range append(argTuples(me.Type, pick, 60), extraTuples(me.Name)...) {
			out = append(out, c09Call{me.Name, t.Desc, t.Args})
		}
	}
	return out
}

type c09Case struct {
	Recv  string    `json:"receiver"`
	Calls []c09Call `json:"calls"`
}

// c09Exec performs the calls on a fresh read-only receiver and checks the invariants.
func c09Exec(c *Ctx, rv c09Recv, calls []c09Call, count bool) {
	x := rv.Mk()
	pv := reflect.New(reflect.TypeOf(x))
	pv.Elem().Set(reflect.ValueOf(x))
	bit := roBit(x)
	orig := x // a second handle on the same underlying instance
	snapshot := c09Key(orig, bit, false)
	cs := c09Case{rv.Name, calls}
	size := len(calls)*1000 + len(rv.Name)
	flagCleared, replaced := false, false
	for _, cl := range calls {
		before := c09Key(orig, 0, false)
		if count {
			c.Transitions.Add(1)
		}
		res, p := callMethod(pv, cl.Method, cl.args)
		desc := fmt.Sprintf("read-only %s: %s(%s)", rv.Name, cl.Method, cl.Args)
		if p != "" {
			c.Violation("panic:"+cl.Method, desc+" panicked: "+p, cs, size)
			return
		}
		// a method that hands back its own type is fluent: the result is the receiver, refused call or
		// not (whoever chains on continues with the same instance, not with an empty one)
		if len(res) == 1 && res[0].Type() == reflect.TypeOf(x) && cl.Method != "Init" && !replaced {
			if dr, d0 := stackage.VerifDump(res[0].Interface()), stackage.VerifDump(orig); dr == nil || dr.Addr != d0.Addr {
				c.Violation("fluent-result-is-not-the-receiver:"+cl.Method, desc+" returned an instance other than the receiver (a zero value or a copy): a chained call continues elsewhere", cs, size)
			}
		}
		if flagCleared {
			continue // the flag was legitimately cleared by an earlier call of this sequence
		}
		if replaced {
			// the handle was re-initialised by an earlier Init: this call went to the NEW instance, which is
			// none of the read-only one's business
			if after := c09Key(orig, 0, false); after != before {
				c.Violation("changed-through-replaced-handle:"+cl.Method, fmt.Sprintf("%s, called on the handle Init had re-initialised before, changed the read-only instance that handle used to refer to:\n before %s\n after  %s", desc, before, after), cs, size)
				return
			}
			continue
		}
		switch cl.Method {
		case "SetReadOnly", "ReadOnly":
			if c09Key(orig, bit, false) != c09Key2(before, orig, bit) {
				c.Violation("changed:"+cl.Method, desc+" changed more than the read-only flag", cs, size)
			}
			if optBits(orig)&bit == 0 {
				flagCleared = true
			}
			continue
		case "SetErr":
			if after := c09Key(orig, 0, true); after != stripErr(orig, before) {
				c.Violation("changed:SetErr", desc+" changed more than the error", cs, size)
			}
			snapshot = c09Key(orig, bit, false)
			continue
		case "Free":
			if len(res) == 1 && res[0].IsNil() {
				c.Violation("Free:no-error", desc+" returned nil on a read-only instance", cs, size)
			}
			inited := false
			switch h := pv.Elem().Interface().(type) {
			case stackage.Stack:
				inited = h.IsInit()
			case stackage.Condition:
				inited = h.IsInit()
			}
			if !inited {
				c.Violation("Free:released", desc+" released a read-only instance", cs, size)
				return
			}
		case "Init":
			// Condition.Init replaces the handle (documented exception); the original instance must be intact,
			// now and whatever is done next through the re-initialised handle
			if dn, d0 := stackage.VerifDump(pv.Elem().Interface()), stackage.VerifDump(orig); dn == nil || dn.Addr != d0.Addr {
				replaced = true
			}
		}
		if after := c09Key(orig, 0, false); after != before {
			c.Violation("changed:"+cl.Method, fmt.Sprintf("%s changed a read-only instance:\n before %s\n after  %s", desc, before, after), cs, size)
			return
		}
		if count {
			c.Nontrivial(rv.Name + cl.Method + cl.Args)
		}
	}
	// clearing the flag restores full mutability with the state as it was
	if !flagCleared || replaced {
		callOpt(orig, "SetReadOnly", false)
		if after := c09Key(orig, bit, false); after != snapshot {
			c.Violation("state-after-clear", fmt.Sprintf("after clearing the flag the state differs from the one at the time it was set (receiver %s, calls %v):\n was %s\n now %s", rv.Name, callNames(calls), snapshot, after), cs, size)
			return
		}
		switch tv := orig.(type) {
		case stackage.Stack:
			n := tv.Len()
			tv.Push("again")
			if tv.Len() != n+1 && !tv.IsFull() && stackage.VerifDump(tv).Funcs[1] == 0 {
				c.Violation("still-frozen", fmt.Sprintf("Push does nothing after SetReadOnly(false) on %s", rv.Name), cs, size)
			}
		case stackage.Condition:
			tv.SetKeyword("again")
			if tv.Keyword() != "again" {
				c.Violation("still-frozen", fmt.Sprintf("SetKeyword does nothing after SetReadOnly(false) on %s", rv.Name), cs, size)
			}
		}
	}
	if count {
		c.Outcome(rv.Name)
	}
}

// c09Sibling: a writable instance of the same type that shares what the USER owns with the read-only one
// (the very same Auxiliary map, the same logger) goes through every call of the catalogue; the read-only
// instance must answer and dump as before. (An Auxiliary map the user edits directly is the user's
// business; a method of another instance emptying or replacing it is not.)
func c09Sibling(c *Ctx, rv c09Recv) int {
	n := 0
	probe := rv.Mk()
	calls := c09Calls(probe)
	if strings.HasPrefix(rv.Name, "deep-chain/") {
		return 0
	}
	for _, cl := range calls {
		x := rv.Mk()
		var y any
		var auxBefore string
		// a logger of the user's own (not one of the package's), given to both before the flag was set
		sink := &bytes.Buffer{}
		lg := log.New(sink, "user ", log.Lmsgprefix)
		lgState := func() string {
			return fmt.Sprintf("writer-is-the-user's-buffer=%v prefix=%q flags=%d", lg.Writer() == io.Writer(sink), lg.Prefix(), lg.Flags())
		}
		var before0 string
		switch tv := x.(type) {
		case stackage.Stack:
			tv.SetReadOnly(false).SetLogger(lg).SetReadOnly(true)
			before0 = c09Key(x, 0, false)
			// (the sibling is configured the way instances often are: settings cleared, then set)
			y = newStackKind(tv.Kind()).SetEncap().SetEncap("|").SetSymbol().SetSymbol("sib").Push("own").SetAuxiliary(tv.Auxiliary()).SetLogger(lg)
			auxBefore = fmt.Sprint(map[string]any(tv.Auxiliary()))
		case stackage.Condition:
			tv.SetReadOnly(false).SetLogger(lg).SetReadOnly(true)
			before0 = c09Key(x, 0, false)
			y = stackage.Cond("own", stackage.Eq, "v").SetEncap().SetEncap([]string{"{", "}"}).SetAuxiliary(tv.Auxiliary()).SetLogger(lg)
			auxBefore = fmt.Sprint(map[string]any(tv.Auxiliary()))
		}
		if now := c09Key(x, 0, false); now != before0 {
			c.Violation("changed-through-sibling:construction", fmt.Sprintf("making and configuring ANOTHER instance (settings cleared, then set; the same Auxiliary map and logger) changed read-only %s:\n before %s\n after  %s", rv.Name, before0, now), c09Case{rv.Name + " (sibling)", nil}, len(rv.Name))
			return n
		}
		lgBefore := lgState()
		pv := reflect.New(reflect.TypeOf(y))
		pv.Elem().Set(reflect.ValueOf(y))
		before := c09Key(x, 0, false)
		c.Transitions.Add(1)
		n++
		desc := fmt.Sprintf("%s(%s) on a writable instance that was given the same Auxiliary map and logger as read-only %s", cl.Method, cl.Args, rv.Name)
		cs := c09Case{rv.Name + " (sibling)", []c09Call{cl}}
		if _, p := callMethod(pv, cl.Method, cl.args); p != "" {
			continue // panics of writable instances are C08's subject
		}
		auxAfter := ""
		switch tv := x.(type) {
		case stackage.Stack:
			auxAfter = fmt.Sprint(map[string]any(tv.Auxiliary()))
		case stackage.Condition:
			auxAfter = fmt.Sprint(map[string]any(tv.Auxiliary()))
		}
		if after := c09Key(x, 0, false); after != before || auxAfter != auxBefore || lgState() != lgBefore {
			c.Violation("changed-through-sibling:"+cl.Method, fmt.Sprintf("%s changed the read-only instance (auxiliary content %s -> %s; its logger %s -> %s):\n before %s\n after  %s", desc, auxBefore, auxAfter, lgBefore, lgState(), before, after), cs, len(desc))
		}
	}
	return n
}

// c09HeldGuise: a read-only Condition (or Stack) is handed the very Stack it already holds, in another guise
// (native where it holds an alias, an alias where it holds a native one, a pointer ...). "It is the same
// instance" is no reason to store the new handle: the stored value, dynamic type included, stays. The same
// through Reveal on a parent, which hands a Condition's Stack back to it.
func c09HeldGuise(c *Ctx) int {
	n := 0
	guises := func(st stackage.Stack) map[string]any {
		al, als := StackAlias(st), StackAliasS(st)
		return map[string]any{"native": st, "alias": al, "alias with String": als, "pointer": &st, "pointer to alias": &al}
	}
	for heldAs := range guises(stackage.Stack{}) {
		for offeredAs := range guises(stackage.Stack{}) {
			st := stackage.Or().Push("x", stackage.And().Push("single"))
			held, offered := guises(st)[heldAs], guises(st)[offeredAs]
			// as a Condition's expression
			cd := stackage.Cond("kw", stackage.Eq, held).SetReadOnly(true)
			parent := stackage.And().Push(cd, stackage.Or().Push(stackage.List().Push("only-child")))
			before := c09Key(cd, 0, false)
			n++
			c.Transitions.Add(1)
			desc := fmt.Sprintf("a read-only Condition holding a Stack as %s", heldAs)
			if p := noPanic(func() { cd.SetExpression(offered) }); p != "" {
				c.Violation("held-guise:panic", fmt.Sprintf("%s: SetExpression(the same Stack as %s) panicked: %s", desc, offeredAs, p), nil, 0)
				continue
			}
			if after := c09Key(cd, 0, false); after != before {
				c.Violation("held-guise:SetExpression", fmt.Sprintf("%s: SetExpression(the same Stack as %s) changed the read-only instance:\n before %s\n after  %s", desc, offeredAs, before, after), nil, 0)
				continue
			}
			if p := noPanic(func() { parent.Reveal(); parent.Defrag(); _ = parent.String() }); p != "" {
				c.Violation("held-guise:panic", desc+": Reveal / Defrag / String on its parent panicked: "+p, nil, 0)
				continue
			}
			if after := c09Key(cd, 0, false); after != before {
				c.Violation("held-guise:Reveal", fmt.Sprintf("%s: Reveal on its parent changed the read-only instance:\n before %s\n after  %s", desc, before, after), nil, 0)
			}
			// as an element of a read-only Stack
			ro := stackage.List().Push("a", held, "b").SetReadOnly(true)
			rb := c09Key(ro, 0, false)
			if p := noPanic(func() { ro.Replace(offered, 1); ro.Insert(offered, 1); ro.Push(offered) }); p != "" {
				c.Violation("held-guise:panic", fmt.Sprintf("a read-only Stack holding a Stack as %s: Replace / Insert / Push of the same Stack as %s panicked: %s", heldAs, offeredAs, p), nil, 0)
			} else if after := c09Key(ro, 0, false); after != rb {
				c.Violation("held-guise:element", fmt.Sprintf("a read-only Stack holding a Stack as %s: Replace / Insert / Push of the same Stack as %s changed it:\n before %s\n after  %s", heldAs, offeredAs, rb, after), nil, 0)
			}
		}
	}
	return n
}

// c09AsArgument hands a read-only Stack to methods of OTHER instances: it must not change either.
func c09AsArgument(c *Ctx, rv c09Recv) {
	ro, ok := rv.Mk().(stackage.Stack)
	if !ok {
		return
	}
	before := c09Key(ro, 0, false)
	a := StackAlias(ro)
	for form, arg := range map[string]any{"native": ro, "alias": a, "pointer": &ro, "pointer-to-alias": &a} {
		w := stackage.Basic().Push("w1", "w2")
		cd := stackage.Cond("k", stackage.Eq, "v")
		c.Transitions.Add(4)
		if p := noPanic(func() {
			w.Transfer(arg)
			w.IsEqual(arg)
			w.Push(arg)
			cd.SetExpression(arg)
			_ = w.String()
			w.Unmarshal()
		}); p != "" {
			c.Violation("panic:as-argument", fmt.Sprintf("read-only %s passed as %s argument: %s", rv.Name, form, p), nil, 0)
			continue
		}
		// ... and nested in a writable parent that is then rearranged: every arrangement of up to three
		// slots holding the read-only stack (directly or as a Condition's expression) at any position
		// among leaves, nil, single-element envelopes and an ordinary nested stack, x every
		// parent-level operation that descends into children
		sibs := []func() any{
			func() any { return "leaf" },
			func() any { return nil },
			func() any { return stackage.And().Push(stackage.Cond("e", stackage.Eq, "v")) },
			func() any { return stackage.And().Push(stackage.Or().Push("x", "y")) },
			func() any { return stackage.Or().Push("p", "q") },
		}
		holders := []func() any{
			func() any { return arg },
			func() any { return stackage.Cond("holder", stackage.Ne, arg) },
		}
		parentOps := []struct {
			n string
			f func(p stackage.Stack)
		}{
			{"Reveal", func(p stackage.Stack) { p.Reveal() }}, {"Defrag", func(p stackage.Stack) { p.Defrag() }}, {"Reverse", func(p stackage.Stack) { p.Reverse() }},
			{"String", func(p stackage.Stack) { _ = p.String() }}, {"Unmarshal", func(p stackage.Stack) { p.Unmarshal() }}, {"Reset", func(p stackage.Stack) { p.Reset() }},
			{"Reveal+Defrag+Reverse+Reset", func(p stackage.Stack) { p.Reveal(); p.Defrag(); p.Reverse(); _ = p.String(); p.Reset() }},
		}
		var shapes [][]int // -1 / -2: the holder (direct / in a Condition), >= 0: sibling index
		for width := 1; width <= 3; width++ {
			for pos := 0; pos < width; pos++ {
				for h := -2; h <= -1; h++ {
					var rec func(cur []int)
					rec = func(cur []int) {
						if len(cur) == width {
							shapes = append(shapes, append([]int{}, cur...))
							return
						}
						if len(cur) == pos {
							rec(append(cur, h))
							return
						}
						for i := range sibs {
							rec(append(cur, i))
						}
					}
					rec(nil)
				}
			}
		}
		failed := false
		for _, sh := range shapes {
			for _, po := range parentOps {
				parent := stackage.Or()
				for _, x := range sh {
					if x < 0 {
						parent.Push(holders[-x-1]())
					} else {
						parent.Push(sibs[x]())
					}
				}
				c.Transitions.Add(1)
				if p := noPanic(func() { po.f(parent) }); p != "" {
					c.Violation("panic:nested-in-parent", fmt.Sprintf("read-only %s nested (as %s) in a parent of shape %v, %s: %s", rv.Name, form, sh, po.n, p), nil, 0)
					failed = true
					break
				}
				if after := c09Key(ro, 0, false); after != before {
					c.Violation("changed:nested-in-parent:"+po.n, fmt.Sprintf("read-only %s (as %s) changed when its parent of shape %v (-1: the stack itself, -2: a Condition holding it, 0 leaf, 1 nil, 2 envelope of a Condition, 3 envelope of a Stack, 4 two-element Stack) underwent %s:\n before %s\n after  %s", rv.Name, form, sh, po.n, before, after), nil, 0)
					return
				}
			}
			if failed {
				break
			}
		}
		if failed {
			continue
		}
		// the long regime: the read-only stack at the bottom of a chain of writable ancestors, depth 1..12,
		// the links alternating between Stacks and Conditions holding a Stack
		for depth := 1; depth <= 12; depth++ {
			for _, po := range parentOps {
				var cur any = arg
				for l := 0; l < depth; l++ {
					if l%3 == 1 {
						cur = stackage.Or().Push("s", stackage.Cond("link", stackage.Eq, cur))
					} else {
						cur = newStackKind(kindNames[l%5]).Push(cur, nil, "t")
					}
				}
				top := cur.(stackage.Stack)
				c.Transitions.Add(1)
				if p := noPanic(func() { po.f(top) }); p != "" {
					c.Violation("panic:nested-in-parent", fmt.Sprintf("read-only %s (as %s) at depth %d below a parent, %s: %s", rv.Name, form, depth, po.n, p), nil, 0)
					failed = true
					break
				}
				if after := c09Key(ro, 0, false); after != before {
					c.Violation("changed:nested-in-parent:"+po.n, fmt.Sprintf("read-only %s (as %s) changed when an ancestor %d levels up underwent %s:\n before %s\n after  %s", rv.Name, form, depth, po.n, before, after), nil, 0)
					return
				}
			}
			if failed {
				break
			}
		}
		if failed {
			continue
		}
		if after := c09Key(ro, 0, false); after != before {
			c.Violation("changed:as-argument:"+form, fmt.Sprintf("read-only %s changed after being passed (as %s) to Transfer / IsEqual / Push / SetExpression of other instances or nested in a parent that was revealed / defragmented / reversed / reset:\n before %s\n after  %s", rv.Name, form, before, after), nil, 0)
			return
		}
	}
}

// c09PackageFuncs: every exported package-level function x argument tuples, called while a read-only
// Stack and a read-only Condition exist that are never handed to the call: what they answer to every
// argument-free query (the logger they hand out included) and their raw state stay as they were.
func c09PackageFuncs(c *Ctx) int {
	names := make([]string, 0, len(packageFuncs))
	for k := range packageFuncs {
		names = append(names, k)
	}
	sort.Strings(names)
	aw := awkwardAny()
	pick := func(t reflect.Type, pos int) []namedValue {
		switch t {
		case anyType:
			return append(append([]namedValue{}, aw...), nv(`"off"`, "off"), nv(`"trace"`, "trace"), nv("70000", 70000))
		case opType:
			return []namedValue{{"Eq", reflect.ValueOf(stackage.Eq)}, {"nil-op", reflect.Zero(opType)}}
		case intType:
			return []namedValue{nv("0", 0), nv("-1", -1), nv("3", 3)}
		}
		return basicValues(t)
	}
	n := 0
	for _, name := range names {
		fn := packageFuncs[name]
		for _, t := range argTuples(fn.Type(), pick, 300) {
			n++
			c.Transitions.Add(1)
			ro := stackage.And().Push("a", stackage.Or().Push("b")).SetReadOnly(true)
			rc := stackage.Cond("k", stackage.Eq, "v").SetReadOnly(true)
			b1, b2, k1, k2 := observe(ro, false), observe(rc, false), c09Key(ro, 0, false), c09Key(rc, 0, false)
			p := noPanic(func() { fn.Call(t.Args) })
			a1, a2, l1, l2 := observe(ro, false), observe(rc, false), c09Key(ro, 0, false), c09Key(rc, 0, false)
			stackage.SetDefaultStackLogger("off")
			stackage.SetDefaultConditionLogger("off")
			stackage.SetDefaultStackLogLevel(stackage.NoLogLevels)
			stackage.SetDefaultConditionLogLevel(stackage.NoLogLevels)
			if p != "" {
				continue // C17's business
			}
			if a1 != b1 || l1 != k1 {
				c.Violation("changed-by-package-function:"+name, fmt.Sprintf("%s(%s) changed a read-only Stack that was not passed to it:\n before %s %s\n after  %s %s", name, t.Desc, b1, k1, a1, l1), nil, len(t.Desc))
			}
			if a2 != b2 || l2 != k2 {
				c.Violation("changed-by-package-function:"+name, fmt.Sprintf("%s(%s) changed a read-only Condition that was not passed to it:\n before %s %s\n after  %s %s", name, t.Desc, b2, k2, a2, l2), nil, len(t.Desc))
			}
		}
	}
	return n
}

func callNames(cs []c09Call) []string {
	var o []string
	for _, c := range cs {
		o = append(o, c.Method+"("+c.Args+")")
	}
	return o
}

// c09Key2 re-renders `before` with the read-only bit masked (before was taken unmasked).
func c09Key2(before string, x any, bit uint16) string {
	// the simplest faithful way: recompute from the live instance is not possible (it changed);
	// instead mask the decimal option field in the text.
	return maskOpt(before, bit)
}

func maskOpt(key string, bit uint16) string {
	i := strings.Index(key, " opt=")
	if i < 0 {
		return key
	}
	j := i + 5
	k := j
	for k < len(key) && key[k] >= '0' && key[k] <= '9' {
		k++
	}
	var v uint16
	fmt.Sscanf(key[j:k], "%d", &v)
	return key[:j] + fmt.Sprint(v&^bit) + key[k:]
}

// stripErr renders `before` without its top-level error.
func stripErr(x any, before string) string {
	i := strings.Index(before, " err=")
	if i < 0 {
		return before
	}
	j := strings.Index(before[i:], " auxnil=")
	if j < 0 {
		return before
	}
	return before[:i] + " err=nil" + before[i+j:]
}

func init() {
	register(&Check{ID: "C09", Engine: "A", Run: func(c *Ctx) {
		recvs := c09Receivers(c)
		type job struct {
			rv    c09Recv
			calls []c09Call
		}
		var jobs []job
		nSingles, nPairs := 0, 0
		for ri, rv := range recvs {
			calls := c09Calls(rv.Mk())
			for _, cl := range calls {
				jobs = append(jobs, job{rv, []c09Call{cl}})
				nSingles++
			}
			// sequences: ordered pairs on representative receivers
			rep := strings.Contains(rv.Name, "content2/variant1") || strings.HasPrefix(rv.Name, "Condition/stack") || (strings.HasPrefix(rv.Name, "AND/content1"))
			if !rep {
				continue
			}
			stride := 1
			if c.Quick() {
				stride = 9
			}
			for i, a := range calls {
				for j := (i + ri) % stride; j < len(calls); j += stride {
					jobs = append(jobs, job{rv, []c09Call{a, calls[j]}})
					nPairs++
				}
			}
		}
		parallelFor(len(jobs), func(i int) {
			if c.TimeUp() {
				return
			}
			c09Exec(c, jobs[i].rv, jobs[i].calls, true)
		})
		nSib, nInit := 0, 0
		for _, rv := range recvs {
			c09AsArgument(c, rv)
			nSib += c09Sibling(c, rv)
			if strings.HasPrefix(rv.Name, "Condition/") {
				// Init, then every call through the re-initialised handle
				calls := c09Calls(rv.Mk())
				var initCall *c09Call
				for i := range calls {
					if calls[i].Method == "Init" {
						initCall = &calls[i]
						break
					}
				}
				if initCall != nil {
					for _, cl := range calls {
						c09Exec(c, rv, []c09Call{*initCall, cl}, false)
						nInit++
					}
				}
			}
		}
		c.Bound["calls_on_writable_siblings_sharing_auxiliary_and_logger"] = nSib
		c.Bound["calls_through_a_handle_re_initialised_by_Init"] = nInit
		c.Bound["package_function_calls_beside_read_only_instances"] = c09PackageFuncs(c)
		c.Bound["held_stack_offered_again_in_another_guise"] = c09HeldGuise(c)
		c.States.Store(int64(len(jobs)))
		c.Traces.Store(int64(len(jobs)))
		c.Evals.Store(c.Transitions.Load())
		c.Exhaustive = true
		c.Rule = "every exported method of Stack and Condition (method sets read by reflection) x argument tuples from the typed catalogue, called singly on every read-only receiver (5 kinds x 3 contents x plain / fully configured, 4 Conditions) and as ordered pairs on representative receivers; before/after comparison of the raw recursive dump (addresses included, nested Stacks and Conditions too); documented exceptions only: the read-only bit via SetReadOnly/ReadOnly, the error via SetErr, Condition.Init replacing the handle; Free must fail; read-only instances nested at every position of small parents that are revealed / defragmented / reversed / rendered / reset, and standing beside every package-level function call, answer and dump as before; clearing the flag must give back the state as it was and mutability; non-trivial = distinct (receiver, call) that left the dump unchanged"
		c.Bound["receivers"] = len(recvs)
		c.Bound["single_calls"] = nSingles
		c.Bound["call_pairs"] = nPairs
		var unc []string
		for t := range uncatalogued {
			unc = append(unc, t)
		}
		c.Extra["uncatalogued_types"] = unc
		c.Sample(c09Case{jobs[0].rv.Name, jobs[0].calls})
		c.Sample(c09Case{jobs[len(jobs)/2].rv.Name, jobs[len(jobs)/2].calls})
		c.Sample(c09Case{jobs[len(jobs)-1].rv.Name, jobs[len(jobs)-1].calls})
	}, Replay: func(c *Ctx, raw json.RawMessage) {
		var cs c09Case
		json.Unmarshal(raw, &cs)
		for _, rv := range append(c09Receivers(&Ctx{Tier: "thorough"}), c09Receivers(&Ctx{Tier: "quick"})...) {
			if rv.Name+" (sibling)" == cs.Recv {
				c09Sibling(c, rv)
				return
			}
			if rv.Name != cs.Recv {
				continue
			}
			all := c09Calls(rv.Mk())
			var seq []c09Call
			for _, want := range cs.Calls {
				for _, cl := range all {
					if cl.Method == want.Method && cl.Args == want.Args {
						seq = append(seq, cl)
						break
					}
				}
			}
			c09Exec(c, rv, seq, false)
			return
		}
	}})
}
