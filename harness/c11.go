package main

import (
	"encoding/json"
	"fmt"
	"log"
	"reflect"
	"regexp"
	"strings"
	"sync"
	"sync/atomic"

	stackage "github.com/JesseCoretta/go-stackage"
)

// C11 — queries never modify anything and may run concurrently (Engines A/B + C).

// Declared mutators: everything else found by reflection is treated as a query and must be pure,
// so a method added later that is neither listed here nor pure is reported.
var c11Mutators = map[string]bool{
	"Push": true, "Pop": true, "Insert": true, "Remove": true, "Replace": true, "Swap": true, "Reverse": true, "Reset": true, "Free": true,
	"Defrag": true, "Reveal": true, "Marshal": true, "Init": true,
	// deprecated aliases of setters
	"Paren": true, "Fold": true, "NegativeIndices": true, "ForwardIndices": true, "LeadOnce": true, "NoPadding": true, "NoNesting": true, "ReadOnly": true,
	"Encap": true, "Symbol": true, "Mutex": true,
}

func c11IsQuery(name string) bool {
	return !c11Mutators[name] && !strings.HasPrefix(name, "Set") && !strings.HasPrefix(name, "Unset")
}

type c11Recv struct {
	Name string
	Mk   func() any
}

// spyLeaf is a Stringer element that, while it is being rendered, records the raw state of the
// structure it sits in: a query that changes something temporarily and restores it afterwards is
// invisible to a before/after comparison but not to a value observed in the middle of the call.
type spyLeaf struct {
	name string
	id   int64 // key into spyStates (kept out of the value so that dumps of the structure stay small)
}

type spyState struct {
	root stackage.Stack
	log  []string
}

var (
	spyOn     atomic.Bool
	spyStates sync.Map // id -> *spyState
	spySeq    atomic.Int64
)

func (s spyLeaf) String() string {
	if spyOn.Load() {
		if st, ok := spyStates.Load(s.id); ok {
			sp := st.(*spyState)
			sp.log = append(sp.log, stackage.VerifDump(sp.root).Key(true))
		}
	}
	return s.name
}

var spyLogs sync.Map // root address -> *spyState

// yieldingLeaf is a Stringer element whose String method is a scheduling point.
type yieldingLeaf struct{ text string }

func (y yieldingLeaf) String() string { schedUserPoint("stringer"); return y.text }

func spyReceiver(kind string, mode int) any {
	id := spySeq.Add(1)
	st := &spyState{}
	spy := func(n string) spyLeaf { return spyLeaf{n, id} }
	root := newStackKind(kind)
	st.root = root
	root.Push(spy("s0"),
		stackage.Not().SetLeadOnce(true).Push(spy("s1"), "n"),
		stackage.Not().SetFold(true).SetMutex().Push(spy("s2")),
		stackage.And().SetLeadOnce(true).SetParen(true).SetMutex().Push("a", spy("s3")),
		stackage.List().SetDelimiter(",").SetEncap(`"`).Push(spy("s4"), "l"),
		stackage.Cond("k", stackage.Eq, stackage.Or().SetFold(true).SetNoPadding(true).Push(spy("s5"), "o")),
		stackage.Cond("ks", stackage.Ne, spy("s6")),
	)
	if mode&1 != 0 {
		root.SetMutex()
	}
	if mode&2 != 0 {
		root.SetReadOnly(true)
	}
	spyStates.Store(id, st)
	spyLogs.Store(stackage.VerifDump(root).Addr, st)
	return root
}

// c11MapVerdicts: "the same answer when repeated" where the library walks something whose order the Go
// runtime picks anew every time - a map leaf. Two structures whose map leaves (2, 3, 8 entries; as element,
// as a Condition's expression, inside a []any leaf) are equal, or differ in the value under exactly one key:
// the same question 300 times, both ways round; every answer is the first answer. (The iteration order is
// the runtime's, not the harness's: this pass repeats instead of enumerating.)
func c11MapVerdicts(c *Ctx) int {
	n := 0
	mk := func(size, changed int, place int) any {
		m := map[string]int{}
		for i := 0; i < size; i++ {
			m[fmt.Sprintf("k%d", i)] = i
		}
		if changed >= 0 {
			m[fmt.Sprintf("k%d", changed)] = 1000
		}
		switch place {
		case 1:
			return stackage.And().Push("a", stackage.Cond("k", stackage.Eq, m))
		case 2:
			return stackage.List().Push([]any{"x", m}, "b")
		case 3:
			return stackage.Cond("top", stackage.Ne, m)
		}
		return stackage.Or().Push(m, "b")
	}
	isEq := func(a, b any) error {
		if st, ok := a.(stackage.Stack); ok {
			return st.IsEqual(b)
		}
		return a.(stackage.Condition).IsEqual(b)
	}
	type job struct{ size, changed, place int }
	var jobs []job
	for _, size := range []int{2, 3, 8} {
		for changed := -1; changed < size; changed++ {
			for place := 0; place < 4; place++ {
				jobs = append(jobs, job{size, changed, place})
			}
		}
	}
	parallelFor(len(jobs), func(i int) {
		j := jobs[i]
		a, b := mk(j.size, -1, j.place), mk(j.size, j.changed, j.place)
		for dir, pair := range [][2]any{{a, b}, {b, a}} {
			var first error
			for rep := 0; rep < 300; rep++ {
				var err error
				if p := noPanic(func() { err = isEq(pair[0], pair[1]) }); p != "" {
					c.Violation("map-leaf:panic", fmt.Sprintf("IsEqual panicked on a pair with a map leaf of %d entries: %s", j.size, p), nil, j.size)
					return
				}
				c.Transitions.Add(1)
				if rep == 0 {
					first = err // (whether the verdict is the right one is C05's subject)
					continue
				}
				if (err == nil) != (first == nil) {
					c.Violation("unstable-answer:IsEqual:map-leaf", fmt.Sprintf("IsEqual (direction %d) on two untouched structures whose map leaves of %d entries %s answers %v the first time and %v the %dth time", dir, j.size, map[bool]string{true: "are equal", false: fmt.Sprintf("differ in the value under key k%d", j.changed)}[j.changed < 0], first, err, rep+1), nil, j.size)
					return
				}
			}
		}
	})
	n = len(jobs)
	return n
}

// userPanic is what the harness's own closures panic with when they stand for user code that fails by
// panicking (an index out of range in somebody's unmarshaler). The library owes such a caller nothing but
// this: the query that was aborted leaves no trace either.
type userPanic struct{ what string }

// lateKw is a keyword given as a Stringer whose answer is still empty when the Condition is made and
// arrives later (a name table filled in afterwards): what the Condition took at the time is what it has.
type lateKw struct{ name string }

func (k *lateKw) String() string { return k.name }

// c11PanicReceivers are only put through the purity pass (a panic would end the other passes).
func c11PanicReceivers() []c11Recv {
	var out []c11Recv
	for mode := 0; mode < 4; mode++ {
		mode := mode
		out = append(out, c11Recv{fmt.Sprintf("AND/closures-that-panic/mode%d", mode), func() any {
			s := stackage.And().Push("a",
				stackage.List().SetUnmarshaler(func(...any) ([]any, error) { panic(userPanic{"nested unmarshaler"}) }).Push("u"),
				stackage.Cond("ck", stackage.Eq, "cv").SetUnmarshaler(func(...any) ([]any, error) { panic(userPanic{"condition unmarshaler"}) }).
					SetEvaluator(func(...any) (any, error) { panic(userPanic{"evaluator"}) }),
				stackage.Or().SetPresentationPolicy(func(...any) string { panic(userPanic{"presentation"}) }).Push("p"),
				stackage.Not().SetValidityPolicy(func(...any) error { panic(userPanic{"validity"}) }).Push("v"),
				stackage.Cond("ek", stackage.Ne, "ev").SetEqualityPolicy(func(any, any) error { panic(userPanic{"equality"}) }))
			if mode&1 != 0 {
				s.SetMutex()
			}
			if mode&2 != 0 {
				s.SetReadOnly(true)
			}
			return s
		}}, c11Recv{fmt.Sprintf("LIST/own-closures-panic/mode%d", mode), func() any {
			s := stackage.List().Push("a", stackage.Or().Push("n")).SetErr(errCat)
			s.SetUnmarshaler(func(...any) ([]any, error) { panic(userPanic{"unmarshaler"}) }).SetValidityPolicy(func(...any) error { panic(userPanic{"validity"}) }).
				SetEqualityPolicy(func(any, any) error { panic(userPanic{"equality"}) }).SetLessFunc(func(i, j int) bool { panic(userPanic{"less"}) })
			if mode&1 != 0 {
				s.SetMutex()
			}
			if mode&2 != 0 {
				s.SetReadOnly(true)
			}
			return s
		}})
	}
	return out
}

func c11Receivers(quick bool) []c11Recv {
	var out []c11Recv
	vp := func(...any) error { return nil }
	ev := func(x ...any) (any, error) { return len(x), nil }
	contents := []func() []any{
		func() []any { return nil },
		func() []any { return []any{"a", nil, 7, 2.5} },
		func() []any {
			return []any{stackage.Or().SetMutex().Push("n1", nil, stackage.Not().Push("deep")), stackage.Cond("ck", stackage.Eq, stackage.List().Push("e", "f")), "leaf",
				StackAlias(stackage.And().Push("al")), stackage.Cond("k2", stackage.Ge, 5)}
		},
	}
	contents = append(contents, func() []any {
		pa := StackAlias(stackage.And().Push("p", "q"))
		return []any{
			stackage.Cond("ca", stackage.Eq, StackAlias(stackage.And().Push("p", nil, "q"))), stackage.Cond("cp", stackage.Eq, &pa),
			stackage.Not().SetLeadOnce(true).SetMutex().Push("x", "y"), stackage.Not().SetFold(true).SetLeadOnce(true).Push("z"),
			CondAlias(stackage.Cond("cc", stackage.Lt, StackAliasS(stackage.List().Push("u")))), stackage.Or().SetMutex().SetParen(true).SetNoNesting(true).Push("m", stackage.And().SetMutex().Push("deep")),
			&pa,
		}
	})
	for _, k := range kindNames {
		k := k
		for ci, content := range contents {
			ci, content := ci, content
			for mode := 0; mode < 4; mode++ {
				mode := mode
				for cfgd := 0; cfgd < 2; cfgd++ {
					cfgd := cfgd
					if quick && (cfgd == 1) != (mode%2 == 1) {
						continue
					}
					out = append(out, c11Recv{fmt.Sprintf("%s/content%d/mode%d/cfg%d", k, ci, mode, cfgd), func() any {
						var s stackage.Stack
						if cfgd == 1 {
							s = newStackKind(k, 8)
							s.SetFIFO(true).SetParen(true).SetFold(true).SetNegativeIndices(true).SetForwardIndices(true).SetID("id").SetCategory("cat").SetEncap(`"`, []string{"<", ">"}).
								SetAuxiliary(stackage.Auxiliary{"k": 1}).SetValidityPolicy(vp).SetLogLevel(stackage.LogLevel2).SetDelimiter(";").SetSymbol("&").SetLeadOnce(ci == 1)
						} else {
							s = newStackKind(k)
						}
						s.Push(content()...)
						if mode&1 != 0 {
							s.SetMutex()
						}
						if mode&2 != 0 {
							s.SetReadOnly(true)
						}
						return s
					}})
				}
			}
		}
	}
	for _, k := range []string{"AND", "LIST", "NOT"} {
		for mode := 0; mode < 4; mode++ {
			k, mode := k, mode
			out = append(out, c11Recv{fmt.Sprintf("%s/spy/mode%d", k, mode), func() any { return spyReceiver(k, mode) }})
		}
	}
	// capacity exactly reached, and one short of it (queries about room must not leave a trace either)
	for _, k := range []string{"LIST", "AND"} {
		for mode := 0; mode < 4; mode++ {
			for _, spare := range []int{0, 1} {
				k, mode, spare := k, mode, spare
				out = append(out, c11Recv{fmt.Sprintf("%s/full-%d/mode%d", k, spare, mode), func() any {
					s := newStackKind(k, 3+spare).Push("a", nil, stackage.Or(1).Push("inner-full"))
					if mode&1 != 0 {
						s.SetMutex()
					}
					if mode&2 != 0 {
						s.SetReadOnly(true)
					}
					return s
				}})
			}
		}
	}
	// encapsulation entries that are parts of one slice the caller keeps
	for mode := 0; mode < 4; mode++ {
		mode := mode
		out = append(out, c11Recv{fmt.Sprintf("AND/encap-parts/mode%d", mode), func() any {
			chars := []string{"<", ">", "|"}
			s := stackage.And().SetEncap(chars[:1], chars[1:2]).Push("a", nil, stackage.Cond("k", stackage.Eq, "v").SetEncap(chars[2:]))
			if mode&1 != 0 {
				s.SetMutex()
			}
			if mode&2 != 0 {
				s.SetReadOnly(true)
			}
			return s
		}})
	}
	// identifiers assigned through SetID's keywords (a random one, the address): assigned once, reported ever after
	for mode := 0; mode < 4; mode++ {
		mode := mode
		out = append(out, c11Recv{fmt.Sprintf("AND/keyword-ids/mode%d", mode), func() any {
			s := stackage.And().SetID("_random").Push("a", stackage.Or().SetID("_RANDOM").Push("n"), stackage.Cond("k", stackage.Eq, "v").SetID("_random"), stackage.List().SetID("_addr").Push("l"))
			if mode&1 != 0 {
				s.SetMutex()
			}
			if mode&2 != 0 {
				s.SetReadOnly(true)
			}
			return s
		}})
	}
	// deep structures: stacks nested 6 and 18 levels (a Condition as every fourth link), two leaves at the bottom
	for _, d := range []int{6, 18} {
		for mode := 0; mode < 4; mode++ {
			d, mode := d, mode
			out = append(out, c11Recv{fmt.Sprintf("deep/%d/mode%d", d, mode), func() any {
				var cur any = stackage.List().Push("b0", "b1")
				for lvl := d - 1; lvl >= 1; lvl-- {
					st := newStackKind(kindNames[lvl%5]).Push(cur, fmt.Sprintf("side%d", lvl))
					if mode&1 != 0 && lvl%2 == 0 {
						st.SetMutex()
					}
					cur = st
					if lvl%4 == 3 {
						cur = stackage.Cond(fmt.Sprintf("c%d", lvl), stackage.Eq, st)
					}
				}
				s := stackage.And().Push(cur, "top")
				if mode&1 != 0 {
					s.SetMutex()
				}
				if mode&2 != 0 {
					s.SetReadOnly(true)
				}
				return s
			}})
		}
	}
	// a validity policy that currently says no (on the receiver, on a nested stack), and presentation
	// settings that interact: a blank encapsulator in front of another one under no-padding, every pair of
	// presentation options on one instance
	for mode := 0; mode < 4; mode++ {
		mode := mode
		fin := func(s stackage.Stack) any {
			if mode&1 != 0 {
				s.SetMutex()
			}
			if mode&2 != 0 {
				s.SetReadOnly(true)
			}
			return s
		}
		out = append(out,
			c11Recv{fmt.Sprintf("AND/rejecting-validity/mode%d", mode), func() any {
				no := func(...any) error { return errCat }
				return fin(stackage.And().SetValidityPolicy(no).Push("a", stackage.Or().SetValidityPolicy(no).Push("n1", "n2"), stackage.Cond("k", stackage.Eq, stackage.List().SetValidityPolicy(no).Push("e"))))
			}},
			c11Recv{fmt.Sprintf("OR/rejecting-validity-below/mode%d", mode), func() any {
				no := func(...any) error { return errCat }
				return fin(stackage.Or().Push("x", stackage.And().SetValidityPolicy(no).Push("a", "b", "c"), "y"))
			}},
			c11Recv{fmt.Sprintf("AND/blank-encap-nopad/mode%d", mode), func() any {
				return fin(stackage.And().SetEncap(" ", `"`).SetNoPadding(true).SetSymbol("||").SetParen(true).Push("cn", "sn", stackage.Cond("k", stackage.Eq, "v").SetEncap(" ", []string{"<", ">"}, "'").SetNoPadding(true)))
			}},
			c11Recv{fmt.Sprintf("LIST/blank-encap-last/mode%d", mode), func() any {
				return fin(stackage.List().SetEncap(`"`, " ").SetNoPadding(true).SetDelimiter(",").Push("a", "b", stackage.Not().SetEncap(" ").SetNoPadding(true).SetLeadOnce(true).SetFold(true).Push("z")))
			}},
		)
	}
	// closures that are scheduling points (see schedUserPoint): under the controlled scheduler other
	// threads run while one caller is inside user code in the middle of a query
	for _, k := range []string{"AND", "LIST"} {
		for _, mode := range []int{1, 3} {
			k, mode := k, mode
			out = append(out, c11Recv{fmt.Sprintf("%s/closures/mode%d", k, mode), func() any {
				s := newStackKind(k)
				s.SetEqualityPolicy(func(a, b any) error { schedUserPoint("equality"); return nil })
				s.SetValidityPolicy(func(...any) error { schedUserPoint("validity"); return nil })
				s.SetLessFunc(func(i, j int) bool { schedUserPoint("less"); return i < j })
				if k != "LIST" {
					s.SetPresentationPolicy(func(...any) string { schedUserPoint("presentation"); return "PRESENTED" })
				}
				s.Push("a", yieldingLeaf{"leaf"}, stackage.Or().Push("n"))
				// nested instances with closures of their own (all of them scheduling points as well)
				s.Push(stackage.Cond("ck", stackage.Eq, "cv").
					SetUnmarshaler(func(...any) ([]any, error) { schedUserPoint("condition-unmarshaler"); return []any{"CUSTOM-ROW"}, nil }).
					SetValidityPolicy(func(...any) error { schedUserPoint("condition-validity"); return nil }).
					SetEqualityPolicy(func(a, b any) error { schedUserPoint("condition-equality"); return nil }).
					SetEvaluator(func(...any) (any, error) { schedUserPoint("condition-evaluator"); return 1, nil }),
					stackage.List().SetUnmarshaler(func(...any) ([]any, error) { schedUserPoint("nested-unmarshaler"); return []any{"CUSTOM-LIST"}, nil }).Push("u"))
				if mode&1 != 0 {
					s.SetMutex()
				}
				if mode&2 != 0 {
					s.SetReadOnly(true)
				}
				return s
			}})
		}
	}
	// values whose own answer changes between the making of the instance and the query
	for mode := 0; mode < 4; mode++ {
		mode := mode
		out = append(out, c11Recv{fmt.Sprintf("AND/late-stringer-keyword/mode%d", mode), func() any {
			k1, k2, lf := &lateKw{}, &lateKw{"early"}, &lateKw{}
			s := stackage.And().Push("a", stackage.Cond(k1, stackage.Eq, "v"), stackage.Cond(k2, stackage.Ne, lf), lf)
			k1.name, k2.name, lf.name = "late", "renamed", "leaf-now"
			if mode&1 != 0 {
				s.SetMutex()
			}
			if mode&2 != 0 {
				s.SetReadOnly(true)
			}
			return s
		}})
	}
	out = append(out, c11Recv{"Condition/late-stringer-keyword", func() any {
		k := &lateKw{}
		cd := stackage.Cond(k, stackage.Eq, "v")
		k.name = "late"
		return cd
	}})
	for mode := 0; mode < 2; mode++ {
		mode := mode
		ro := func(c stackage.Condition) any {
			if mode == 1 {
				c.SetReadOnly(true)
			}
			return c
		}
		out = append(out,
			c11Recv{fmt.Sprintf("Condition/leaf/mode%d", mode), func() any { return ro(stackage.Cond("kw", stackage.Eq, "val").SetEvaluator(ev)) }},
			c11Recv{fmt.Sprintf("Condition/stack/mode%d", mode), func() any {
				return ro(stackage.Cond("kw", stackage.Ne, stackage.And().SetMutex().Push("x", nil, stackage.Or().Push("y"))).SetParen(true).SetEncap("'").SetID("cid").SetAuxiliary(stackage.Auxiliary{"z": 2}).SetValidityPolicy(vp))
			}},
			c11Recv{fmt.Sprintf("Condition/invalid/mode%d", mode), func() any { return ro(stackage.Cond("", stackage.ComparisonOperator(9), nil)) }},
			// invalid while Err is still nil: assembled piecemeal, invalidated afterwards, failing policy, error cleared
			c11Recv{fmt.Sprintf("Condition/half-built/mode%d", mode), func() any {
				var h stackage.Condition
				h.Init()
				h.SetKeyword("kw")
				return ro(h)
			}},
			c11Recv{fmt.Sprintf("Condition/failing-policy/mode%d", mode), func() any {
				return ro(stackage.Cond("kw", stackage.Eq, "val").SetValidityPolicy(func(...any) error { return fmt.Errorf("policy says no") }))
			}},
			c11Recv{fmt.Sprintf("Condition/error-cleared/mode%d", mode), func() any {
				x := stackage.Cond("", stackage.ComparisonOperator(9), nil)
				x.SetErr(nil)
				return ro(x)
			}},
			c11Recv{fmt.Sprintf("Stack-of-half-built/mode%d", mode), func() any {
				var h stackage.Condition
				h.Init()
				h.SetKeyword("kw")
				x := stackage.Cond("", stackage.ComparisonOperator(9), nil)
				x.SetErr(nil)
				s := stackage.And().Push("a", h, stackage.Cond("k", stackage.Eq, stackage.Or().Push(x, "b")),
					stackage.Cond("kw", stackage.Eq, "val").SetValidityPolicy(func(...any) error { return fmt.Errorf("policy says no") }))
				if mode == 1 {
					s.SetReadOnly(true)
				}
				return s
			}},
			c11Recv{fmt.Sprintf("Condition/keyword-ids/mode%d", mode), func() any {
				return ro(stackage.Cond("kw", stackage.Eq, stackage.And().SetID("_random").Push("x")).SetID("_Random"))
			}},
			c11Recv{fmt.Sprintf("Condition/condition-expr/mode%d", mode), func() any {
				return ro(stackage.Cond("outer", stackage.Eq, stackage.Cond("cn", stackage.Eq, "jesse")))
			}},
			c11Recv{fmt.Sprintf("Condition/condition-alias-expr-over-stack/mode%d", mode), func() any {
				return ro(stackage.Cond("outer", stackage.Ne, CondAlias(stackage.Cond("inner", stackage.Ge, stackage.Or().Push("x", "y")))))
			}},
			c11Recv{fmt.Sprintf("Stack-of-conditions-in-conditions/mode%d", mode), func() any {
				inner := stackage.Cond("cn", stackage.Eq, "jesse")
				s := stackage.And().Push(stackage.Cond("outer", stackage.Eq, inner), inner, stackage.Cond("o2", stackage.Lt, stackage.Cond("i2", stackage.Gt, stackage.Cond("i3", stackage.Eq, stackage.List().Push("deep")))))
				if mode == 1 {
					s.SetReadOnly(true)
				}
				return s
			}},
			c11Recv{fmt.Sprintf("Condition/alias-expr/mode%d", mode), func() any {
				return ro(stackage.Cond("kw", userOp{"~=", "ctx"}, StackAliasS(stackage.List().Push("p", "q"))))
			}},
		)
	}
	return out
}

type c11Call struct {
	Method string
	Args   string
	args   []reflect.Value
}

func c11Calls(x any) []c11Call {
	var ms []methodEntry
	if _, ok := x.(stackage.Stack); ok {
		ms = methodsOf(stackage.Stack{}, "Stack")
	} else {
		ms = methodsOf(stackage.Condition{}, "Condition")
	}
	pick := func(t reflect.Type, pos int) []namedValue {
		if t == intType {
			return []namedValue{nv("0", 0), nv("1", 1), nv("-1", -1), nv("2", 2), nv("9", 9)}
		}
		return basicValues(t)
	}
	var out []c11Call
	for _, me := range ms {
		if !c11IsQuery(me.Name) {
			continue
		}
		for _, t := range append(argTuples(me.Type, pick, 60), extraTuples(me.Name)...) {
			out = append(out, c11Call{me.Name, t.Desc, t.Args})
		}
	}
	return out
}

type lockTaken struct{ ev string }

// resultText renders results for the "same answer when repeated" comparison.
func resultText(res []reflect.Value) string {
	var p []string
	for _, r := range res {
		p = append(p, deepText(r))
	}
	return strings.Join(p, " | ")
}

func deepText(r reflect.Value) string {
	if !r.IsValid() {
		return "<invalid>"
	}
	if r.Type() == errType {
		if r.IsNil() {
			return "err:nil"
		}
		return "err:" + r.Interface().(error).Error()
	}
	switch r.Kind() {
	case reflect.Func, reflect.Chan, reflect.UnsafePointer:
		if r.IsNil() {
			return "nil"
		}
		return fmt.Sprintf("%s@%x", r.Kind(), r.Pointer())
	case reflect.Ptr:
		if r.IsNil() {
			return "nil"
		}
		return fmt.Sprintf("ptr@%x", r.Pointer())
	case reflect.Map:
		if r.IsNil() {
			return "nilmap"
		}
		return fmt.Sprintf("map@%x/%d", r.Pointer(), r.Len())
	case reflect.Interface:
		if r.IsNil() {
			return "nil"
		}
		return deepText(r.Elem())
	case reflect.Slice:
		if r.IsNil() {
			return "nilslice"
		}
		var p []string
		for i := 0; i < r.Len(); i++ {
			p = append(p, deepText(r.Index(i)))
		}
		return "[" + strings.Join(p, ",") + "]"
	case reflect.Struct:
		if r.Type() == stackType || r.Type() == condType {
			return stackage.VerifDump(r.Interface()).Key(true)
		}
	}
	return fmt.Sprintf("%T:%v", r.Interface(), r.Interface())
}

// tamper overwrites and extends every slice reachable in the results (maps are exempt).
func tamper(r reflect.Value) bool {
	if !r.IsValid() {
		return false
	}
	switch r.Kind() {
	case reflect.Interface:
		if r.IsNil() {
			return false
		}
		return tamper(r.Elem())
	case reflect.Slice:
		if r.IsNil() {
			return false
		}
		for i := 0; i < r.Len(); i++ {
			e := r.Index(i)
			if tamper(e) {
				continue
			}
			if e.CanSet() {
				if e.Kind() == reflect.Interface {
					e.Set(reflect.ValueOf("TAMPERED"))
				} else if e.Kind() == reflect.String {
					e.SetString("TAMPERED")
				}
			}
		}
		return true
	}
	return false
}

func c11Pure(c *Ctx, rv c11Recv, count bool) {
	x := rv.Mk()
	calls := c11Calls(x)
	pv := reflect.New(reflect.TypeOf(x))
	pv.Elem().Set(reflect.ValueOf(x))
	// from here on any lock event raised on this goroutine's receivers is a violation
	for _, cl := range calls {
		before := dumpKey(x)
		desc := fmt.Sprintf("%s.%s(%s)", rv.Name, cl.Method, cl.Args)
		if count {
			c.Transitions.Add(1)
		}
		var res1, res2 []reflect.Value
		var tookLock string
		userAborted := false
		p := func() (msg string) {
			defer func() {
				if r := recover(); r != nil {
					if lt, ok := r.(lockTaken); ok {
						tookLock = lt.ev
						return
					}
					if _, ok := r.(userPanic); ok {
						userAborted = true // the user's own closure gave up: no answer, and no trace (checked below)
						return
					}
					msg = fmt.Sprint(r)
				}
			}()
			res1 = pv.MethodByName(cl.Method).Call(cl.args)
			res2 = pv.MethodByName(cl.Method).Call(cl.args)
			return ""
		}()
		if tookLock != "" {
			c.Violation("query-takes-lock:"+cl.Method, desc+" reached "+tookLock+": the lock-free read path takes the stack's lock / touches lock bookkeeping", c11Case{rv.Name, cl.Method, cl.Args}, len(desc))
			// the mutex may be left locked: rebuild the receiver
			x = rv.Mk()
			pv = reflect.New(reflect.TypeOf(x))
			pv.Elem().Set(reflect.ValueOf(x))
			continue
		}
		if p != "" {
			c.Violation("panic:"+cl.Method, desc+" panicked: "+p, c11Case{rv.Name, cl.Method, cl.Args}, len(desc))
			continue
		}
		if lp, ok := spyLogs.Load(stackage.VerifDump(x).Addr); ok {
			st := lp.(*spyState)
			for _, seen := range st.log {
				if seen != before {
					c.Violation("query-modifies-temporarily:"+cl.Method, fmt.Sprintf("%s: in the middle of the call the structure read\n %s\n instead of\n %s", desc, seen, before), c11Case{rv.Name, cl.Method, cl.Args}, len(desc))
					break
				}
			}
			st.log = st.log[:0]
		}
		if after := dumpKey(x); after != before {
			c.Violation("query-modifies:"+cl.Method, fmt.Sprintf("%s changed the receiver or a nested instance:\n before %s\n after  %s", desc, before, after), c11Case{rv.Name, cl.Method, cl.Args}, len(desc))
			x = rv.Mk()
			pv = reflect.New(reflect.TypeOf(x))
			pv.Elem().Set(reflect.ValueOf(x))
			continue
		}
		if userAborted {
			continue
		}
		t1, t2 := resultText(res1), resultText(res2)
		if t1 != t2 {
			c.Violation("unstable-answer:"+cl.Method, fmt.Sprintf("%s answers %q, then %q", desc, t1, t2), c11Case{rv.Name, cl.Method, cl.Args}, len(desc))
		}
		// returned containers: altering them must not affect the structure
		tampered := false
		for _, r := range res1 {
			if r.Kind() == reflect.Slice || r.Kind() == reflect.Interface {
				if tamper(r) {
					tampered = true
				}
			}
		}
		if tampered {
			if after := dumpKey(x); after != before {
				c.Violation("returned-container-aliases-state:"+cl.Method, fmt.Sprintf("altering the value returned by %s changed the structure:\n before %s\n after  %s", desc, before, after), c11Case{rv.Name, cl.Method, cl.Args}, len(desc))
				x = rv.Mk()
				pv = reflect.New(reflect.TypeOf(x))
				pv.Elem().Set(reflect.ValueOf(x))
				continue
			}
			// ... nor the answer handed out by the other call (round 14: two results alive at once, one altered)
			if t2b := resultText(res2); t2b != t2 {
				c.Violation("returned-containers-share-memory:"+cl.Method, fmt.Sprintf("altering the value returned by one call of %s changed the value returned by another call: %q became %q", desc, t2, t2b), c11Case{rv.Name, cl.Method, cl.Args}, len(desc))
			}
			var res3 []reflect.Value
			if noPanic(func() { res3 = pv.MethodByName(cl.Method).Call(cl.args) }) == "" {
				if t3 := resultText(res3); t3 != t2 {
					c.Violation("returned-container-aliases-state:"+cl.Method, fmt.Sprintf("after altering the value returned by %s the next call answers %q instead of %q", desc, t3, t2), c11Case{rv.Name, cl.Method, cl.Args}, len(desc))
				}
			}
			if count {
				c.Nontrivial("tamper" + desc)
			}
		}
		if count {
			c.Nontrivial(desc)
			c.Outcome(cl.Method + t1)
		}
	}
}

type c11Case struct {
	Recv   string `json:"receiver"`
	Method string `json:"method"`
	Args   string `json:"args"`
}

// c11Interleave: 2 threads x 2 queries under the cooperative scheduler; every schedule; each thread's
// answers must equal the answers it gets in isolation, and nothing may change.
func c11Interleave(c *Ctx, rv c11Recv, maxPairs int) (execs int) {
	sample := rv.Mk()
	s, ok := sample.(stackage.Stack)
	if !ok {
		return 0
	}
	_ = s
	var calls []c11Call
	for _, cl := range c11Calls(sample) {
		if cl.Method != "Transfer" {
			calls = append(calls, cl)
		}
	}
	// isolated answers on a fresh identical receiver
	iso := map[int]string{}
	isoRecv := rv.Mk()
	ipv := reflect.New(reflect.TypeOf(isoRecv))
	ipv.Elem().Set(reflect.ValueOf(isoRecv))
	for i, cl := range calls {
		var r []reflect.Value
		if noPanic(func() { r = ipv.MethodByName(cl.Method).Call(cl.args) }) == "" {
			iso[i] = contentText(r)
		}
	}
	mkOp := func(i int) schedOp {
		cl := calls[i]
		return schedOp{Name: cl.Method + "(" + cl.Args + ")", Run: func(st stackage.Stack) string {
			pv := reflect.New(stackType)
			pv.Elem().Set(reflect.ValueOf(st))
			return contentText(pv.MethodByName(cl.Method).Call(cl.args))
		}}
	}
	n := 0
	for i := 0; i < len(calls) && n < maxPairs; i++ {
		for j := i; j < len(calls) && n < maxPairs; j += 1 + len(calls)/12 {
			n++
			progs := [][]schedOp{{mkOp(i), mkOp(j)}, {mkOp(j), mkOp(i)}, {mkOp(i)}}
			want := [][]string{{iso[i], iso[j]}, {iso[j], iso[i]}, {iso[i]}}
			var beforeKey string
			mk := func() stackage.Stack {
				st := rv.Mk().(stackage.Stack)
				beforeKey = stackage.VerifDump(st).Key(false)
				return st
			}
			cnt, _ := exploreSchedules(mk, progs, -1, true, func(x *execResult) {
				c.Transitions.Add(int64(len(x.points)))
				desc := fmt.Sprintf("%s: threads {%s;%s || %s;%s || %s} schedule %v", rv.Name, progs[0][0].Name, progs[0][1].Name, progs[1][0].Name, progs[1][1].Name, progs[2][0].Name, x.choices)
				if len(x.panicked) > 0 || x.deadlock != "" || x.timeout {
					c.Violation("concurrent-query-failure", desc+fmt.Sprintf(": panic %v deadlock %q", x.panicked, x.deadlock), nil, len(desc))
					return
				}
				for _, w := range x.writes {
					c.Violation("query-writes:"+w.Op, fmt.Sprintf("%s: %s wrote (%s) between %s and %s", desc, w.Op, w.What, w.From, w.To), nil, len(desc))
				}
				for t := range want {
					for k := range want[t] {
						if x.results[t][k] != want[t][k] {
							c.Violation("concurrent-answer-differs:"+opClass(progs[t][k].Name), fmt.Sprintf("%s: thread %d got %q for %s, in isolation %q", desc, t, x.results[t][k], progs[t][k].Name, want[t][k]), nil, len(desc))
						}
					}
				}
				for _, tr := range x.trace {
					if strings.Contains(tr, "lock") {
						c.Violation("query-takes-lock:"+opClass(progs[0][0].Name), desc+": "+tr, nil, len(desc))
					}
				}
			}, c.TimeUp)
			_ = beforeKey
			execs += cnt
		}
	}
	return
}

// contentText renders results without addresses (fresh receivers are compared with each other).
func contentText(res []reflect.Value) string {
	var p []string
	for _, r := range res {
		t := deepText(r)
		p = append(p, addrRe.ReplaceAllString(t, "@"))
	}
	return strings.Join(p, " | ")
}

// c11Repeat calls every argument-free query 6000 times in a row on a few richly configured receivers
// (closures, presentation policy, nesting, mutex) and requires the first answer every time.
func c11Repeat(c *Ctx, recvs []c11Recv) {
	const reps = 6000
	for _, rv := range recvs {
		if !strings.Contains(rv.Name, "/closures/") && !strings.Contains(rv.Name, "/keyword-ids/") && !strings.HasSuffix(rv.Name, "content2/mode1/cfg1") && !strings.HasPrefix(rv.Name, "Condition/stack/mode0") {
			continue
		}
		x := rv.Mk()
		pv := reflect.New(reflect.TypeOf(x))
		pv.Elem().Set(reflect.ValueOf(x))
		before := dumpKey(x)
		for _, cl := range c11Calls(x) {
			if len(cl.args) != 0 {
				continue
			}
			var first string
			p := noPanic(func() {
				m := pv.MethodByName(cl.Method)
				for i := 0; i < reps; i++ {
					got := contentText(m.Call(nil))
					if i == 0 {
						first = got
					} else if got != first {
						c.Violation("answer-changes-when-repeated:"+cl.Method, fmt.Sprintf("%s.%s(): call #%d answers %q, the first call answered %q", rv.Name, cl.Method, i+1, got, first), c11Case{rv.Name, cl.Method, ""}, i)
						return
					}
				}
			})
			c.Transitions.Add(reps)
			if p != "" {
				c.Violation("panic:"+cl.Method, fmt.Sprintf("%s.%s() repeated: %s", rv.Name, cl.Method, p), c11Case{rv.Name, cl.Method, ""}, 0)
			}
		}
		if after := dumpKey(x); after != before {
			c.Violation("query-modifies:repeated", fmt.Sprintf("%s changed after %d repetitions of every argument-free query:\n before %s\n after  %s", rv.Name, reps, before, after), nil, 0)
		}
	}
}

// c11Residue: a structure on which every query was issued, and a twin built the same way on which none
// was, are then changed in the same length-preserving way below the root (every nested Stack reversed,
// its first element replaced, its fold option toggled; every nested Condition given another keyword).
// Afterwards both answer every query alike: a query leaves nothing behind that outlives a later change.
func c11Residue(c *Ctx, recvs []c11Recv) {
	var mutate func(v any, depth int)
	mutate = func(v any, depth int) {
		if st, ok := refAsStack(v); ok {
			if depth > 0 {
				st.Reverse()
				if e, ok := st.Index(0); ok {
					if str, isStr := e.(string); isStr {
						st.Replace(str+"'", 0)
					}
				}
				st.SetFold()
			}
			if depth >= 3 {
				// ... and, far enough down, every nested Stack is taken out and another one put in its place
				for i, e := range contents(st) {
					if _, isStack := e.(stackage.Stack); isStack {
						st.Replace(stackage.Or().Push(fmt.Sprintf("replacement%d", i), "r1"), i)
					}
				}
			}
			for _, e := range contents(st) {
				mutate(e, depth+1)
			}
			return
		}
		if cd, ok := refAsCond(v); ok {
			if depth > 0 {
				cd.SetKeyword(cd.Keyword() + "2")
			}
			mutate(cd.Expression(), depth+1)
		}
	}
	parallelFor(len(recvs), func(i int) {
		rv := recvs[i]
		if strings.Contains(rv.Name, "/spy/") || strings.Contains(rv.Name, "/closures/") || strings.Contains(rv.Name, "/keyword-ids/") {
			return // their leaves keep logs / yield to a scheduler; two builds draw different random identifiers
		}
		x, twin := rv.Mk(), rv.Mk()
		calls := c11Calls(x)
		px, pt := reflect.New(reflect.TypeOf(x)), reflect.New(reflect.TypeOf(twin))
		px.Elem().Set(reflect.ValueOf(x))
		pt.Elem().Set(reflect.ValueOf(twin))
		usable := func(cl c11Call) bool { return cl.Method != "Transfer" && cl.Method != "Addr" && cl.Method != "ID" }
		for _, cl := range calls {
			if usable(cl) {
				noPanic(func() { px.MethodByName(cl.Method).Call(cl.args) })
			}
		}
		if noPanic(func() { mutate(x, 0); mutate(twin, 0) }) != "" {
			return
		}
		for _, cl := range calls {
			if !usable(cl) {
				continue
			}
			var a, b string
			c.Transitions.Add(2)
			if noPanic(func() {
				a = contentText(px.MethodByName(cl.Method).Call(cl.args))
				b = contentText(pt.MethodByName(cl.Method).Call(cl.args))
			}) != "" {
				continue
			}
			if a != b {
				c.Violation("query-leaves-residue:"+cl.Method, fmt.Sprintf("%s.%s(%s): after the same change below the root, the structure that had been queried before answers %q, its never-queried twin %q", rv.Name, cl.Method, cl.Args, a, b), c11Case{rv.Name, cl.Method, cl.Args}, len(cl.Args))
			}
		}
	})
}

const c11EnvTag = " [package default loggers replaced after construction]"

// a logger that is live as far as the library can tell (its writer is not io.Discard) and swallows everything
type sinkWriter struct{}

func (sinkWriter) Write(p []byte) (int, error) { return len(p), nil }

var c11EnvLogger = log.New(sinkWriter{}, "c11 ", 0)

// c11Env replaces (on) or restores (off) the package-level defaults.
func c11Env(on bool) {
	if on {
		stackage.SetDefaultStackLogger(c11EnvLogger)
		stackage.SetDefaultConditionLogger(c11EnvLogger)
		return
	}
	stackage.SetDefaultStackLogger("off")
	stackage.SetDefaultConditionLogger("off")
}

func init() {
	register(&Check{ID: "C11", Engine: "A/B+C", Run: func(c *Ctx) {
		if msg := sameNamedStructs(); msg != "" {
			c.Violation("same-named-struct-types", "two distinct struct types that print the same name (function-local declarations) with different exported fields: "+msg, nil, 0)
		}
		if msg := hollowFirst(); msg != "" {
			// alias types first met in hollow form: the order in which values of a type arrive must not matter
			c.Violation("hollow-value-seen-first", "after nil pointers / zero values of an alias type had been the first values of that type the library saw: "+msg, nil, 0)
		}
		recvs := c11Receivers(c.Quick())
		// (1)-(4): purity, stable answers, returned containers, no lock on the read path
		// receivers are built first (construction itself takes locks: SetMutex + Push); the hook that
		// turns any lock event into a failure of the running query is installed afterwards
		// "the same answer when repeated" - many times, not twice: first thing in a fresh process, so that
		// nothing that accumulates per call (in the instance or in the package) has had a chance to build up
		c11Repeat(c, recvs)
		c11Residue(c, recvs)
		c.Bound["pairs_with_map_leaves_compared_300_times"] = c11MapVerdicts(c)
		for _, env := range []string{"", c11EnvTag} {
			stackage.VerifHook = nil
			recvs := append(append([]c11Recv{}, recvs...), c11PanicReceivers()...)
			built := make([]any, len(recvs))
			for i, rv := range recvs {
				built[i] = rv.Mk()
			}
			if env != "" {
				// the package defaults are replaced AFTER the receivers exist (documented to leave
				// existing instances alone): a query must not pick anything up from them either
				c11Env(true)
			}
			stackage.VerifHook = func(ev string, stackID, mutexID uintptr) { panic(lockTaken{ev}) }
			spyOn.Store(true)
			parallelFor(len(recvs), func(i int) {
				x := built[i]
				rv := c11Recv{recvs[i].Name + env, func() any { return x }}
				c11Pure(c, rv, true)
				c.States.Add(1)
			})
			stackage.VerifHook = nil
			spyOn.Store(false)
			c11Env(false)
		}
		nq := 0
		names := map[string]bool{}
		for _, cl := range c11Calls(stackage.And()) {
			names["Stack."+cl.Method] = true
		}
		for _, cl := range c11Calls(stackage.Cond("k", stackage.Eq, "v")) {
			names["Condition."+cl.Method] = true
		}
		nq = len(names)
		// concurrency clause, interleaving part: every schedule of 3 threads (2+2+1 queries) at op granularity
		execs := 0
		maxPairs := 40
		if !c.Quick() {
			maxPairs = 400
		}
		for i, rv := range recvs {
			closures := strings.Contains(rv.Name, "/closures/")
			if !closures && (!strings.Contains(rv.Name, "content2") || !strings.Contains(rv.Name, "mode1") && !strings.Contains(rv.Name, "mode3")) {
				continue
			}
			if c.Quick() && i%2 == 0 && !closures {
				continue
			}
			execs += c11Interleave(c, rv, maxPairs)
		}
		c.States.Add(int64(execs))
		c.Traces.Store(c.States.Load())
		c.Evals.Store(c.Transitions.Load())
		c.Exhaustive = true
		c.Bound["receivers"] = len(recvs)
		c.Bound["query_methods"] = nq
		c.Bound["schedules_executed"] = execs
		c.Rule = "every exported Stack/Condition method found by reflection that is not in the declared mutator list (queries) x argument tuples x receivers (5 kinds x 3 contents x {plain, mutex, read-only, both} x {default, fully configured}; Conditions), in the initial package state and again with the package default loggers replaced after the receivers were built: raw recursive dump identical before/after, same answer twice (and, first thing in the process, every argument-free query 6000 times in a row on the receivers with closures), altering returned slices changes nothing, no lock event (hook panics the call if the read path reaches lock()); plus every schedule of three threads issuing queries on one shared mutex-enabled structure under the cooperative scheduler (answers equal the isolated ones; the harness's own policy closures and Stringer leaves are scheduling points, so callers overlap in the middle of a query); plus a free-running -race pass with 16 goroutines (coverage.race_pass; any report is a violation). non-trivial = distinct (receiver, query, arguments)"
		if nq < 30 {
			c.Violation("vacuous", fmt.Sprintf("only %d query methods were found by reflection", nq), nil, 0)
		}
		var unc []string
		for t := range uncatalogued {
			unc = append(unc, t)
		}
		c.Extra["uncatalogued_types"] = unc
		var qn []string
		for n := range names {
			qn = append(qn, n)
		}
		c.Sample(map[string]any{"receiver": recvs[len(recvs)/2].Name, "queries": len(c11Calls(recvs[len(recvs)/2].Mk()))})
		c.Sample(map[string]any{"query_methods": qn})
		racePass(c, "C11")
		c.Assumptions = append(c.Assumptions, "installed closures (validity policy, evaluator) are pure", "the Auxiliary map is handed out by reference by design and is exempt from the returned-container clause", "the data-race clause is decided by a free-running -race pass, which is sampling, not enumeration")
	}, Replay: func(c *Ctx, raw json.RawMessage) {
		var cs c11Case
		json.Unmarshal(raw, &cs)
		env := strings.HasSuffix(cs.Recv, c11EnvTag)
		cs.Recv = strings.TrimSuffix(cs.Recv, c11EnvTag)
		for _, rv := range append(c11Receivers(false), c11PanicReceivers()...) {
			if rv.Name == cs.Recv {
				stackage.VerifHook = nil
				x := rv.Mk()
				if env {
					c11Env(true)
					defer c11Env(false)
				}
				stackage.VerifHook = func(ev string, stackID, mutexID uintptr) { panic(lockTaken{ev}) }
				c11Pure(c, c11Recv{rv.Name, func() any { return x }}, false)
			}
		}
	}})
	raceBodies["C11"] = func(tier string) (int, int) {
		recvs := c11Receivers(tier != "thorough")
		runs := 0
		reps := 2
		if tier == "thorough" {
			reps = 6
		}
		for _, rv := range recvs {
			x := rv.Mk()
			var calls []c11Call
			for _, cl := range c11Calls(x) {
				if cl.Method != "Transfer" { // its argument (the destination) is written to; a shared one is the harness's race, not the library's
					calls = append(calls, cl)
				}
			}
			var fs []func()
			for g := 0; g < 16; g++ {
				g := g
				fs = append(fs, func() {
					pv := reflect.New(reflect.TypeOf(x))
					pv.Elem().Set(reflect.ValueOf(x))
					for r := 0; r < reps; r++ {
						for k := range calls {
							cl := calls[(k+g*7)%len(calls)]
							noPanic(func() { pv.MethodByName(cl.Method).Call(cl.args) })
						}
					}
				})
			}
			parallelBody(fs...)
			runs += 16 * reps * len(calls)
		}
		return len(recvs), runs
	}
}

var addrRe = regexp.MustCompile(`@[0-9a-f]+|0x[0-9a-f]+`)
