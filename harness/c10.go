package main

import (
	"bufio"
	"encoding/json"
	"fmt"
	"os"
	"os/exec"
	"sort"
	"strings"
	"sync"

	stackage "github.com/JesseCoretta/go-stackage"
)

// C10 — with mutual exclusion enabled, concurrent mutators act atomically (Engine C).

type c10Scenario struct {
	InitLen int        `json:"init_len"`
	FIFO    bool       `json:"fifo"`
	Cap     int        `json:"cap"`
	Progs   [][]string `json:"programs"`                   // per thread: operation names
	Policy  bool       `json:"push_policy,omitempty"`      // a push policy is installed (Push takes the policy path)
	Reject  bool       `json:"policy_rejects_b,omitempty"` // ... and it rejects the second value of every two-value batch
	Kind    string     `json:"kind,omitempty"`
	Idx     bool       `json:"index_options,omitempty"` // negative and forward indices are switched on
	// Peer: a second mutex-enabled stack stands next to the shared one and elements are transferred between
	// the two (and from the shared stack onto itself). A Transfer of several elements is a series of pushes,
	// not one atomic operation, so these scenarios are judged on everything but serialisability: no panic,
	// no deadlock, lock protocol, every write to the shared stack inside its own locked section.
	Peer bool `json:"peer_stack,omitempty"`
	// Burst: before the threads start, this many extra values were pushed and popped again (the backing
	// array has been large once); Trace: every log level is switched on and a live logger installed
	Burst int  `json:"burst_before,omitempty"`
	Trace bool `json:"trace_logging,omitempty"`
	// NoNest: the no-nesting option is on, and "PushShared" pushes one batch slice that all threads share
	// (a value, a Stack, another value): the Stack is turned away, the caller's slice is left alone
	NoNest bool `json:"no_nesting,omitempty"`
	// PolReads: the push policy looks at the stack it guards (Len, Index, Front, Back) before it answers
	PolReads bool `json:"policy_reads_own_stack,omitempty"`
	// PolPanics: instead of rejecting the second value of a batch the policy panics on it, and the caller
	// recovers (user code that fails): the batch ends there like after a rejection, and the lock is free again
	PolPanics bool `json:"policy_panics_on_b,omitempty"`
}

func (sc c10Scenario) String() string {
	var p []string
	for _, pr := range sc.Progs {
		p = append(p, strings.Join(pr, ";"))
	}
	pol := ""
	if sc.Policy {
		pol = " push-policy"
	}
	if sc.Idx {
		pol += " index-options"
	}
	if sc.Peer {
		pol += " peer-stack"
	}
	if sc.Burst > 0 {
		pol += fmt.Sprintf(" burst=%d", sc.Burst)
	}
	if sc.Trace {
		pol += " trace-logging"
	}
	if sc.NoNest {
		pol += " no-nesting"
	}
	if sc.PolReads {
		pol += " policy-reads-own-stack"
	}
	if sc.PolPanics {
		pol += " policy-panics-caller-recovers"
	}
	return fmt.Sprintf("%s len=%d fifo=%v cap=%d%s {%s}", sc.Kind, sc.InitLen, sc.FIFO, sc.Cap, pol, strings.Join(p, " || "))
}

// weak: scenarios judged on everything but serialisability (peer transfers; the read-only flag raised and
// lowered beside a mutator - SetReadOnly is not among the calls the statement lists, it is part of the
// environment in which the listed ones must neither deadlock nor write outside the lock)
func (sc c10Scenario) weak() bool {
	if sc.Peer || sc.PolPanics {
		// (what is left of a batch whose policy panicked is not something the statement settles)
		return true
	}
	for _, pr := range sc.Progs {
		for _, o := range pr {
			if o == "Freeze" || o == "Thaw" {
				return true
			}
		}
	}
	return false
}

func (sc c10Scenario) opSig() string {
	var all []string
	for _, pr := range sc.Progs {
		all = append(all, pr...)
	}
	sort.Strings(all)
	return strings.Join(all, "|")
}

var c10OpNames = []string{"Push1", "Pop", "Remove0", "Insert0", "Replace0", "Swap01", "Reverse", "Reset", "Push2", "InsertEnd", "Remove1", "Insert1"}

// c10Op returns the implementation call and its reference-model counterpart for one operation instance.
func c10Op(name, tok string) (run func(s stackage.Stack) string, model func(m *listModel) string) {
	switch name {
	case "Freeze": // the read-only flag goes up (mutators that come later are turned away) ...
		return func(s stackage.Stack) string { s.SetReadOnly(true); return "" }, func(m *listModel) string { m.ro = true; return "" }
	case "SetFIFO": // the one-way switch to first-in-first-out, thrown beside Pops that are under way: it takes effect at
		// one moment between its call and its return, and every Pop answers for the mode in force when it takes effect
		return func(s stackage.Stack) string { s.SetFIFO(true); return "" }, func(m *listModel) string { m.fifo = true; return "" }
	case "Thaw": // ... and down again
		return func(s stackage.Stack) string { s.SetReadOnly(false); return "" }, func(m *listModel) string { m.ro = false; return "" }
	}
	run, inner := c10OpRaw(name, tok)
	if inner == nil {
		return run, nil
	}
	// what a mutator answers while the flag is up: nothing happens
	refused := ""
	switch {
	case name == "Pop" || strings.HasPrefix(name, "Remove"):
		refused = "(nil,false)"
	case strings.HasPrefix(name, "Insert") || name == "Replace0":
		refused = "false"
	}
	return run, func(m *listModel) string {
		if m.ro && name != "SetMutex" {
			return refused
		}
		return inner(m)
	}
}

func c10OpRaw(name, tok string) (run func(s stackage.Stack) string, model func(m *listModel) string) {
	pr := func(v any, ok bool) string { return fmt.Sprintf("(%s,%v)", show(v), ok) }
	a, b := tok+"a", tok+"b"
	switch name {
	case "Push1":
		return func(s stackage.Stack) string { s.Push(a); return "" }, func(m *listModel) string { m.push(a); return "" }
	case "Push2":
		return func(s stackage.Stack) string {
			defer func() {
				if r := recover(); r != nil {
					if _, ok := r.(userPanic); !ok {
						panic(r)
					}
				}
			}()
			s.Push(a, b)
			return ""
		}, func(m *listModel) string { m.push(a, b); return "" }
	case "Pop":
		return func(s stackage.Stack) string { return pr(s.Pop()) }, func(m *listModel) string { return pr(m.pop()) }
	case "Insert0", "Insert1", "InsertEnd":
		at := map[string]int{"Insert0": 0, "Insert1": 1, "InsertEnd": 99}[name]
		return func(s stackage.Stack) string { return fmt.Sprint(s.Insert(a, at)) }, func(m *listModel) string { return fmt.Sprint(m.insert(a, at)) }
	case "Push12": // one call, twelve values: still one atomic operation
		vals := make([]any, 12)
		for i := range vals {
			vals[i] = fmt.Sprintf("%s%c", tok, 'a'+i)
		}
		return func(s stackage.Stack) string { s.Push(vals...); return "" }, func(m *listModel) string { m.push(vals...); return "" }
	case "Remove0", "Remove1", "RemoveLast", "RemoveLastButOne", "RemoveBeyond":
		// the last three address relative to the length at the time the call takes effect (index options on)
		at := map[string]int{"Remove0": 0, "Remove1": 1, "RemoveLast": -1, "RemoveLastButOne": -2, "RemoveBeyond": 99}[name]
		return func(s stackage.Stack) string { return pr(s.Remove(at)) }, func(m *listModel) string { return pr(m.remove(at)) }
	case "Replace0":
		return func(s stackage.Stack) string { return fmt.Sprint(s.Replace(a, 0)) }, func(m *listModel) string { return fmt.Sprint(m.replace(a, 0)) }
	case "Swap01":
		return func(s stackage.Stack) string { s.Swap(0, 1); return "" }, func(m *listModel) string { m.swap(0, 1); return "" }
	case "Reverse":
		return func(s stackage.Stack) string { s.Reverse(); return "" }, func(m *listModel) string { m.reverse(); return "" }
	case "Reset":
		return func(s stackage.Stack) string { s.Reset(); return "" }, func(m *listModel) string { m.reset(); return "" }
	case "PushShared": // one batch slice shared by every thread: s.Push(batch...)
		return func(s stackage.Stack) string {
				batch, _ := s.Auxiliary()["batch"].([]any)
				s.Push(batch...)
				return ""
			}, func(m *listModel) string {
				m.push("shared-a", "shared-b") // the Stack in between is turned away (no-nesting)
				return ""
			}
	case "PushCond": // a Condition whose expression is a Stack: a Condition like any other, also under no-nesting
		cd := stackage.Cond("k"+tok, stackage.Eq, stackage.Or().Push(a))
		return func(s stackage.Stack) string { s.Push(cd); return "" }, func(m *listModel) string { m.push(cd); return "" }
	case "TransferIn": // a private one-element stack transferred into the shared one: one push, under its lock
		// (Transfer's own verdict compares lengths it reads outside the lock and is not among the calls the
		// statement lists: only what happens to the shared content is judged)
		return func(s stackage.Stack) string { stackage.Basic().Push(a).Transfer(s); return "" }, func(m *listModel) string {
			if !(m.capk > 0 && len(m.items)+1 > m.capk) {
				m.push(a)
			}
			return ""
		}
	case "TransferToPeer", "TransferFromPeer", "TransferSelf": // peer scenarios only (no reference outcome)
		return func(s stackage.Stack) string {
			peer, _ := s.Auxiliary()["peer"].(stackage.Stack)
			switch name {
			case "TransferToPeer":
				s.Transfer(peer)
			case "TransferFromPeer":
				peer.Transfer(s)
			default:
				s.Transfer(StackAlias(s))
			}
			return ""
		}, nil
	case "SetMutex":
		// enabling locking again on a stack that already locks must be a no-op
		return func(s stackage.Stack) string { s.SetMutex(); return "" }, func(m *listModel) string { return "" }
	}
	panic("unknown op " + name)
}

func (sc c10Scenario) initial() []any {
	var v []any
	for i := 0; i < sc.InitLen; i++ {
		v = append(v, fmt.Sprintf("i%d", i))
	}
	return v
}

func (sc c10Scenario) mk() stackage.Stack {
	var s stackage.Stack
	kind := sc.Kind
	if kind == "" {
		kind = "LIST"
	}
	if sc.Cap > 0 {
		s = newStackKind(kind, sc.Cap)
	} else {
		s = newStackKind(kind)
	}
	if sc.FIFO {
		s.SetFIFO(true)
	}
	if sc.Idx {
		s.SetNegativeIndices(true).SetForwardIndices(true)
	}
	s.Push(sc.initial()...)
	if sc.Burst > 0 {
		extra := make([]any, sc.Burst)
		for i := range extra {
			extra[i] = fmt.Sprintf("b%d", i)
		}
		s.Push(extra...)
		for i := 0; i < sc.Burst; i++ {
			if sc.FIFO {
				s.Remove(s.Len() - 1)
			} else {
				s.Pop()
			}
		}
	}
	if sc.Trace {
		s.SetLogger(c11EnvLogger).SetLogLevel("all")
	}
	if sc.NoNest {
		s.SetNoNesting(true)
		s.SetAuxiliary(stackage.Auxiliary{"batch": []any{"shared-a", stackage.Or().Push("refused"), "shared-b"}})
	}
	if sc.Peer {
		s.SetAuxiliary(stackage.Auxiliary{"peer": stackage.List().Push("p0", "p1").SetMutex()})
	}
	s.SetMutex()
	if sc.Policy {
		rej := sc.Reject
		reads := sc.PolReads
		s.SetPushPolicy(func(x ...any) error {
			if reads {
				// a policy about the content (uniqueness, order): it asks the stack it guards
				if n := s.Len(); n > 0 {
					s.Index(0)
					s.Front()
					s.Back()
				}
			}
			// user code running inside the critical section is a scheduling point: the other threads get
			// to run while this one holds the lock, with all of its lock bookkeeping in place
			schedUserPoint("push-policy")
			if v, ok := x[0].(string); rej && ok && strings.HasSuffix(v, "b") {
				if sc.PolPanics {
					panic(userPanic{"push policy"})
				}
				return errCat
			}
			return nil
		})
	}
	return s
}

func (sc c10Scenario) programs() [][]schedOp {
	var out [][]schedOp
	for t, pr := range sc.Progs {
		var p []schedOp
		for k, name := range pr {
			run, _ := c10Op(name, fmt.Sprintf("t%do%d", t, k))
			p = append(p, schedOp{Name: name, Run: run})
		}
		out = append(out, p)
	}
	return out
}

func outcomeString(results [][]string, final string) string {
	var p []string
	for _, r := range results {
		p = append(p, strings.Join(r, ","))
	}
	return strings.Join(p, " || ") + " => " + final
}

// sequentialOutcomes runs every program-order-respecting interleaving of whole operations on the
// reference list: the set of outcomes a sequentially consistent execution may produce.
func (sc c10Scenario) sequentialOutcomes() map[string]bool {
	out := map[string]bool{}
	type tm struct {
		model []func(m *listModel) string
	}
	var ths []tm
	for t, pr := range sc.Progs {
		var x tm
		for k, name := range pr {
			_, mo := c10Op(name, fmt.Sprintf("t%do%d", t, k))
			x.model = append(x.model, mo)
		}
		ths = append(ths, x)
	}
	pcs := make([]int, len(ths))
	var rec func(m *listModel, results [][]string)
	rec = func(m *listModel, results [][]string) {
		done := true
		for t := range ths {
			if pcs[t] < len(ths[t].model) {
				done = false
				m2 := m.clone()
				r := ths[t].model[pcs[t]](m2)
				res2 := make([][]string, len(results))
				for i := range results {
					res2[i] = append([]string{}, results[i]...)
				}
				res2[t] = append(res2[t], r)
				pcs[t]++
				rec(m2, res2)
				pcs[t]--
			}
		}
		if done {
			out[outcomeString(results, showList(m.items))] = true
		}
	}
	m := &listModel{capk: sc.Cap, fifo: sc.FIFO, rejectB: sc.Policy && sc.Reject, neg: sc.Idx, fwd: sc.Idx}
	m.items = sc.initial()
	rec(m, make([][]string, len(ths)))
	return out
}

// accounting classifies what went wrong with the elements.
func (sc c10Scenario) accounting(x *execResult) []string {
	var bad []string
	if strings.Contains(x.final, "configuration slot lost") {
		return []string{"config-lost"}
	}
	for _, rs := range x.results {
		for _, r := range rs {
			if strings.Contains(r, "nodeConfig") || strings.Contains(r, "0xc0") {
				bad = append(bad, "config-returned-as-element")
			}
		}
	}
	return bad
}

func c10Check(c *Ctx, sc c10Scenario, bound int, count bool) (execs int, complete bool) {
	var allowed map[string]bool
	if !sc.weak() {
		allowed = sc.sequentialOutcomes()
	}
	sig := sc.opSig()
	size := len(sc.String())
	distinct := map[string]bool{}
	visit := func(x *execResult) {
		if count {
			c.Transitions.Add(int64(len(x.points)))
		}
		rep := map[string]any{"scenario": sc, "schedule": x.choices, "trace": x.trace}
		desc := func(msg string) string {
			return fmt.Sprintf("%s\n scenario %s\n schedule %v\n trace: %s", msg, sc, x.choices, strings.Join(x.trace, " / "))
		}
		if x.timeout {
			c.Violation("hang:"+sig, desc("a thread did not reach its next scheduling point within 20 s (blocked outside the lock model?)"), rep, size)
			return
		}
		if x.protocol != "" {
			c.Violation("lock-protocol:"+sig, desc("lock protocol broken: "+x.protocol), rep, size+len(x.choices))
			return
		}
		if len(x.panicked) > 0 {
			c.Violation("panic:"+sig, desc("panic: "+strings.Join(x.panicked, " ; ")), rep, size+len(x.choices))
			return
		}
		if x.deadlock != "" {
			c.Violation("deadlock:"+sig, desc("deadlock: "+x.deadlock), rep, size+len(x.choices))
			return
		}
		for _, w := range x.writes {
			if w.Op == "SetFIFO" && w.What == "options" {
				continue // (the mode switch is a setting, not content or lock bookkeeping: the statement does not put it under the lock)
			}
			c.Violation(fmt.Sprintf("unlocked-write:%s:%s:%s->%s", w.What, w.Op, w.From, w.To),
				desc(fmt.Sprintf("%s changed (%s) outside the locked section, between %s and %s", w.Op, w.What, w.From, w.To)), rep, size+len(x.choices))
		}
		o := outcomeString(x.results, x.final)
		distinct[o] = true
		for _, b := range sc.accounting(x) {
			c.Violation(b+":"+sig, desc(b+": "+o), rep, size+len(x.choices))
		}
		if !sc.weak() && !allowed[o] {
			var al []string
			for k := range allowed {
				al = append(al, k)
			}
			sort.Strings(al)
			c.Violation("not-serializable:"+sig, desc(fmt.Sprintf("outcome %q is produced by no sequential order; sequential outcomes: %q", o, al)), rep, size+len(x.choices))
		}
	}
	ops := 0
	for _, p := range sc.Progs {
		ops += len(p)
	}
	// scheduling points inside the critical sections for the smaller shapes (all of the quick tier)
	schedFine = c.Quick() || (ops <= 3 && (len(sc.Progs) == 2 || sc.InitLen <= 2)) || (len(sc.Progs) == 2 && ops <= 4 && sc.InitLen == 1 && !sc.FIFO && sc.Cap == 0)
	n, complete := exploreSchedules(sc.mk, sc.programs(), bound, true, visit, c.TimeUp)
	schedFine = true
	if count {
		c.States.Add(int64(n))
		c.Traces.Add(int64(n))
		c.Evals.Add(int64(n))
		if len(distinct) > 1 {
			c.Nontrivial(sc.String())
		}
		for o := range distinct {
			c.Outcome(sc.String() + o)
		}
	}
	return n, complete
}

type c10Plan struct {
	Scenarios []c10Scenario
	Bound     int
}

func c10Scenarios(c *Ctx) (out []c10Scenario, bounds []int) {
	defer func() {
		for i := range out {
			out[i].Kind = kindNames[i%5] // every kind is sampled evenly
		}
	}()
	cfgs := func(maxLen int) [][3]int { // initLen, fifo, cap
		var o [][3]int
		for n := 0; n <= maxLen; n++ {
			for f := 0; f < 2; f++ {
				for _, cp := range []int{0, n + 1} {
					o = append(o, [3]int{n, f, cp})
				}
			}
		}
		return o
	}
	add := func(cf [3]int, bound int, progs ...[]string) {
		out = append(out, c10Scenario{InitLen: cf[0], FIFO: cf[1] == 1, Cap: cf[2], Progs: progs})
		bounds = append(bounds, bound)
	}
	ops := c10OpNames
	// 2 threads x 1 operation: every ordered pair, every interleaving
	for _, cf := range cfgs(3) {
		for i, a := range ops {
			for _, b := range ops[i:] {
				add(cf, -1, []string{a}, []string{b})
			}
		}
	}
	// the push-policy path of Push (a separate append loop): a batch of two against every mutator
	for _, cf := range cfgs(2) {
		for _, b := range ops {
			out = append(out, c10Scenario{InitLen: cf[0], FIFO: cf[1] == 1, Cap: cf[2], Progs: [][]string{{"Push2"}, {b}}, Policy: true})
			bounds = append(bounds, -1)
		}
		out = append(out, c10Scenario{InitLen: cf[0], FIFO: cf[1] == 1, Cap: cf[2], Progs: [][]string{{"Push2"}, {"Push2"}, {"Pop"}}, Policy: true})
		bounds = append(bounds, -1)
		// a policy that rejects the second value of a batch (the error is recorded while the lock is held)
		for _, b := range ops[:8] {
			out = append(out, c10Scenario{InitLen: cf[0], FIFO: cf[1] == 1, Cap: cf[2], Progs: [][]string{{"Push2"}, {b}}, Policy: true, Reject: true})
			bounds = append(bounds, -1)
		}
		// a policy that consults the stack it guards; the read-only flag going up and down beside a mutator
		for _, b := range ops[:4] {
			out = append(out, c10Scenario{InitLen: cf[0], FIFO: cf[1] == 1, Cap: cf[2], Progs: [][]string{{"Push2"}, {b}}, Policy: true, PolReads: true})
			bounds = append(bounds, -1)
		}
		for _, b := range ops[:8] {
			out = append(out, c10Scenario{InitLen: cf[0], FIFO: cf[1] == 1, Cap: cf[2], Progs: [][]string{{"Freeze", "Thaw"}, {b}}})
			bounds = append(bounds, -1)
		}
		out = append(out, c10Scenario{InitLen: cf[0], FIFO: cf[1] == 1, Cap: cf[2], Progs: [][]string{{"Freeze", "Thaw"}, {"Push2"}}, Policy: true},
			c10Scenario{InitLen: cf[0], FIFO: cf[1] == 1, Cap: cf[2], Progs: [][]string{{"Freeze"}, {"Push1"}, {"Thaw"}}})
		bounds = append(bounds, -1, 2)
		// the ordering mode switched while a Pop is under way
		if cf[1] == 0 {
			out = append(out, c10Scenario{InitLen: cf[0], Cap: cf[2], Progs: [][]string{{"Pop"}, {"SetFIFO", "Push1"}}},
				c10Scenario{InitLen: cf[0], Cap: cf[2], Progs: [][]string{{"Pop", "Pop"}, {"SetFIFO"}, {"Push1"}}},
				c10Scenario{InitLen: cf[0], Cap: cf[2], Progs: [][]string{{"Remove0", "Pop"}, {"SetFIFO", "Insert0"}}})
			bounds = append(bounds, -1, 2, -1)
		}
		// user code that fails inside the critical section (the caller recovers): everybody else goes on
		for _, b := range ops[:6] {
			out = append(out, c10Scenario{InitLen: cf[0], FIFO: cf[1] == 1, Cap: cf[2], Progs: [][]string{{"Push2"}, {b}}, Policy: true, Reject: true, PolPanics: true})
			bounds = append(bounds, -1)
		}
		// SetMutex issued again while another thread is in the middle of a Push (inside its policy closure)
		out = append(out, c10Scenario{InitLen: cf[0], FIFO: cf[1] == 1, Cap: cf[2], Progs: [][]string{{"Push2"}, {"SetMutex", "Push1"}}, Policy: true},
			c10Scenario{InitLen: cf[0], FIFO: cf[1] == 1, Cap: cf[2], Progs: [][]string{{"Push2"}, {"SetMutex"}, {"Pop"}}, Policy: true})
		bounds = append(bounds, -1, 2)
		// SetMutex issued again while others are inside or queued for a mutator
		for _, b := range ops[:8] {
			out = append(out, c10Scenario{InitLen: cf[0], FIFO: cf[1] == 1, Cap: cf[2], Progs: [][]string{{"SetMutex", b}, {"Push1"}, {"Pop"}}})
			bounds = append(bounds, 2)
		}
	}
	// index options on: removals addressed from the end against every mutator (the position must be
	// resolved under the lock), and a twelve-value Push against every mutator (one call, one operation)
	for _, cf := range cfgs(3) {
		if cf[0] == 0 {
			continue
		}
		for _, a := range []string{"RemoveLast", "RemoveLastButOne", "RemoveBeyond"} {
			for _, b := range ops[:10] {
				out = append(out, c10Scenario{InitLen: cf[0], FIFO: cf[1] == 1, Cap: cf[2], Progs: [][]string{{a}, {b}}, Idx: true})
				bounds = append(bounds, -1)
			}
			out = append(out, c10Scenario{InitLen: cf[0], FIFO: cf[1] == 1, Cap: cf[2], Progs: [][]string{{a}, {"Pop"}, {"Push1"}}, Idx: true})
			bounds = append(bounds, 2)
		}
	}
	for _, cf := range [][3]int{{0, 0, 0}, {1, 1, 0}, {2, 0, 20}, {1, 0, 8}} {
		for _, pol := range []bool{false, true} {
			for _, b := range ops[:10] {
				out = append(out, c10Scenario{InitLen: cf[0], FIFO: cf[1] == 1, Cap: cf[2], Progs: [][]string{{"Push12"}, {b}}, Policy: pol})
				bounds = append(bounds, -1)
			}
			out = append(out, c10Scenario{InitLen: cf[0], FIFO: cf[1] == 1, Cap: cf[2], Progs: [][]string{{"Push12"}, {"Push12"}}, Policy: pol})
			bounds = append(bounds, -1)
		}
	}
	// elements arriving through Transfer: from a private stack (one push: judged like any mutator), and
	// between the shared stack and a mutex-enabled peer, in both directions and onto itself
	for _, cf := range cfgs(2) {
		for _, b := range append([]string{"TransferIn"}, ops[:10]...) {
			add(cf, -1, []string{"TransferIn"}, []string{b})
		}
		if cf[2] != 0 {
			continue
		}
		for _, progs := range [][][]string{{{"TransferToPeer"}, {"TransferFromPeer"}}, {{"TransferToPeer"}, {"TransferFromPeer"}, {"Pop"}}, {{"TransferFromPeer"}, {"Push1"}}, {{"TransferFromPeer"}, {"Pop"}},
			{{"TransferSelf"}, {"Push1"}}, {{"TransferSelf"}, {"TransferSelf"}}, {{"TransferToPeer", "Push1"}, {"TransferFromPeer", "Pop"}}, {{"TransferSelf"}, {"TransferFromPeer"}}} {
			out = append(out, c10Scenario{InitLen: cf[0], FIFO: cf[1] == 1, Progs: progs, Peer: true})
			bounds = append(bounds, 2)
		}
	}
	// a history before the threads start (the backing array has been large once: growth and shrink steps
	// lie at 16 / 32 / 64 slices), and every log level switched on with a live logger behind it
	for _, bl := range [][2]int{{20, 7}, {20, 8}, {20, 9}, {40, 15}, {40, 16}, {40, 17}, {70, 3}} {
		for _, fifo := range []bool{false, true} {
			for _, progs := range [][][]string{{{"Pop"}, {"Push1"}}, {{"Pop"}, {"Pop"}, {"Push1"}}, {{"Remove0"}, {"Push1"}}, {{"Pop", "Pop"}, {"Push1"}}, {{"Pop"}, {"Insert1"}}, {{"Reset"}, {"Push2"}}, {{"Pop"}, {"Replace0"}}} {
				out = append(out, c10Scenario{InitLen: bl[1], FIFO: fifo, Progs: progs, Burst: bl[0]})
				bounds = append(bounds, 2)
			}
		}
	}
	for _, cf := range cfgs(2) {
		for _, b := range append([]string{"PushShared"}, ops[:8]...) {
			out = append(out, c10Scenario{InitLen: cf[0], FIFO: cf[1] == 1, Cap: cf[2], Progs: [][]string{{"PushShared"}, {b}}, NoNest: true},
				c10Scenario{InitLen: cf[0], FIFO: cf[1] == 1, Cap: cf[2], Progs: [][]string{{"PushCond"}, {b}}, NoNest: true})
			bounds = append(bounds, -1, -1)
		}
		out = append(out, c10Scenario{InitLen: cf[0], FIFO: cf[1] == 1, Cap: cf[2], Progs: [][]string{{"PushShared"}, {"PushShared"}, {"Pop"}}, NoNest: true})
		bounds = append(bounds, 2)
	}
	for _, cf := range cfgs(1) {
		for i, a := range ops[:8] {
			for _, b := range ops[i:8] {
				out = append(out, c10Scenario{InitLen: cf[0], FIFO: cf[1] == 1, Cap: cf[2], Progs: [][]string{{a}, {b}}, Trace: true})
				bounds = append(bounds, -1)
			}
		}
		out = append(out, c10Scenario{InitLen: cf[0], FIFO: cf[1] == 1, Cap: cf[2], Progs: [][]string{{"Push1"}, {"Push1"}, {"Pop"}}, Trace: true})
		bounds = append(bounds, 2)
	}
	if c.Quick() {
		// a slice of 2x2 and 3x1 so that the per-change run also sees longer programs
		core := ops[:6]
		for _, cf := range [][3]int{{1, 0, 0}, {2, 1, 3}} {
			for _, a := range core {
				for _, b := range core {
					add(cf, -1, []string{a, b}, []string{b, a})
				}
			}
			for i, a := range core {
				for j, b := range core[i:] {
					add(cf, 2, []string{a}, []string{b}, []string{core[(i+j)%len(core)]})
				}
			}
		}
		return
	}
	core := ops[:8]
	for _, cf := range cfgs(2) {
		// 2 threads x 2 operations, all interleavings
		for _, a := range core {
			for _, b := range core {
				for _, cc := range core {
					for _, d := range core {
						add(cf, -1, []string{a, b}, []string{cc, d})
					}
				}
			}
		}
	}
	for _, cf := range cfgs(3) {
		// 3 threads x 1 operation, all interleavings
		for i, a := range ops {
			for j, b := range ops[i:] {
				for _, cc := range ops[i+j:] {
					add(cf, -1, []string{a}, []string{b}, []string{cc})
				}
			}
		}
	}
	for _, cf := range [][3]int{{1, 0, 0}, {2, 0, 3}, {2, 1, 0}, {3, 1, 4}} {
		// 2 threads x 3 operations, preemption bound 2: every first program over six mutators, the
		// second one starting with every pair and ending with the first program's first operation
		six := ops[:6]
		for _, a := range six {
			for _, b := range six {
				for _, cc := range six {
					for _, d := range six {
						for _, e := range six {
							add(cf, 2, []string{a, b, cc}, []string{d, e, a})
						}
					}
				}
			}
		}
	}
	for _, cf := range [][3]int{{1, 0, 0}, {2, 0, 3}, {2, 1, 0}, {3, 1, 4}} {
		// 3 threads x 2 operations, preemption bound 2
		small := ops[:5]
		for _, a := range small {
			for _, b := range small {
				for _, cc := range small {
					add(cf, 2, []string{a, b}, []string{b, cc}, []string{cc, a})
				}
			}
		}
	}
	return
}

// ---- process sharding and merge ------------------------------------------------------------------

func runShards(c *Ctx, n int, extraArgs ...string) bool {
	exe, _ := os.Executable()
	var wg sync.WaitGroup
	results := make([]*shardResult, n)
	errs := make([]error, n)
	for i := 0; i < n; i++ {
		wg.Add(1)
		go func(i int) {
			defer wg.Done()
			args := append([]string{"-prop", c.Prop, "-tier", c.Tier, "-shard", fmt.Sprintf("%d/%d", i, n), "-budget", c.Deadline.Sub(c.Start).String()}, extraArgs...)
			cmd := exec.Command(exe, args...)
			cmd.Env = append(os.Environ(), "GOMAXPROCS=2")
			cmd.Stderr = os.Stderr
			outp, err := cmd.StdoutPipe()
			if err != nil {
				errs[i] = err
				return
			}
			if err := cmd.Start(); err != nil {
				errs[i] = err
				return
			}
			sc := bufio.NewScanner(outp)
			sc.Buffer(make([]byte, 1<<20), 1<<30)
			for sc.Scan() {
				ln := sc.Text()
				if strings.HasPrefix(ln, "SHARD-RESULT ") {
					var r shardResult
					if err := json.Unmarshal([]byte(strings.TrimPrefix(ln, "SHARD-RESULT ")), &r); err == nil {
						results[i] = &r
					} else {
						errs[i] = err
					}
				}
			}
			if err := cmd.Wait(); err != nil {
				errs[i] = err
			}
		}(i)
	}
	wg.Wait()
	ok := true
	for i := 0; i < n; i++ {
		if errs[i] != nil || results[i] == nil {
			fmt.Fprintf(os.Stderr, "shard %d failed: %v\n", i, errs[i])
			ok = false
			continue
		}
		r := results[i]
		c.States.Add(r.States)
		c.Transitions.Add(r.Transitions)
		c.Traces.Add(r.Traces)
		c.Evals.Add(r.Evals)
		for _, h := range r.Nontrivial {
			c.Nontrivial("h" + h)
		}
		for _, h := range r.Outcomes {
			c.Outcome("h" + h)
		}
		if r.Capped {
			c.capped.Store(true)
		}
		for _, v := range r.Viols {
			c.mu.Lock()
			cur := c.viols[v.Key]
			if cur == nil {
				c.viols[v.Key] = v
			} else {
				cur.Count += v.Count
				if v.Size < cur.Size {
					cur.Detail, cur.Case, cur.Size = v.Detail, v.Case, v.Size
				}
			}
			c.mu.Unlock()
		}
		if len(c.Samples) < 6 {
			c.Samples = append(c.Samples, r.Samples...)
		}
	}
	return ok
}

func init() {
	register(&Check{ID: "C10", Engine: "C", Run: runC10, Replay: func(c *Ctx, raw json.RawMessage) {
		var rep struct {
			Scenario c10Scenario `json:"scenario"`
			Schedule []int       `json:"schedule"`
		}
		json.Unmarshal(raw, &rep)
		// determinism check: the same schedule must give identical observations twice
		x1 := runSchedule(rep.Scenario.mk, rep.Scenario.programs(), rep.Schedule, true)
		x2 := runSchedule(rep.Scenario.mk, rep.Scenario.programs(), rep.Schedule, true)
		if outcomeString(x1.results, x1.final) != outcomeString(x2.results, x2.final) || len(x1.panicked) != len(x2.panicked) {
			fmt.Println("replay: NON-DETERMINISTIC schedule (infrastructure problem)")
			os.Exit(2)
		}
		fmt.Printf("replay: %s\n schedule %v\n trace: %s\n outcome: %s\n panics: %v deadlock: %q unlocked writes: %v\n", rep.Scenario, rep.Schedule, strings.Join(x1.trace, " / "), outcomeString(x1.results, x1.final), x1.panicked, x1.deadlock, x1.writes)
		c10Check(c, rep.Scenario, -1, false)
	}})
}

func runC10(c *Ctx) {
	scs, bounds := c10Scenarios(c)
	if c.Of > 1 {
		// shard worker
		complete := true
		for i, sc := range scs {
			if i%c.Of != c.Shard {
				continue
			}
			if c.TimeUp() {
				complete = false
				break
			}
			n, ok := c10Check(c, sc, bounds[i], true)
			if !ok {
				complete = false
			}
			if i%(len(scs)/3+1) == c.Shard {
				c.Sample(map[string]any{"scenario": sc.String(), "schedules": n, "preemption_bound": bounds[i]})
			}
		}
		if !complete {
			c.capped.Store(true)
		}
		return
	}
	c.Rule = "for every scenario (shared mutex-enabled LIST of initial length 0..3, LIFO/FIFO, capacity none or Len+1; 2 threads x 1 op over 12 mutators, 2 threads x 2 ops, 3 threads x 1 op: every interleaving at op-start / lock-acquisition / lock-release granularity; 3 threads x 2 ops: preemption bound 2) every schedule is executed on the real code under the cooperative scheduler; oracles: outcome (return values + final content) equals one of the sequentially consistent outcomes of the reference list, no panic, no deadlock, configuration never lost or returned, every change of content/bookkeeping happens between lock.held and lock.release; states = complete schedules executed; non-trivial = distinct scenarios with more than one observed outcome"
	ok := runShards(c, Workers())
	c.Exhaustive = ok
	c.Bound["scenarios"] = len(scs)
	c.Bound["preemption_bound"] = "unbounded for 2x1, 2x2, 3x1; 2 for 3x2"
	if !ok {
		fmt.Println("INFRASTRUCTURE: a shard worker failed; no verdict")
		os.Exit(2)
	}
	racePass(c, "C10")
	c.Assumptions = append(c.Assumptions, "sequential consistency (not linearizability) is demanded, as the statement says", "interleavings are explored at synchronisation granularity; the free-running -race pass (coverage.race_pass) is a separate, non-exhaustive complement for the 'do not race on shared memory' clause")
}

func init() {
	raceBodies["C10"] = func(tier string) (int, int) {
		scs, _ := c10Scenarios(&Ctx{Tier: "quick"})
		reps := 30
		if tier == "thorough" {
			reps = 100
		}
		n, runs, hangs := 0, 0, 0
		for _, sc := range scs {
			if len(sc.Progs) > 3 {
				continue
			}
			n++
			for r := 0; r < reps; r++ {
				s := sc.mk()
				var fs []func()
				for _, p := range sc.programs() {
					p := p
					fs = append(fs, func() {
						for _, op := range p {
							op.Run(s)
						}
					})
				}
				if parallelBody(fs...) >= 1000 {
					hangs++
					if hangs > 20 {
						return n, runs // something leaves the mutex locked; stop piling up stuck goroutines
					}
				}
				runs++
			}
		}
		return n, runs
	}
}
