package main

import (
	"fmt"
	"runtime/debug"
	"sort"
	"strings"
	"sync"
	"sync/atomic"
	"time"

	stackage "github.com/JesseCoretta/go-stackage"
)

// Engine C: cooperative scheduler over the lock hooks + stateless, preemption-bounded DFS.
//
// Harness threads are real goroutines but exactly one runs at a time. Scheduling points:
// the start of each public call ("op.start"), the moment a lock is wanted ("lock.want",
// enabled only while the model of that mutex says free, so the real sync.Mutex never blocks)
// and the moment it has been released ("lock.released").

type abortSentinel struct{}

// lockProtocolPanic stops a thread that is about to break the lock protocol in a way that would be
// fatal for the whole process (sync: unlock of unlocked mutex) or silently void mutual exclusion.
type lockProtocolPanic struct{ msg string }

type thrState int

const (
	stReady thrState = iota // parked at op.start or after lock.released
	stWant                  // parked at lock.want
	stDone
)

type schedOp struct {
	Name string
	// Run performs the call on the shared stack and renders its return values.
	Run func(s stackage.Stack) string
}

type thr struct {
	id       int
	resume   chan struct{}
	state    thrState
	wantM    uintptr
	prog     []schedOp
	pc       int
	results  []string
	panicked string
	lastEv   string
	curOp    string
	holding  int
}

type schedPoint struct {
	enabled        []int // canonical order: running thread first if still enabled, then ascending ids
	chosen         int   // index into enabled
	runningEnabled bool
}

type unlockedWrite struct {
	Op, From, To, What string
}

type execResult struct {
	points   []schedPoint
	choices  []int
	results  [][]string
	final    string
	panicked []string
	deadlock string
	protocol string // lock-protocol breach (see lockProtocolPanic)
	writes   []unlockedWrite
	trace    []string
	stale    map[string]bool
	timeout  bool
}

type sched struct {
	threads []*thr
	cur     int
	yieldCh chan int
	abort   chan struct{}
	aborted atomic.Bool
	held    map[uintptr]int
	inCS    map[uintptr]int // stack id -> thread currently between lock.held and lock.release
	target  stackage.Stack
	last    *stackage.VerifState
	lastKey string
	res     *execResult
	monitor bool
}

var activeSched *sched

// schedFine switches the two scheduling points inside a critical section (lock just acquired, lock
// about to be released) on. They let the other threads run while one thread holds the lock, which is
// what exposes code that bypasses the lock; they multiply the number of schedules, so the larger
// program shapes of the thorough tier run without them.
var schedFine = true

func schedHook(ev string, stackID, mutexID uintptr) {
	s := activeSched
	if s == nil || s.aborted.Load() {
		return
	}
	t := s.threads[s.cur]
	s.observe(t, ev)
	switch ev {
	case "lock.want":
		t.wantM = mutexID
		t.state = stWant
		s.res.trace = append(s.res.trace, fmt.Sprintf("T%d %s wants lock", t.id, t.curOp))
		s.yield(t)
		t.state = stReady
	case "lock.held":
		s.held[mutexID] = t.id
		t.holding++
		if other, busy := s.inCS[stackID]; busy && other != t.id {
			panic(lockProtocolPanic{fmt.Sprintf("T%d (%s) entered the locked section of a stack while T%d is still inside it (two different mutexes guard one stack)", t.id, t.curOp, other)})
		}
		s.inCS[stackID] = t.id
		// holding the lock is a scheduling point too: the others get to run while this thread is inside
		// its critical section. Code that takes the lock is parked at lock.want (not enabled); code that
		// forgets to, or decides not to, runs on - and its writes show up outside any locked section.
		t.lastEv = ev
		if schedFine {
			s.yield(t)
		}
		return
	case "lock.release":
		if owner, ok := s.held[mutexID]; !ok || owner != t.id {
			panic(lockProtocolPanic{fmt.Sprintf("T%d (%s) is about to unlock a mutex it does not hold", t.id, t.curOp)})
		}
		// the end of the critical section, lock still held: one more point at which the others may run
		// (everything the holder wrote, and all of its lock bookkeeping, is in place now)
		t.lastEv = ev
		if schedFine {
			s.yield(t)
		}
		delete(s.inCS, stackID)
		return
	case "lock.released":
		delete(s.held, mutexID)
		t.holding--
		s.res.trace = append(s.res.trace, fmt.Sprintf("T%d %s released lock", t.id, t.curOp))
		t.lastEv = ev
		s.yield(t)
		return
	}
	t.lastEv = ev
}

// schedUserPoint is called by the harness's own closures (equality / validity / presentation policies,
// Stringer leaves) while they run inside a library call: user code is a scheduling point, so that other
// threads get to run while one caller is in the middle of a query. Outside an exploration it does nothing.
func schedUserPoint(name string) {
	s := activeSched
	if s == nil || s.aborted.Load() {
		return
	}
	t := s.threads[s.cur]
	s.observe(t, "closure:"+name)
	t.lastEv = "closure:" + name
	s.res.trace = append(s.res.trace, fmt.Sprintf("T%d %s inside user closure %s", t.id, t.curOp, name))
	s.yield(t)
}

func (s *sched) yield(t *thr) {
	s.yieldCh <- t.id
	select {
	case <-t.resume:
	case <-s.abort:
		panic(abortSentinel{})
	}
}

// observe attributes any change of the shared structure since the previous event to the running
// thread's last segment; a change is legal only between lock.held and lock.release.
func (s *sched) observe(t *thr, ev string) {
	if !s.monitor {
		return
	}
	d := stackage.VerifDump(s.target)
	k := d.Key(false)
	if k != s.lastKey {
		// legal: the running thread is inside a critical section (it holds a lock and has not yet
		// announced that it is about to let go); user closures called in there are part of it
		// ... of THIS stack (holding some other stack's lock does not license a write here)
		owner, inside := s.inCS[s.last.Addr]
		if !(t.holding > 0 && inside && owner == t.id && t.lastEv != "lock.release" && t.lastEv != "op.start" && ev != "lock.held") {
			s.res.writes = append(s.res.writes, unlockedWrite{Op: opClass(t.curOp), From: t.lastEv, To: ev, What: diffClass(s.last, d)})
		}
		s.last, s.lastKey = d, k
	}
}

func diffClass(a, b *stackage.VerifState) string {
	if a == nil || b == nil {
		return "state"
	}
	var w []string
	if a.Ldr != b.Ldr {
		w = append(w, "lock-bookkeeping")
	}
	if a.SliceLen != b.SliceLen || len(a.Slots) != len(b.Slots) || a.CfgOK != b.CfgOK {
		w = append(w, "content")
	} else {
		for i := range a.Slots {
			if a.Slots[i].Raw != b.Slots[i].Raw {
				w = append(w, "content")
				break
			}
		}
	}
	if a.Opt != b.Opt || a.Ord != b.Ord {
		w = append(w, "options")
	}
	if a.Err != b.Err {
		w = append(w, "err")
	}
	if len(w) == 0 {
		w = append(w, "configuration")
	}
	return strings.Join(w, "+")
}

// runSchedule executes one schedule: it follows prefix, then takes choice 0 at every later point.
func runSchedule(mk func() stackage.Stack, progs [][]schedOp, prefix []int, monitor bool) *execResult {
	s := &sched{yieldCh: make(chan int), abort: make(chan struct{}), held: map[uintptr]int{}, inCS: map[uintptr]int{}, res: &execResult{stale: map[string]bool{}}, monitor: monitor}
	s.target = mk()
	s.last = stackage.VerifDump(s.target)
	s.lastKey = s.last.Key(false)
	activeSched = s
	stackage.VerifHook = schedHook
	// the clock is the harness's too: every reading is one minute later than the one before, so that no
	// execution depends on how long the machine took, and whatever the library concludes from the age of
	// something (a lock held "too long") it concludes in every schedule where two readings frame it
	tick := time.Date(2020, 1, 1, 0, 0, 0, 0, time.UTC)
	var tickMu sync.Mutex
	stackage.VerifClock(func() time.Time {
		tickMu.Lock()
		defer tickMu.Unlock()
		tick = tick.Add(time.Minute)
		return tick
	})
	defer func() { activeSched = nil; stackage.VerifClock(nil) }()
	for i, p := range progs {
		t := &thr{id: i, resume: make(chan struct{}), prog: p, lastEv: "start"}
		s.threads = append(s.threads, t)
		s.res.results = append(s.res.results, nil)
	}
	for _, t := range s.threads {
		t := t
		go func() {
			defer func() {
				if r := recover(); r != nil {
					if _, ok := r.(abortSentinel); ok {
						return
					}
					if lp, ok := r.(lockProtocolPanic); ok {
						s.res.protocol = lp.msg
					}
					t.panicked = fmt.Sprintf("%v\n%s", r, shortStack(debug.Stack()))
				}
				t.state = stDone
				if !s.aborted.Load() {
					s.yieldCh <- t.id
				}
			}()
			select {
			case <-t.resume:
			case <-s.abort:
				return
			}
			for pc, op := range t.prog {
				t.pc, t.curOp = pc, op.Name
				if pc > 0 {
					t.lastEv = "op.start"
					s.yield(t)
				}
				t.lastEv = "op.start"
				r := op.Run(s.target)
				t.results = append(t.results, r)
				s.observe(t, "op.end")
				t.lastEv = "op.end"
				s.res.trace = append(s.res.trace, fmt.Sprintf("T%d %s -> %s", t.id, op.Name, r))
			}
		}()
	}
	running := -1
	step := 0
	for {
		var enabled []int
		alive := 0
		for _, t := range s.threads {
			if t.state == stDone {
				continue
			}
			alive++
			if t.state == stWant {
				if _, held := s.held[t.wantM]; held {
					continue
				}
			}
			enabled = append(enabled, t.id)
		}
		if alive == 0 {
			break
		}
		if len(enabled) == 0 {
			var w []string
			for _, t := range s.threads {
				if t.state == stWant {
					w = append(w, fmt.Sprintf("T%d(%s) waits for a lock held by T%d", t.id, t.curOp, s.held[t.wantM]))
				}
			}
			s.res.deadlock = strings.Join(w, "; ")
			break
		}
		sort.Ints(enabled)
		runningEnabled := false
		for i, id := range enabled {
			if id == running {
				runningEnabled = true
				copy(enabled[1:i+1], enabled[:i])
				enabled[0] = id
				break
			}
		}
		choice := 0
		if step < len(prefix) {
			choice = prefix[step]
			if choice >= len(enabled) {
				panic(fmt.Sprintf("schedule divergence: prefix choice %d at step %d but only %d enabled", choice, step, len(enabled)))
			}
		}
		s.res.points = append(s.res.points, schedPoint{enabled: enabled, chosen: choice, runningEnabled: runningEnabled})
		s.res.choices = append(s.res.choices, choice)
		step++
		running = enabled[choice]
		s.cur = running
		s.threads[running].resume <- struct{}{}
		select {
		case <-s.yieldCh:
		case <-time.After(20 * time.Second):
			s.res.timeout = true
		}
		if s.res.timeout {
			break
		}
		if s.threads[running].panicked != "" {
			break
		}
	}
	// release every parked goroutine
	s.aborted.Store(true)
	close(s.abort)
	for i, t := range s.threads {
		s.res.results[i] = t.results
		if t.panicked != "" {
			s.res.panicked = append(s.res.panicked, fmt.Sprintf("T%d in %s: %s", t.id, t.curOp, t.panicked))
		}
	}
	if len(s.res.panicked) == 0 && s.res.deadlock == "" && !s.res.timeout {
		s.res.final = finalContent(s.target)
	}
	return s.res
}

func finalContent(s stackage.Stack) string {
	d := stackage.VerifDump(s)
	if !d.CfgOK {
		return "<configuration slot lost>"
	}
	return showList(contents(s))
}

// exploreSchedules enumerates every schedule with at most `bound` preemptions (bound < 0: all).
// visit is called once per complete execution. It returns the number of executions and whether
// the enumeration completed (false if stop() said to stop).
func exploreSchedules(mk func() stackage.Stack, progs [][]schedOp, bound int, monitor bool, visit func(x *execResult), stop func() bool) (int, bool) {
	n := 0
	complete := true
	var rec func(prefix []int)
	rec = func(prefix []int) {
		if stop != nil && stop() {
			complete = false
			return
		}
		x := runSchedule(mk, progs, prefix, monitor)
		n++
		visit(x)
		if x.timeout {
			complete = false
			return
		}
		for i := len(prefix); i < len(x.points); i++ {
			p := x.points[i]
			cost := 0
			for j := 0; j < i; j++ {
				if x.points[j].chosen != 0 && x.points[j].runningEnabled {
					cost++
				}
			}
			if p.runningEnabled {
				cost++
			}
			if bound >= 0 && cost > bound {
				continue
			}
			for alt := 1; alt < len(p.enabled); alt++ {
				np := append(append([]int{}, x.choices[:i]...), alt)
				rec(np)
				if !complete {
					return
				}
			}
		}
	}
	rec(nil)
	return n, complete
}
