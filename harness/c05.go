package main

import (
	"encoding/json"
	"fmt"
	"strings"

	stackage "github.com/JesseCoretta/go-stackage"
)

// C05 — IsEqual accepts equal trees and rejects any difference (Engine B).

// eqNode describes a value; build() constructs it afresh (so two builds share no memory).
type eqNode struct {
	T    string   `json:"t"` // prim ptr slice array strs map struct structE structU cond stack alias
	V    any      `json:"v,omitempty"`
	Vs   []int    `json:"vs,omitempty"`   // slice/array/map values, struct ints
	Ss   []string `json:"ss,omitempty"`   // string slice / map keys / struct strings
	Kids []eqNode `json:"kids,omitempty"` // stack elements, cond expression, ptr target
	Kind string   `json:"kind,omitempty"`
	Cap  int      `json:"cap,omitempty"`
	Kw   string   `json:"kw,omitempty"`
	Op   int      `json:"op,omitempty"`
	Sym  string   `json:"sym,omitempty"`  // stacks: operator symbol (both sides of a comparison carry the same one)
	Fold bool     `json:"fold,omitempty"` // stacks: case folding on
	Lock int      `json:"lock,omitempty"` // stacks: 1 mutex enabled, 2 read-only, 3 both (set once the content is in place; both sides alike)
	Note string   `json:"note,omitempty"` // what was mutated
	Same bool     `json:"same,omitempty"` // the mutation must NOT be noticed (unexported field)
	M    int      `json:"-"`              // construction history used by build (see fill)
}

type eqStruct struct {
	A int
	B string
}
type eqEmbedded struct {
	EqInner
	Y int
}
type EqInner struct{ X int }

// round 14: an embedded field that is no struct (it promotes nothing), and an outer field hiding a promoted one
type EqInts []int
type eqEmbSlice struct {
	EqInts
	Y int
}
type eqShadow struct {
	EqInner
	X int
}
type eqNested struct {
	P  *int
	In eqStruct
	L  []string
}

// structs nested six levels deep, two plain fields on either side of the nested one at every level
type (
	eqD1 struct {
		A int
		N eqD2
		B int
	}
	eqD2 struct {
		A int
		N eqD3
		B int
	}
	eqD3 struct {
		A int
		N *eqD4
		B int
	}
	eqD4 struct {
		A int
		N eqD5
		B int
	}
	eqD5 struct {
		A int
		N eqD6
		B int
	}
	eqD6 struct {
		X, Y int
		Z    string
	}
)

// ... and the same held by value all the way down
type (
	eqV1 struct {
		A int
		N eqV2
		B int
	}
	eqV2 struct {
		A int
		N eqV3
		B int
	}
	eqV3 struct {
		A int
		N eqV4
		B int
	}
	eqV4 struct {
		A int
		N eqV5
		B int
	}
	eqV5 struct {
		A int
		N eqD6
		B int
	}
)

type eqBytes struct {
	Arr [2]byte
	Sl  []byte
}

// c05Op: 1..6 the built-in comparison operators, 101 / 102 two user-defined operators.
func c05Op(code int) stackage.Operator {
	switch code {
	case 101:
		return userOp{"~=", "ctx"}
	case 102:
		return userOp{"=~", "ctx"}
	case 103: // operator types Go cannot compare with ==: a slice, the same with another text, a map
		return sliceOp{"=~", "ctx"}
	case 105:
		return sliceOp{"!~", "ctx"}
	case 104:
		return mapOp{"k": "v"}
	}
	return stackage.ComparisonOperator(code)
}

type eqPrivate struct {
	A int
	b int
}

func (n eqNode) build() any {
	switch n.T {
	case "prim":
		switch tv := n.V.(type) {
		case float64:
			// JSON replay turns every number into float64; keep ints as ints via Kind
			if n.Kind == "int" {
				return int(tv)
			}
			if n.Kind == "uint8" {
				return uint8(tv)
			}
			return tv
		}
		return n.V
	case "ptr":
		v := n.Kids[0].build()
		switch tv := v.(type) {
		case int:
			return &tv
		case string:
			p := &tv
			return &p
		}
		return &v
	case "slice":
		if n.Cap > 0 { // append-grown slice: capacity larger than length
			return append(make([]int, 0, n.Cap), n.Vs...)
		}
		return append([]int{}, n.Vs...)
	case "array":
		var a [3]int
		copy(a[:], n.Vs)
		return a
	case "strs":
		return append([]string{}, n.Ss...)
	case "anyslice":
		return []any{n.Ss[0], n.Vs[0], n.Ss[1] == "t"}
	case "anyarr":
		return [2]any{n.Ss[0], n.Vs[0]}
	case "deep": // containers nested five and six levels deep
		v := n.Vs
		switch n.Kind {
		case "struct":
			return eqD1{v[0], eqD2{v[1], eqD3{v[2], &eqD4{v[3], eqD5{v[4], eqD6{v[5], v[6], n.Ss[0]}, v[7]}, v[8]}, v[9]}, v[10]}, v[11]}
		case "struct-by-value":
			return eqV1{v[0], eqV2{v[1], eqV3{v[2], eqV4{v[3], eqV5{v[4], eqD6{v[5], v[6], n.Ss[0]}, v[7]}, v[8]}, v[9]}, v[10]}, v[11]}
		case "slice":
			return [][][][][]int{{{{{v[0], v[1]}, {v[2]}}}, {{{v[3]}}}}, {{{{v[4], v[5]}}}}}
		case "map":
			return map[string]map[string]map[string]map[string][]int{n.Ss[0]: {"b": {"c": {"d": {v[0], v[1]}, "e": {v[2]}}}}, "z": {"y": {"x": {"w": {v[3]}}}}}
		case "mixed":
			return []any{map[string]any{n.Ss[0]: []any{&eqD5{v[0], eqD6{v[1], v[2], n.Ss[0]}, v[3]}, [2]any{v[4], []int{v[5]}}}}}
		}
		panic(n.Kind)
	case "anymap": // a map[string]any leaf: a key with an explicit nil value, one with a number, one with a text
		m := map[string]any{n.Ss[0]: nil, n.Ss[1]: n.Vs[0], "fixed": n.Ss[2]}
		if n.Cap == 1 {
			m[n.Ss[0]] = "no-longer-nil"
		}
		return m
	case "anymix": // a []any / [2]any leaf whose entries are not all bare primitives
		v0, v1 := n.Vs[0], n.Vs[1]
		switch n.Kind {
		case "ptr":
			return []any{n.Ss[0], &v0, v1}
		case "nil":
			if n.Cap == 1 {
				return []any{"no-longer-nil", n.Ss[0], v0}
			}
			return []any{nil, n.Ss[0], v0}
		case "slice":
			return []any{n.Ss[0], []int{v0, v1}}
		case "map":
			return []any{map[string]int{n.Ss[0]: v0}, v1}
		case "struct":
			return []any{eqStruct{v0, n.Ss[0]}, &eqStruct{v1, n.Ss[0]}}
		case "arr":
			return [2]any{&v0, nil}
		case "nested":
			return []any{[]any{n.Ss[0], &v0}, [1]any{v1}}
		}
		panic(n.Kind)
	case "fslice":
		f := make([]float64, len(n.Vs))
		for i, v := range n.Vs {
			f[i] = float64(v) + 0.5
		}
		return f
	case "sarr":
		var a [2]string
		copy(a[:], n.Ss)
		return a
	case "imap":
		m := map[int]string{}
		for i, k := range n.Vs {
			m[k] = n.Ss[i]
		}
		return m
	case "ptr3":
		v := n.Vs[0]
		p1 := &v
		p2 := &p1
		if n.Kind == "depth4" || n.Kind == "depth6" {
			p3 := &p2
			p4 := &p3
			if n.Kind == "depth4" {
				return p4
			}
			p5 := &p4
			return &p5
		}
		return &p2
	case "nstruct":
		v := n.Vs[0]
		return eqNested{&v, eqStruct{n.Vs[1], n.Ss[0]}, []string{n.Ss[1]}}
	case "typed":
		switch n.Kind {
		case "int64":
			return int64(n.Vs[0])
		case "uint16":
			return uint16(n.Vs[0])
		case "float32":
			return float32(n.Vs[0]) + 0.25
		case "complex128":
			return complex(float64(n.Vs[0]), 1)
		case "rune":
			return rune(n.Vs[0])
		case "int8":
			return int8(n.Vs[0])
		case "int16":
			return int16(n.Vs[0])
		case "uint":
			return uint(n.Vs[0])
		case "uint32":
			return uint32(n.Vs[0])
		case "uint64":
			return uint64(n.Vs[0])
		case "complex64":
			return complex(float32(n.Vs[0]), float32(1))
		case "*complex64":
			v := complex(float32(n.Vs[0]), float32(1))
			return &v
		case "[]complex64":
			return []complex64{complex(float32(n.Vs[0]), float32(1))}
		}
	case "map":
		m := map[string]int{}
		for i, k := range n.Ss {
			m[k] = n.Vs[i]
		}
		return m
	case "struct":
		return eqStruct{n.Vs[0], n.Ss[0]}
	case "pstruct":
		return &eqStruct{n.Vs[0], n.Ss[0]}
	case "structE":
		switch n.Kind {
		case "embedded-slice":
			return eqEmbSlice{EqInts{7, n.Vs[0]}, n.Vs[1]}
		case "shadowed":
			return eqShadow{EqInner{n.Vs[0]}, n.Vs[1]}
		}
		return eqEmbedded{EqInner{n.Vs[0]}, n.Vs[1]}
	case "structU":
		return eqPrivate{n.Vs[0], n.Vs[1]}
	case "cond":
		return stackage.Cond(n.Kw, c05Op(n.Op), n.Kids[0].build())
	case "holder": // a typed slice / array leaf whose elements are Stacks or Conditions
		switch n.Kind {
		case "[]Stack":
			out := []stackage.Stack{}
			for i, k := range n.Kids {
				k.M = n.M*3 + i
				out = append(out, k.build().(stackage.Stack))
			}
			return out
		case "[1]Condition":
			return [1]stackage.Condition{n.Kids[0].build().(stackage.Condition)}
		case "[]any":
			out := []any{}
			for _, k := range n.Kids {
				out = append(out, k.build())
			}
			return out
		}
		panic(n.Kind)
	case "zero": // a zero-valued handle as an element: equal to another zero value, different from anything live
		switch n.Kind {
		case "Stack":
			return stackage.Stack{}
		case "Condition":
			return stackage.Condition{}
		case "StackAlias":
			return StackAlias{}
		}
		panic(n.Kind)
	case "barr":
		b := make([]byte, len(n.Vs))
		for i, v := range n.Vs {
			b[i] = byte(v)
		}
		switch n.Kind {
		case "[3]byte":
			var a [3]byte
			copy(a[:], b)
			return a
		case "[]byte":
			return b
		case "*[3]byte":
			var a [3]byte
			copy(a[:], b)
			return &a
		case "[2]uint16":
			return [2]uint16{uint16(n.Vs[0]), uint16(n.Vs[1])}
		case "[2]bool":
			return [2]bool{n.Vs[0]%2 == 1, n.Vs[1]%2 == 1}
		case "struct{[2]byte}":
			return eqBytes{[2]byte{b[0], b[1]}, b[2:]}
		case "map[string][2]byte":
			return map[string][2]byte{"k": {b[0], b[1]}}
		case "[2][2]byte":
			return [2][2]byte{{b[0], b[1]}, {b[2], b[2]}}
		}
		panic(n.Kind)
	case "stack", "alias":
		var s stackage.Stack
		if n.Cap > 0 {
			s = newStackKind(n.Kind, n.Cap)
		} else {
			s = newStackKind(n.Kind)
		}
		var vals []any
		for i, k := range n.Kids {
			k.M = n.M*5 + i + 1
			vals = append(vals, k.build())
		}
		fill(s, vals, n.M)
		if n.Sym != "" {
			s.SetSymbol(n.Sym)
		}
		if n.Fold {
			s.SetFold(true)
		}
		if n.Lock&1 != 0 {
			s.SetMutex()
		}
		if n.Lock&2 != 0 {
			s.SetReadOnly(true)
		}
		if n.T == "alias" {
			return StackAlias(s)
		}
		return s
	}
	panic("eqNode " + n.T)
}

func (n eqNode) String() string {
	switch n.T {
	case "prim":
		return fmt.Sprintf("%v", n.V)
	case "ptr":
		return "&" + n.Kids[0].String()
	case "slice", "array", "structE", "structU", "fslice", "ptr3":
		return fmt.Sprintf("%s%s%v", n.T, n.Kind, n.Vs)
	case "sarr":
		return fmt.Sprintf("sarr%q", n.Ss)
	case "imap", "nstruct", "anyslice", "anyarr":
		return fmt.Sprintf("%s%v%q", n.T, n.Vs, n.Ss)
	case "anymix":
		return fmt.Sprintf("anymix-%s%d%v%q", n.Kind, n.Cap, n.Vs, n.Ss)
	case "anymap":
		return fmt.Sprintf("anymap%d%v%q", n.Cap, n.Vs, n.Ss)
	case "deep":
		return fmt.Sprintf("deep-%s%v%q", n.Kind, n.Vs, n.Ss)
	case "typed":
		return fmt.Sprintf("%s(%d)", n.Kind, n.Vs[0])
	case "barr":
		return fmt.Sprintf("%s%v", n.Kind, n.Vs)
	case "zero":
		return "zero-" + n.Kind
	case "holder":
		p := make([]string, len(n.Kids))
		for i, k := range n.Kids {
			p[i] = k.String()
		}
		return n.Kind + "{" + strings.Join(p, " ") + "}"
	case "strs":
		return fmt.Sprintf("%q", n.Ss)
	case "map":
		return fmt.Sprintf("map%v%v", n.Ss, n.Vs)
	case "struct", "pstruct":
		return fmt.Sprintf("%s{%d,%q}", n.T, n.Vs[0], n.Ss[0])
	case "cond":
		return fmt.Sprintf("Cond(%s,%d,%s)", n.Kw, n.Op, n.Kids[0])
	}
	s := n.T + ":" + n.Kind
	if n.Sym != "" {
		s += "~" + n.Sym
	}
	if n.Fold {
		s += "~fold"
	}
	if n.Lock > 0 {
		s += fmt.Sprintf("{lock=%d}", n.Lock)
	}
	if n.Cap > 0 {
		s += fmt.Sprintf("/%d", n.Cap)
	}
	s += "["
	for i, k := range n.Kids {
		if i > 0 {
			s += " "
		}
		s += k.String()
	}
	return s + "]"
}

func cloneNode(n eqNode) eqNode {
	c := n
	c.Vs = append([]int{}, n.Vs...)
	c.Ss = append([]string{}, n.Ss...)
	c.Kids = make([]eqNode, len(n.Kids))
	for i, k := range n.Kids {
		c.Kids[i] = cloneNode(k)
	}
	return c
}

// mutants returns every single-point mutation of n.
func (n eqNode) mutants() []eqNode {
	var out []eqNode
	add := func(m eqNode, note string) {
		m.Note = note
		out = append(out, m)
	}
	switch n.T {
	case "prim":
		m := cloneNode(n)
		switch tv := n.V.(type) {
		case int:
			m.V = tv + 1
			add(m, "int leaf changed")
			m2 := cloneNode(n)
			m2.V, m2.Kind = fmt.Sprint(tv), ""
			add(m2, "int leaf replaced by its text")
		case string:
			m.V = tv + "'"
			add(m, "string leaf changed")
			mc := cloneNode(n)
			mc.V = strings.ToUpper(tv)
			if tv != "" && mc.V != tv {
				add(mc, "string leaf letter case changed")
			}
			mw := cloneNode(n)
			mw.V = tv + " "
			add(mw, "string leaf gained a trailing blank")
		case float64:
			m.V = tv + 0.25
			add(m, "float leaf changed")
		case bool:
			m.V = !tv
			add(m, "bool leaf flipped")
		case uint8:
			m.V = tv + 1
			add(m, "uint8 leaf changed")
		}
	case "slice", "array":
		for i := range n.Vs {
			m := cloneNode(n)
			m.Vs[i] += 10
			add(m, fmt.Sprintf("%s element %d changed", n.T, i))
		}
		if n.T == "slice" {
			m := cloneNode(n)
			m.Vs = append(m.Vs, 99)
			add(m, "slice one element longer")
			if len(n.Vs) > 0 {
				m2 := cloneNode(n)
				m2.Vs = m2.Vs[:len(m2.Vs)-1]
				add(m2, "slice one element shorter")
			}
		}
	case "anymap":
		for i := 0; i < 3; i++ {
			m := cloneNode(n)
			m.Ss[i] += "'"
			add(m, []string{"anymap: the key of the nil entry renamed (same size)", "anymap: the key of the number renamed", "anymap: a text value changed"}[i])
		}
		m := cloneNode(n)
		m.Vs[0] += 3
		add(m, "anymap: a number value changed")
		m2 := cloneNode(n)
		m2.Cap = 1
		add(m2, "anymap: the nil value replaced by a text")
	case "deep":
		used := map[string]int{"struct": 12, "struct-by-value": 12, "slice": 6, "map": 4, "mixed": 6}[n.Kind]
		for i := 0; i < used; i++ {
			m := cloneNode(n)
			m.Vs[i] += 3
			add(m, fmt.Sprintf("deep(%s) number %d changed", n.Kind, i))
		}
		if n.Kind != "slice" {
			m := cloneNode(n)
			m.Ss[0] += "'"
			add(m, "deep("+n.Kind+") string / key changed")
		}
	case "anymix":
		for i := range n.Vs {
			if (n.Kind == "arr" || n.Kind == "nil") && i == 1 {
				continue // not part of the value
			}
			m := cloneNode(n)
			m.Vs[i] += 3
			add(m, fmt.Sprintf("anymix(%s) number %d changed", n.Kind, i))
		}
		if n.Kind != "arr" {
			m := cloneNode(n)
			m.Ss[0] += "'"
			add(m, "anymix("+n.Kind+") string changed")
		}
		if n.Kind == "nil" {
			m := cloneNode(n)
			m.Cap = 1
			add(m, "anymix nil entry replaced by a value")
		}
	case "anyslice", "anyarr":
		m := cloneNode(n)
		m.Vs[0] += 2
		add(m, n.T+" number element changed")
		m2 := cloneNode(n)
		m2.Ss[0] += "'"
		add(m2, n.T+" string element changed")
		if n.T == "anyslice" {
			m3 := cloneNode(n)
			if m3.Ss[1] == "t" {
				m3.Ss[1] = "f"
			} else {
				m3.Ss[1] = "t"
			}
			add(m3, "anyslice bool element changed")
		}
	case "holder":
		for i, k := range n.Kids {
			for _, km := range k.mutants() {
				m := cloneNode(n)
				m.Kids[i] = km
				m.Same = km.Same
				add(m, fmt.Sprintf("%s element %d: %s", n.Kind, i, km.Note))
			}
		}
	case "zero":
		live := eqNode{T: "stack", Kind: "OR", Kids: []eqNode{{T: "prim", V: 1, Kind: "int"}}}
		if n.Kind == "Condition" {
			live = eqNode{T: "cond", Kw: "k", Op: 1, Kids: []eqNode{{T: "prim", V: "v"}}}
		}
		add(live, "zero "+n.Kind+" replaced by a live one")
	case "fslice", "ptr3", "typed", "barr":
		for i := range n.Vs {
			m := cloneNode(n)
			m.Vs[i] += 3
			add(m, fmt.Sprintf("%s value %d changed", n.T, i))
		}
	case "sarr":
		for i := range n.Ss {
			m := cloneNode(n)
			m.Ss[i] += "'"
			add(m, fmt.Sprintf("string array element %d changed", i))
		}
	case "imap":
		for i := range n.Ss {
			m := cloneNode(n)
			m.Ss[i] += "'"
			add(m, fmt.Sprintf("int-keyed map value %d changed", i))
		}
		mk := cloneNode(n)
		mk.Vs[0] += 100
		add(mk, "int-keyed map key changed")
	case "nstruct":
		for i := range n.Vs {
			m := cloneNode(n)
			m.Vs[i] += 5
			add(m, fmt.Sprintf("nested struct int field %d changed", i))
		}
		for i := range n.Ss {
			m := cloneNode(n)
			m.Ss[i] += "'"
			add(m, fmt.Sprintf("nested struct string field %d changed", i))
		}
	case "strs":
		for i := range n.Ss {
			m := cloneNode(n)
			m.Ss[i] += "'"
			add(m, fmt.Sprintf("string slice element %d changed", i))
		}
	case "map":
		for i := range n.Vs {
			m := cloneNode(n)
			m.Vs[i] += 10
			add(m, fmt.Sprintf("map value for key %q changed", n.Ss[i]))
		}
		m := cloneNode(n)
		m.Ss[len(m.Ss)-1] = "renamed"
		add(m, "one map key renamed")
	case "struct", "pstruct":
		m := cloneNode(n)
		m.Vs[0]++
		add(m, "struct field A changed")
		m2 := cloneNode(n)
		m2.Ss[0] += "'"
		add(m2, "struct field B changed")
	case "structE":
		for i := range n.Vs {
			m := cloneNode(n)
			m.Vs[i]++
			add(m, fmt.Sprintf("struct (embedded) field %d changed", i))
		}
	case "structU":
		m := cloneNode(n)
		m.Vs[0]++
		add(m, "exported field of a struct with an unexported field changed")
		m2 := cloneNode(n)
		m2.Vs[1]++
		m2.Same = true
		add(m2, "only the unexported field changed (must be skipped)")
	case "ptr":
		for _, km := range n.Kids[0].mutants() {
			m := cloneNode(n)
			m.Kids[0] = km
			m.Same = km.Same
			add(m, "pointer target: "+km.Note)
		}
	case "cond":
		m := cloneNode(n)
		m.Kw += "2"
		add(m, "Condition keyword changed")
		mk := cloneNode(n)
		mk.Kw = strings.ToUpper(n.Kw)
		if mk.Kw == n.Kw {
			mk.Kw = strings.ToLower(n.Kw)
		}
		add(mk, "Condition keyword letter case changed")
		m2 := cloneNode(n)
		m2.Op = n.Op%6 + 1
		add(m2, "Condition operator changed")
		m3 := cloneNode(n)
		m3.Op = 101
		if n.Op == 101 {
			m3.Op = 102
		}
		add(m3, "Condition operator replaced by a (different) user-defined operator")
		if n.Op == 103 {
			m4 := cloneNode(n)
			m4.Op = 105
			add(m4, "Condition operator (a slice type) replaced by another value of the same type")
		}
		for _, km := range n.Kids[0].mutants() {
			m := cloneNode(n)
			m.Kids[0] = km
			m.Same = km.Same
			add(m, "Condition expression: "+km.Note)
		}
	case "stack", "alias":
		m := cloneNode(n)
		if n.Kind == "AND" {
			m.Kind = "OR"
		} else {
			m.Kind = "AND"
		}
		add(m, "stack kind changed")
		m2 := cloneNode(n)
		m2.Cap = n.Cap + len(n.Kids) + 1
		add(m2, "stack capacity changed")
		if len(n.Kids) > 0 && n.Cap != len(n.Kids) {
			// a limit that the content reaches exactly (the stack is full) against none / another one
			mf := cloneNode(n)
			mf.Cap = len(n.Kids)
			add(mf, "stack capacity changed to exactly the length")
		}
		m3 := cloneNode(n)
		m3.Kids = append(m3.Kids, eqNode{T: "prim", V: "extra"})
		if n.Cap == 0 || len(n.Kids) < n.Cap {
			add(m3, "one element more")
		}
		if len(n.Kids) > 0 {
			m4 := cloneNode(n)
			m4.Kids = m4.Kids[:len(m4.Kids)-1]
			add(m4, "one element fewer")
		}
		for i := 0; i+1 < len(n.Kids); i++ {
			// IsEqual documents that it does not distinguish slices from arrays of equal content
			// ... and that pointers are flattened at any depth (a *int 7 is the leaf value 7); which hollow
			// (zero-valued) handle sits where is not a difference the statement speaks about; structs are
			// documented to be compared by exported fields, their order and values (not by type name)
			norm := strings.NewReplacer("{lock=1}", "", "{lock=2}", "", "{lock=3}", "", "deep-struct-by-value", "deep-struct", "*complex64", "complex64", "ptr3depth4", "ptr3", "ptr3depth6", "ptr3", "array", "slice", "&", "", "pstruct", "struct", "alias:", "stack:", "*[3]byte", "bytes", "[3]byte", "bytes", "[]byte", "bytes", "zero-StackAlias", "zero", "zero-Stack", "zero", "zero-Condition", "zero")
			if norm.Replace(n.Kids[i].String()) != norm.Replace(n.Kids[i+1].String()) {
				m5 := cloneNode(n)
				m5.Kids[i], m5.Kids[i+1] = m5.Kids[i+1], m5.Kids[i]
				add(m5, fmt.Sprintf("siblings %d and %d swapped", i, i+1))
			}
		}
		for i, k := range n.Kids {
			for _, km := range k.mutants() {
				m := cloneNode(n)
				m.Kids[i] = km
				m.Same = km.Same
				add(m, fmt.Sprintf("element %d: %s", i, km.Note))
			}
		}
	}
	return out
}

func eqLeaves() []eqNode {
	return []eqNode{
		{T: "prim", V: 7, Kind: "int"}, {T: "prim", V: "s"}, {T: "prim", V: 2.5}, {T: "prim", V: true}, {T: "prim", V: uint8(3), Kind: "uint8"},
		{T: "ptr", Kids: []eqNode{{T: "prim", V: 7, Kind: "int"}}}, {T: "ptr", Kids: []eqNode{{T: "prim", V: "p"}}},
		{T: "slice", Vs: []int{1, 2, 3}}, {T: "slice", Vs: []int{1, 2}, Cap: 8}, {T: "array", Vs: []int{1, 2, 3}}, {T: "strs", Ss: []string{"a", "b"}},
		{T: "map", Ss: []string{"x", "y"}, Vs: []int{1, 2}}, {T: "struct", Vs: []int{1}, Ss: []string{"b"}}, {T: "pstruct", Vs: []int{1}, Ss: []string{"b"}},
		{T: "structE", Vs: []int{1, 2}}, {T: "structU", Vs: []int{1, 2}}, {T: "structE", Kind: "embedded-slice", Vs: []int{1, 2}}, {T: "structE", Kind: "shadowed", Vs: []int{1, 2}},
		{T: "fslice", Vs: []int{1, 2}}, {T: "sarr", Ss: []string{"p", "q"}}, {T: "imap", Vs: []int{1, 2}, Ss: []string{"a", "b"}}, {T: "ptr3", Vs: []int{9}},
		{T: "nstruct", Vs: []int{4, 5}, Ss: []string{"s", "l"}}, {T: "typed", Kind: "int64", Vs: []int{6}}, {T: "typed", Kind: "uint16", Vs: []int{6}},
		{T: "typed", Kind: "float32", Vs: []int{6}}, {T: "typed", Kind: "complex128", Vs: []int{6}}, {T: "typed", Kind: "rune", Vs: []int{66}}, {T: "prim", V: "é日本"},
		// the rest of the primitive types the documentation names, each on its own
		{T: "typed", Kind: "int8", Vs: []int{6}}, {T: "typed", Kind: "int16", Vs: []int{6}}, {T: "typed", Kind: "uint", Vs: []int{6}}, {T: "typed", Kind: "uint32", Vs: []int{6}},
		{T: "typed", Kind: "uint64", Vs: []int{6}}, {T: "typed", Kind: "complex64", Vs: []int{6}}, {T: "typed", Kind: "*complex64", Vs: []int{6}}, {T: "typed", Kind: "[]complex64", Vs: []int{6}},
		{T: "anyslice", Vs: []int{1}, Ss: []string{"a", "t"}}, {T: "anyarr", Vs: []int{1}, Ss: []string{"a"}},
		{T: "anymix", Kind: "ptr", Vs: []int{1, 2}, Ss: []string{"a"}}, {T: "anymix", Kind: "nil", Vs: []int{1, 2}, Ss: []string{"a"}}, {T: "anymix", Kind: "slice", Vs: []int{1, 2}, Ss: []string{"a"}},
		{T: "anymix", Kind: "map", Vs: []int{1, 2}, Ss: []string{"a"}}, {T: "anymix", Kind: "struct", Vs: []int{1, 2}, Ss: []string{"a"}}, {T: "anymix", Kind: "arr", Vs: []int{1, 2}, Ss: []string{"a"}},
		{T: "anymix", Kind: "nested", Vs: []int{1, 2}, Ss: []string{"a"}}, {T: "anymap", Vs: []int{7}, Ss: []string{"mail", "cn", "text"}},
		{T: "deep", Kind: "struct", Vs: []int{1, 2, 3, 4, 5, 6, 7, 8, 9, 10, 11, 12}, Ss: []string{"z"}}, {T: "deep", Kind: "slice", Vs: []int{1, 2, 3, 4, 5, 6}, Ss: []string{"-"}},
		{T: "deep", Kind: "struct-by-value", Vs: []int{1, 2, 3, 4, 5, 6, 7, 8, 9, 10, 11, 12}, Ss: []string{"z"}},
		{T: "deep", Kind: "map", Vs: []int{1, 2, 3, 4}, Ss: []string{"a"}}, {T: "deep", Kind: "mixed", Vs: []int{1, 2, 3, 4, 5, 6}, Ss: []string{"k"}},
		{T: "barr", Kind: "[3]byte", Vs: []int{1, 2, 3}}, {T: "barr", Kind: "[]byte", Vs: []int{1, 2, 3}}, {T: "barr", Kind: "*[3]byte", Vs: []int{1, 2, 3}},
		{T: "barr", Kind: "[2]uint16", Vs: []int{1, 2}}, {T: "barr", Kind: "[2]bool", Vs: []int{1, 2}}, {T: "barr", Kind: "struct{[2]byte}", Vs: []int{1, 2, 4}},
		{T: "barr", Kind: "map[string][2]byte", Vs: []int{1, 2}}, {T: "barr", Kind: "[2][2]byte", Vs: []int{1, 2, 4}},
		{T: "zero", Kind: "Stack"}, {T: "zero", Kind: "Condition"}, {T: "zero", Kind: "StackAlias"},
		{T: "ptr3", Kind: "depth4", Vs: []int{9}}, {T: "ptr3", Kind: "depth6", Vs: []int{9}},
		{T: "holder", Kind: "[]Stack", Kids: []eqNode{{T: "stack", Kind: "OR", Kids: []eqNode{{T: "prim", V: "a"}}}, {T: "stack", Kind: "LIST", Kids: []eqNode{{T: "prim", V: 7, Kind: "int"}, {T: "prim", V: "b"}}}}},
		{T: "holder", Kind: "[1]Condition", Kids: []eqNode{{T: "cond", Kw: "hk", Op: 2, Kids: []eqNode{{T: "prim", V: "hv"}}}}},
	}
}

func isEqualErr(a, b any) (err error, panicked string) {
	panicked = noPanic(func() {
		switch tv := a.(type) {
		case stackage.Stack:
			err = tv.IsEqual(b)
		case stackage.Condition:
			err = tv.IsEqual(b)
		case StackAlias:
			err = stackage.Stack(tv).IsEqual(b)
		}
	})
	return
}

func mutClass(note string) string {
	// keep only the innermost description and strip positions, so keys name the kind of difference
	if i := strings.LastIndex(note, ": "); i >= 0 {
		note = note[i+2:]
	}
	out := []rune{}
	for _, r := range note {
		if r >= '0' && r <= '9' {
			continue
		}
		out = append(out, r)
	}
	return string(out)
}

func c05Check(c *Ctx, n eqNode, count bool) {
	// "built twice independently": also through two different operation histories
	n1, n2 := n, n
	n1.M, n2.M = len(n.String())%fillModes, (len(n.String())+3)%fillModes
	a, b := n1.build(), n2.build()
	size := len(n.String())
	for dir, pair := range [][2]any{{a, b}, {b, a}} {
		err, p := isEqualErr(pair[0], pair[1])
		if p != "" {
			c.Violation("panic:copy", fmt.Sprintf("IsEqual panicked comparing two builds of %s: %s", n, p), n, size)
			return
		}
		if err != nil {
			c.Violation("copy-rejected:"+leafTypes(n), fmt.Sprintf("IsEqual (direction %d) rejects an independently rebuilt copy of %s: %v", dir, n, err), n, size)
		}
	}
	if count {
		c.States.Add(1)
		c.Transitions.Add(2)
	}
	for _, m := range n.mutants() {
		m.M = (len(n.String()) + 5) % fillModes
		mv := m.build()
		var res [2]bool
		for dir, pair := range [][2]any{{a, mv}, {mv, a}} {
			err, p := isEqualErr(pair[0], pair[1])
			if p == "" {
				// the same question once more: the verdict does not depend on having been asked before
				err2, p2 := isEqualErr(pair[0], pair[1])
				if p2 != "" {
					p = "(second identical call) " + p2
				} else if (err == nil) != (err2 == nil) {
					c.Violation("verdict-changes-when-repeated:"+mutClass(m.Note), fmt.Sprintf("IsEqual (direction %d) for %s vs mutant %s [%s] answers %v, then %v", dir, n, m, m.Note, err, err2), m, size)
				}
			}
			if count {
				c.Transitions.Add(1)
			}
			if p != "" {
				c.Violation("panic:"+mutClass(m.Note), fmt.Sprintf("IsEqual panicked comparing %s with its mutant (%s) %s: %s", n, m.Note, m, p), m, size)
				continue
			}
			res[dir] = err == nil
			if m.Same && err != nil {
				c.Violation("unexported-field-not-skipped", fmt.Sprintf("IsEqual reports %v for %s vs %s, which differ only in an unexported struct field", err, n, m), m, size)
			}
			if !m.Same && err == nil {
				c.Violation("difference-missed:"+mutClass(m.Note), fmt.Sprintf("IsEqual (direction %d) returned nil for %s vs mutant %s [%s]", dir, n, m, m.Note), m, size)
			}
		}
		if res[0] != res[1] {
			c.Violation("asymmetric:"+mutClass(m.Note), fmt.Sprintf("IsEqual verdict depends on the direction for %s vs %s [%s]", n, m, m.Note), m, size)
		}
		if count {
			c.Nontrivial(n.String() + "|" + m.Note)
			c.Outcome(mutClass(m.Note))
		}
	}
	if _, isStack := refAsStack(a); isStack || true {
		c05After(c, n, a, b, size)
	}
}

// c05Nested lists every Stack and Condition below (and including) v, outermost first.
func c05Nested(v any, depth int, out *[]any) {
	if depth > 8 {
		return
	}
	if st, ok := refAsStack(v); ok && st.IsInit() {
		*out = append(*out, st)
		for _, e := range contents(st) {
			c05Nested(e, depth+1, out)
		}
		return
	}
	if cd, ok := refAsCond(v); ok && cd.IsInit() {
		*out = append(*out, cd)
		c05Nested(cd.Expression(), depth+1, out)
	}
}

// c05After: two more questions about an equal pair. (1) One side is dressed differently - presentation
// options, identifiers, auxiliary data on every Stack and Condition in it: none of that is kind, capacity,
// order, Condition part or leaf value, so the verdict stays nil. (2) After the pair has compared equal, a
// nested Stack of one side is written to through its own handle (no setter of the holder is involved): the
// next comparison sees the difference.
func c05After(c *Ctx, n eqNode, a, b any, size int) {
	var inB []any
	c05Nested(b, 0, &inB)
	for _, x := range inB {
		switch tv := x.(type) {
		case stackage.Stack:
			tv.SetParen(true).SetNoPadding(true).SetLeadOnce(true).SetEncap("'").SetSymbol("sym").SetDelimiter(";").SetID("dressed").SetCategory("cat").SetAuxiliary(stackage.Auxiliary{"k": 1}).SetLogLevel("all").
				SetForwardIndices(true).SetNegativeIndices(true).SetMutex() // (how positions may be addressed, and locking, are not content either)
		case stackage.Condition:
			tv.SetParen(true).SetNoPadding(true).SetEncap("'").SetID("dressed").SetCategory("cat").SetAuxiliary(stackage.Auxiliary{"k": 1}).SetLogLevel("all")
		}
	}
	for dir, pair := range [][2]any{{a, b}, {b, a}} {
		err, p := isEqualErr(pair[0], pair[1])
		if p != "" {
			c.Violation("panic:dressed-copy", fmt.Sprintf("IsEqual panicked comparing %s with a copy that only differs in presentation options: %s", n, p), n, size)
			return
		}
		if err != nil {
			c.Violation("presentation-options-taken-for-content", fmt.Sprintf("IsEqual (direction %d) rejects a copy of %s whose Stacks and Conditions merely carry other presentation options (parenthetical, padding, lead-once, encapsulation, symbol, delimiter), identifiers and auxiliary data: %v", dir, n, err), n, size)
			return
		}
	}
	// (2) the innermost writable Stack of b gets one more element
	for i := len(inB) - 1; i >= 1; i-- {
		st, ok := inB[i].(stackage.Stack)
		if !ok || st.IsReadOnly() || st.IsFull() {
			continue
		}
		before := st.Len()
		st.Push("written-through-its-own-handle")
		if st.Len() != before+1 {
			continue
		}
		for dir, pair := range [][2]any{{a, b}, {b, a}} {
			err, p := isEqualErr(pair[0], pair[1])
			if p != "" {
				c.Violation("panic:after-outside-write", fmt.Sprintf("IsEqual panicked after a nested Stack of one side of %s was pushed to: %s", n, p), n, size)
				return
			}
			if err == nil {
				c.Violation("difference-missed:after-outside-write", fmt.Sprintf("IsEqual (direction %d) still returns nil for two builds of %s after they compared equal and a nested Stack (level %d) of one of them was then pushed to through its own handle", dir, n, i), n, size)
				return
			}
		}
		return
	}
}

func leafTypes(n eqNode) string {
	if n.T != "stack" && n.T != "alias" && n.T != "cond" && n.T != "ptr" {
		return n.T
	}
	s := ""
	for _, k := range n.Kids {
		t := leafTypes(k)
		if t != "" && !containsWord(s, t) {
			if s != "" {
				s += ","
			}
			s += t
		}
	}
	return s
}

func containsWord(s, w string) bool {
	for _, p := range splitComma(s) {
		if p == w {
			return true
		}
	}
	return false
}

func splitComma(s string) []string {
	var out []string
	cur := ""
	for _, r := range s {
		if r == ',' {
			out = append(out, cur)
			cur = ""
		} else {
			cur += string(r)
		}
	}
	return append(out, cur)
}

func c05Trees(c *Ctx) []eqNode {
	leaves := eqLeaves()
	var elems []eqNode
	elems = append(elems, leaves...)
	for _, l := range leaves[:7] {
		elems = append(elems, eqNode{T: "cond", Kw: "kw", Op: 1, Kids: []eqNode{l}})
	}
	elems = append(elems, eqNode{T: "cond", Kw: "uk", Op: 101, Kids: []eqNode{leaves[1]}}, eqNode{T: "cond", Kw: "uk", Op: 102, Kids: []eqNode{leaves[0]}},
		eqNode{T: "cond", Kw: "sk", Op: 103, Kids: []eqNode{leaves[1]}}, eqNode{T: "cond", Kw: "mk", Op: 104, Kids: []eqNode{leaves[0]}})
	// nested stacks (depth 1) over a reduced leaf set
	small := []eqNode{leaves[0], leaves[1], leaves[7], leaves[10]}
	var nested []eqNode
	for i, x := range small {
		nested = append(nested, eqNode{T: "stack", Kind: "OR", Kids: []eqNode{x}})
		for _, y := range small {
			nested = append(nested, eqNode{T: "stack", Kind: kindNames[i%4], Cap: (i % 2) * 4, Kids: []eqNode{x, y}})
		}
	}
	nested = append(nested, eqNode{T: "stack", Kind: "LIST"}, eqNode{T: "alias", Kind: "AND", Kids: []eqNode{leaves[0], leaves[9]}})
	// stacks filled exactly to their capacity
	nested = append(nested, eqNode{T: "stack", Kind: "BASIC", Cap: 2, Kids: []eqNode{leaves[0], leaves[1]}}, eqNode{T: "stack", Kind: "AND", Cap: 1, Kids: []eqNode{leaves[1]}})
	// stacks whose presentation settings are the same on both sides of a comparison (a symbol, case folding)
	nested = append(nested, eqNode{T: "stack", Kind: "AND", Sym: "+", Kids: []eqNode{leaves[1]}}, eqNode{T: "stack", Kind: "NOT", Sym: "!", Fold: true, Kids: []eqNode{leaves[0], leaves[1]}},
		eqNode{T: "stack", Kind: "OR", Fold: true, Kids: []eqNode{leaves[1]}})
	elems = append(elems, nested...)
	for _, s := range nested[:6] {
		elems = append(elems, eqNode{T: "cond", Kw: "k2", Op: 3, Kids: []eqNode{s}})
	}
	var trees []eqNode
	kinds := []string{"AND", "LIST", "BASIC", "NOT", "OR"}
	ki := 0
	for _, e := range elems {
		trees = append(trees, eqNode{T: "stack", Kind: kinds[ki%5], Kids: []eqNode{e}})
		ki++
	}
	for i, e := range elems {
		for j, f := range elems {
			if c.Quick() && (i+j)%3 != 0 {
				continue // quick tier: every third pair (each element still appears in both positions)
			}
			trees = append(trees, eqNode{T: "stack", Kind: kinds[ki%5], Cap: (ki % 3 / 2) * 5, Kids: []eqNode{e, f}})
			ki++
		}
	}
	if !c.Quick() {
		// depth 3 and width 3 samples built from the nested stacks
		for i, s := range nested {
			trees = append(trees, eqNode{T: "stack", Kind: "AND", Kids: []eqNode{{T: "stack", Kind: "OR", Kids: []eqNode{s, leaves[i%len(leaves)]}}, leaves[(i+3)%len(leaves)], s}})
		}
	}
	// top-level Conditions
	for _, e := range elems {
		if e.T != "cond" {
			trees = append(trees, eqNode{T: "cond", Kw: "top", Op: 2, Kids: []eqNode{e}})
		}
	}
	trees = append(trees, eqNode{T: "stack", Kind: "AND"}, eqNode{T: "stack", Kind: "BASIC", Cap: 3})
	// a Condition as the expression of a Condition (two and three deep), above a number, a text, a one-element
	// stack, an operator-less Condition: every difference below counts, also those a rendering would hide
	for _, bottom := range []eqNode{{T: "prim", V: 1, Kind: "int"}, {T: "prim", V: "1"}, {T: "stack", Kind: "AND", Kids: []eqNode{{T: "prim", V: "only"}}}, {T: "stack", Kind: "OR", Kids: []eqNode{{T: "prim", V: 7, Kind: "int"}, {T: "prim", V: "b"}}},
		{T: "cond", Kw: "no-operator", Op: 0, Kids: []eqNode{{T: "prim", V: "v"}}}} {
		inner := eqNode{T: "cond", Kw: "inner", Op: 2, Kids: []eqNode{bottom}}
		outer := eqNode{T: "cond", Kw: "outer", Op: 1, Kids: []eqNode{inner}}
		outer3 := eqNode{T: "cond", Kw: "top", Op: 3, Kids: []eqNode{outer}}
		trees = append(trees, outer, outer3, eqNode{T: "stack", Kind: "AND", Kids: []eqNode{outer, {T: "prim", V: "x"}}}, eqNode{T: "stack", Kind: "LIST", Kids: []eqNode{{T: "prim", V: "y"}, outer3}})
	}
	// locking and the read-only flag (alone and together) on the root, on a nested stack, on a Condition's
	// expression: neither has a say in what is equal, and comparing takes nothing it does not give back
	for lock := 1; lock <= 3; lock++ {
		in := eqNode{T: "stack", Kind: "OR", Lock: lock, Kids: []eqNode{{T: "prim", V: "a"}, {T: "prim", V: 7, Kind: "int"}}}
		trees = append(trees, in,
			eqNode{T: "stack", Kind: "AND", Kids: []eqNode{{T: "prim", V: "x"}, in, leaves[lock]}},
			eqNode{T: "stack", Kind: "LIST", Lock: lock, Kids: []eqNode{in, {T: "cond", Kw: "lk", Op: 2, Kids: []eqNode{in}}}},
			eqNode{T: "cond", Kw: "top", Op: 1, Kids: []eqNode{in}})
	}
	return trees
}

// c05SharedBacking: two slice leaves cut from ONE backing array (the way append within spare room, or a
// re-slice, produces them) that differ in length or in one entry are different leaves; the same cut twice
// is the same leaf. Identity of the memory says nothing about equality of the values.
func c05SharedBacking(c *Ctx) int {
	n := 0
	type pair struct {
		name string
		a, b any
		same bool
	}
	var pairs []pair
	ints := make([]int, 4, 8)
	strs := make([]string, 4, 8)
	anys := make([]any, 4, 8)
	byts := make([]byte, 4, 8)
	for i := 0; i < 4; i++ {
		ints[i], strs[i], anys[i], byts[i] = i+1, fmt.Sprint("s", i), i+1, byte(i+1)
	}
	ints5, strs5, anys5, byts5 := append(ints, 5), append(strs, "s4"), append(anys, 5), append(byts, 5) // grown in place
	pairs = append(pairs,
		pair{"[]int grown in place by one", ints, ints5, false}, pair{"[]int re-sliced one shorter", ints, ints[:3], false}, pair{"[]int cut twice", ints[:3], ints[:3], true},
		pair{"[]int same start, emptied", ints, ints[:0], false}, pair{"[]int offset by one (same length)", ints5[:4], ints5[1:5], false},
		pair{"[]string grown in place by one", strs, strs5, false}, pair{"[]string re-sliced one shorter", strs, strs[:3], false}, pair{"[]string cut twice", strs[:2], strs[:2], true},
		pair{"[]any grown in place by one", anys, anys5, false}, pair{"[]any re-sliced one shorter", anys, anys[:3], false},
		pair{"[]byte grown in place by one", byts, byts5, false}, pair{"[]byte re-sliced one shorter", byts, byts[:3], false}, pair{"[]byte cut twice", byts[:4], byts5[:4], true},
	)
	sharedMap := map[string]int{"a": 1}
	pairs = append(pairs, pair{"the very same map", sharedMap, sharedMap, true})
	for _, pr := range pairs {
		for _, wrap := range []struct {
			n string
			f func(v any) any
		}{{"a LIST element", func(v any) any { return stackage.List().Push("x", v) }}, {"a Condition's expression", func(v any) any { return stackage.Cond("k", stackage.Eq, v) }},
			{"an entry of a []any leaf in an AND", func(v any) any { return stackage.And().Push([]any{v}) }}} {
			for dir := 0; dir < 2; dir++ {
				a, b := pr.a, pr.b
				if dir == 1 {
					a, b = b, a
				}
				err, p := isEqualErr(wrap.f(a), wrap.f(b))
				n++
				c.Transitions.Add(1)
				if p != "" {
					c.Violation("panic:shared-backing-array", fmt.Sprintf("IsEqual panicked for %s as %s: %s", pr.name, wrap.n, p), nil, 0)
				} else if (err == nil) != pr.same {
					c.Violation("shared-backing-array:"+mutClass(pr.name), fmt.Sprintf("two leaves cut from one backing array (%s), each %s, direction %d: IsEqual=%v, want equal=%v", pr.name, wrap.n, dir, err, pr.same), nil, 0)
				}
			}
		}
	}
	return n
}

func init() {
	register(&Check{ID: "C05", Engine: "B", Run: func(c *Ctx) {
		if msg := sameNamedStructs(); msg != "" {
			c.Violation("same-named-struct-types", "two distinct struct types that print the same name (function-local declarations) with different exported fields: "+msg, nil, 0)
		}
		c.Bound["pairs_of_leaves_sharing_a_backing_array"] = c05SharedBacking(c)
		trees := c05Trees(c)
		c.Rule = "every tree of the bounded family (leaves: int, string, float, bool, uint8, *int, **string, []int, [3]int, []string, map[string]int, struct, *struct, struct with embedded field, struct with unexported field; Conditions over those; nested stacks with/without capacity; an alias) built twice independently, and every single-point mutation of it (each leaf, each slice/array/map position, renamed map key, keyword, operator, kind, capacity, sibling swap, one element more/fewer) compared in both directions; non-trivial = distinct (tree, mutation) pairs"
		parallelFor(len(trees), func(i int) {
			if c.TimeUp() {
				return
			}
			c05Check(c, trees[i], true)
		})
		c.Traces.Store(c.Transitions.Load())
		c.Evals.Store(c.Transitions.Load())
		c.Exhaustive = true
		c.Bound["trees"] = len(trees)
		c.Sample(trees[3].String())
		c.Sample(trees[len(trees)/2].String())
		c.Sample(map[string]any{"tree": trees[len(trees)/3].String(), "mutants": len(trees[len(trees)/3].mutants())})
	}, Replay: func(c *Ctx, raw json.RawMessage) {
		fmt.Println("replay: the case in the replay file is the mutant description; re-run the tier to reproduce (trees are enumerated deterministically)")
	}})
}
