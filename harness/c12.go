package main

import (
	"encoding/json"
	"fmt"
	"reflect"
	"strings"

	stackage "github.com/JesseCoretta/go-stackage"
)

// C12 — user-defined aliases of Stack and Condition behave as the native types (Engine B, differential).

// anode: description of a tree whose nested Stack/Condition positions carry a "form".
type anode struct {
	T    string  `json:"t"` // leaf nil S C
	K    string  `json:"k,omitempty"`
	V    any     `json:"v,omitempty"`
	Kids []anode `json:"kids,omitempty"` // S: elements; C: Kids[0] = expression
	Kw   string  `json:"kw,omitempty"`
	Fail bool    `json:"failing_unmarshaler,omitempty"`
	Pos  int     `json:"pos,omitempty"` // index into the forms vector (nested positions only, 1-based; 0 = root)
	// Clos: the nested Stack carries closures of its own (unmarshal, presentation, validity, equality):
	// they are honoured, or not, in the same way whatever form the Stack is stored in
	Clos bool `json:"closures,omitempty"`
	// Err: an error is put on record (SetErr) once the instance is complete; Rej: the instance's own validity
	// closure currently answers with an error. Neither has any bearing on which form it is stored in.
	Err bool `json:"error_on_record,omitempty"`
	Rej bool `json:"validity_rejects,omitempty"`
}

var stackForms = []string{"native", "alias", "aliasS", "ptr-alias", "ptr-aliasS", "ptr-native", "aliasF", "named-ptr"}
var condForms = []string{"native", "alias", "aliasS", "ptr-alias", "ptr-native", "aliasF", "named-ptr"}

func (n anode) String() string {
	switch n.T {
	case "leaf":
		return fmt.Sprint(n.V)
	case "nil":
		return "nil"
	case "C":
		return fmt.Sprintf("C#%d(%s %s)", n.Pos, n.Kw, n.Kids[0])
	}
	p := make([]string, len(n.Kids))
	for i, k := range n.Kids {
		p[i] = k.String()
	}
	return fmt.Sprintf("%s#%d[%s]", n.K, n.Pos, strings.Join(p, " "))
}

// number assigns positions to nested Stack / Condition nodes (pre-order) and returns how many there are.
func number(n *anode, next *int, root bool) {
	if n.T == "S" || n.T == "C" {
		if !root {
			*next++
			n.Pos = *next
		}
		for i := range n.Kids {
			number(&n.Kids[i], next, false)
		}
	}
}

func (n anode) build(forms []int, hist ...bool) any {
	return n.buildX(forms, len(hist) > 0 && hist[0], nil)
}

// buildX with a non-nil late: every nested instance stored in a pointer form is stored as a pointer to a
// still unset (zero) value; late collects the assignments that fill those values in afterwards, through
// the pointer's owner and without any call to the parent.
func (n anode) buildX(forms []int, h bool, late *[]func()) any {
	switch n.T {
	case "leaf":
		return n.V
	case "nil":
		return nil
	case "S":
		s := newStackKind(n.K)
		var vals []any
		for _, k := range n.Kids {
			vals = append(vals, k.buildX(forms, h, late))
		}
		fill(s, vals, fillMode(n.String()))
		if n.Fail {
			// closures of the nested instance that fail: the error travels up the same way whatever form the
			// instance is stored in
			s.SetUnmarshaler(func(...any) ([]any, error) { return []any{"PARTIAL"}, errCat })
		}
		if n.Clos {
			s.SetUnmarshaler(func(...any) ([]any, error) { return []any{"CUSTOM-UNMARSHAL"}, nil })
			s.SetValidityPolicy(func(...any) error { return nil })
			s.SetEqualityPolicy(func(a, b any) error {
				// (what the closure is handed when the instance is compared as PART of something else does not depend
				// on the form the other side stores its counterpart in)
				if _, native := b.(stackage.Stack); !native {
					return fmt.Errorf("the nested equality closure was handed a %T", b)
				}
				return nil
			})
			if n.K != "BASIC" {
				s.SetPresentationPolicy(func(...any) string { return "CUSTOM-STRING" })
			}
		}
		if n.Rej {
			s.SetValidityPolicy(func(...any) error { return errCat })
		}
		if n.Err {
			s.SetErr(errCat)
		}
		f := "native"
		if n.Pos > 0 {
			f = stackForms[forms[n.Pos-1]%len(stackForms)]
		}
		switch f {
		case "alias":
			return StackAlias(s)
		case "aliasS":
			return StackAliasS(s)
		case "ptr-alias":
			a := StackAlias(s)
			if late != nil {
				a = StackAlias{}
				*late = append(*late, func() { a = StackAlias(s) })
			}
			return &a
		case "ptr-aliasS":
			a := StackAliasS(s)
			if late != nil {
				a = StackAliasS{}
				*late = append(*late, func() { a = StackAliasS(s) })
			}
			return &a
		case "ptr-native":
			if late != nil {
				var z stackage.Stack
				*late = append(*late, func() { z = s })
				return &z
			}
			return &s
		case "aliasF": // an alias that wraps every method of the exported Interface
			return StackAliasF(s)
		case "named-ptr": // a declared pointer type
			if late != nil {
				var z stackage.Stack
				*late = append(*late, func() { z = s })
				return StackRef(&z)
			}
			return StackRef(&s)
		}
		return s
	case "C":
		var c stackage.Condition
		if h {
			// the tree under test is assembled through a history; the native reference directly
			c = condHistory(n.Kw, stackage.Ge, n.Kids[0].buildX(forms, h, late), fillMode(n.String()+fmt.Sprint(forms)))
		} else {
			c = stackage.Cond(n.Kw, stackage.Ge, n.Kids[0].build(forms))
		}
		if n.Clos {
			// an equality closure of the Condition's own, with an answer the built-in comparison would not give
			c.SetEqualityPolicy(func(a, b any) error {
				if _, native := b.(stackage.Condition); !native {
					return fmt.Errorf("the nested equality closure was handed a %T", b)
				}
				return errE
			})
			c.SetValidityPolicy(func(...any) error { return nil })
		}
		if n.Rej {
			c.SetValidityPolicy(func(...any) error { return errCat })
		}
		if n.Err {
			c.SetErr(errCat)
		}
		f := condForms[forms[n.Pos-1]%len(condForms)]
		switch f {
		case "alias":
			return CondAlias(c)
		case "aliasS":
			return CondAliasS(c)
		case "ptr-alias":
			a := CondAlias(c)
			if late != nil {
				a = CondAlias{}
				*late = append(*late, func() { a = CondAlias(c) })
			}
			return &a
		case "ptr-native":
			if late != nil {
				var z stackage.Condition
				*late = append(*late, func() { z = c })
				return &z
			}
			return &c
		case "aliasF":
			return CondAliasF(c)
		case "named-ptr":
			if late != nil {
				var z stackage.Condition
				*late = append(*late, func() { z = c })
				return CondRef(&z)
			}
			return CondRef(&c)
		}
		return c
	}
	panic(n.T)
}

// probe renders everything the property lists, for one tree, without addresses.
func c12Probe(root stackage.Stack, maxIdx, maxPath int) (out []string, panicked string) {
	panicked = noPanic(func() {
		out = append(out, "String="+root.String())
		u, err := root.Unmarshal()
		out = append(out, fmt.Sprintf("Unmarshal=%s err=%v", c12Slice(u), err))
		out = append(out, fmt.Sprintf("IsNesting=%v Len=%d", root.IsNesting(), root.Len()))
		var walk func(v any, path string)
		walk = func(v any, path string) {
			if s, ok := refAsStack(v); ok {
				out = append(out, fmt.Sprintf("%s: stack kind=%s len=%d nesting=%v str=%q", path, s.Kind(), s.Len(), s.IsNesting(), s.String()))
				for i, e := range contents(s) {
					walk(e, fmt.Sprintf("%s.%d", path, i))
				}
				return
			}
			if c, ok := refAsCond(v); ok {
				out = append(out, fmt.Sprintf("%s: cond len=%d nesting=%v fifo=%v str=%q", path, c.Len(), c.IsNesting(), c.IsFIFO(), c.String()))
				walk(c.Expression(), path+".e")
				return
			}
			out = append(out, fmt.Sprintf("%s: leaf %T %v", path, v, v))
		}
		walk(root, "r")
		for _, p := range c07Paths(maxPath, -1, maxIdx) {
			v, ok := root.Traverse(p...)
			out = append(out, fmt.Sprintf("Traverse%v=(%s,%v)", p, c12Value(v), ok))
		}
	})
	return
}

// c12Slice renders an Unmarshal result; values handed through as-is (a Condition used as an
// expression) are shown by what they convert to, not by a String method of their own.
func c12Slice(v any) string {
	if sl, ok := v.([]any); ok {
		p := make([]string, len(sl))
		for i, e := range sl {
			p[i] = c12Slice(e)
		}
		return "[" + strings.Join(p, " ") + "]"
	}
	if op, ok := v.(stackage.Operator); ok {
		return op.String()
	}
	return c12Value(v)
}

func c12Value(v any) string {
	if v == nil {
		return "nil"
	}
	if s, ok := refAsStack(v); ok {
		return "stack:" + s.Kind() + ":" + s.String()
	}
	if c, ok := refAsCond(v); ok {
		return "cond:" + c.String()
	}
	return fmt.Sprintf("%T:%v", v, v)
}

type c12Case struct {
	Tree  anode `json:"tree"`
	Forms []int `json:"forms"`
}

func formNames(n anode, forms []int, out *[]string) {
	if n.Pos > 0 {
		if n.T == "S" {
			*out = append(*out, stackForms[forms[n.Pos-1]%len(stackForms)])
		} else {
			*out = append(*out, "cond-"+condForms[forms[n.Pos-1]%len(condForms)])
		}
	}
	for _, k := range n.Kids {
		if k.T == "S" || k.T == "C" {
			formNames(k, forms, out)
		}
	}
}

func c12Run(c *Ctx, cs c12Case, count bool) {
	native := make([]int, len(cs.Forms))
	var names []string
	formNames(cs.Tree, cs.Forms, &names)
	desc := fmt.Sprintf("tree %s with forms %v", cs.Tree, names)
	size := len(cs.Tree.String())
	key := func(what string) string {
		// name the first non-native form for the key
		for _, n := range names {
			if !strings.HasSuffix(n, "native") || strings.HasPrefix(n, "ptr") {
				return what + ":" + n
			}
		}
		return what
	}
	if count {
		c.Evals.Add(1)
		c.Transitions.Add(1)
		c.Traces.Add(1)
	}
	var ar, nr stackage.Stack
	if p := noPanic(func() {
		ar = cs.Tree.build(cs.Forms, true).(stackage.Stack)
		nr = cs.Tree.build(native).(stackage.Stack)
	}); p != "" {
		c.Violation(key("panic:build"), desc+": building (Push / Cond with alias values) panicked: "+p, cs, size)
		return
	}
	pa, pp := c12Probe(ar, 2, 3)
	pn, _ := c12Probe(nr, 2, 3)
	if pp != "" {
		c.Violation(key("panic:probe"), desc+": "+pp, cs, size)
		return
	}
	for i := range pn {
		if i >= len(pa) || pa[i] != pn[i] {
			got := "<missing>"
			if i < len(pa) {
				got = pa[i]
			}
			c.Violation(key("differs:"+obsClass(pn[i])), fmt.Sprintf("%s: alias tree gives %s, native tree gives %s", desc, got, pn[i]), cs, size)
			break
		}
	}
	// the same tree once more, with every pointer form stored while the value behind it is still unset and
	// filled in afterwards by its owner: what counts is what the pointer leads to when the parent is asked
	hasPtr := false
	for _, n := range names {
		if strings.Contains(n, "ptr") {
			hasPtr = true
		}
	}
	if hasPtr {
		var pl []string
		var late []func()
		p := noPanic(func() {
			al := cs.Tree.buildX(cs.Forms, true, &late).(stackage.Stack)
			_ = al.String() // asked once while still hollow
			al.IsNesting()
			for _, f := range late {
				f()
			}
			pl, pp = c12Probe(al, 2, 3)
		})
		if p != "" || pp != "" {
			c.Violation(key("panic:filled-later"), desc+", pointer forms filled in after they were stored: "+p+pp, cs, size)
			return
		}
		for i := range pn {
			if i >= len(pl) || pl[i] != pn[i] {
				got := "<missing>"
				if i < len(pl) {
					got = pl[i]
				}
				c.Violation(key("differs-filled-later:"+obsClass(pn[i])), fmt.Sprintf("%s, pointer forms stored while still unset and filled in afterwards: alias tree gives %s, native tree gives %s", desc, got, pn[i]), cs, size)
				break
			}
		}
	}
	// IsEqual both ways between the alias tree and the native tree: the answer two native trees give each
	// other (nil, unless a nested instance carries an equality closure of its own that says otherwise)
	nr2 := cs.Tree.build(native).(stackage.Stack)
	var want [2]error
	noPanic(func() { want[0], want[1] = nr2.IsEqual(nr), nr.IsEqual(nr2) })
	for dir, pair := range [][2]stackage.Stack{{ar, nr}, {nr, ar}} {
		var err error
		if p := noPanic(func() { err = pair[0].IsEqual(pair[1]) }); p != "" {
			c.Violation(key("panic:IsEqual"), desc+": IsEqual panicked: "+p, cs, size)
		} else if fmt.Sprint(err) != fmt.Sprint(want[dir]) {
			c.Violation(key("IsEqual"), fmt.Sprintf("%s: IsEqual (direction %d, 0 = alias tree as receiver) = %v, two native trees answer %v", desc, dir, err, want[dir]), cs, size)
		}
	}
	// Defrag and Transfer give the same results on both trees
	var da, dn []string
	var ta, tn string
	if p := noPanic(func() {
		ar.Defrag()
		nr.Defrag()
		da, _ = c12Probe(ar, 1, 1)
		dn, _ = c12Probe(nr, 1, 1)
		d1, d2 := stackage.Basic(), stackage.Basic()
		ta = fmt.Sprint(ar.Transfer(d1), d1.Len(), d1.IsNesting())
		tn = fmt.Sprint(nr.Transfer(d2), d2.Len(), d2.IsNesting())
		// ... and into destinations with a capacity, with no-nesting, with both (room for the plain values
		// only, for all but one, for all)
		plainVals := 0
		for _, e := range contents(nr) {
			if _, isS := refAsStack(e); !isS {
				plainVals++
			}
		}
		for _, room := range []int{plainVals, nr.Len() - 1, nr.Len(), nr.Len() + 1} {
			for _, nn := range []bool{false, true} {
				if room < 1 {
					continue
				}
				da, dn := stackage.List(room).SetNoNesting(nn), stackage.List(room).SetNoNesting(nn)
				ta += fmt.Sprintf(" | cap=%d no-nesting=%v: %v %d %v", room, nn, ar.Transfer(da), da.Len(), da.IsNesting())
				tn += fmt.Sprintf(" | cap=%d no-nesting=%v: %v %d %v", room, nn, nr.Transfer(dn), dn.Len(), dn.IsNesting())
			}
		}
		ua, un := stackage.List().SetNoNesting(true), stackage.List().SetNoNesting(true)
		ta += fmt.Sprintf(" | no-nesting: %v %d", ar.Transfer(ua), ua.Len())
		tn += fmt.Sprintf(" | no-nesting: %v %d", nr.Transfer(un), un.Len())
	}); p != "" {
		c.Violation(key("panic:Defrag/Transfer"), desc+": "+p, cs, size)
		return
	}
	if strings.Join(da, "\n") != strings.Join(dn, "\n") {
		c.Violation(key("differs:Defrag"), fmt.Sprintf("%s: after Defrag the alias tree reads %v, the native tree %v", desc, da[:min(3, len(da))], dn[:min(3, len(dn))]), cs, size)
	}
	if ta != tn {
		c.Violation(key("differs:Transfer"), fmt.Sprintf("%s: Transfer gives %s, native %s", desc, ta, tn), cs, size)
	}
	// Transfer into a destination that is itself one of the source's elements (the tree contains itself
	// afterwards, so nothing is rendered from here on): the same verdict and the same growth, whatever form
	// that element is stored in
	var sa, sn []string
	if p := noPanic(func() {
		a3 := cs.Tree.build(cs.Forms, true).(stackage.Stack)
		n3 := cs.Tree.build(native).(stackage.Stack)
		for ri, root := range []stackage.Stack{a3, n3} {
			for i, e := range contents(root) {
				if dst, ok := refAsStack(e); ok {
					l0 := dst.Len()
					okT := root.Transfer(e)
					line := fmt.Sprintf("element %d as destination: Transfer=%v Len %d->%d", i, okT, l0, dst.Len())
					if ri == 0 {
						sa = append(sa, line)
					} else {
						sn = append(sn, line)
					}
					break // one self-containing edit per tree
				}
			}
		}
	}); p != "" {
		c.Violation(key("panic:Transfer-into-own-element"), desc+": "+p, cs, size)
		return
	}
	if strings.Join(sa, "\n") != strings.Join(sn, "\n") {
		c.Violation(key("differs:Transfer-into-own-element"), fmt.Sprintf("%s: Transfer of the tree into one of its own elements gives %v, on the native tree %v", desc, sa, sn), cs, size)
	}
	// a change made below a (read-only, already rendered) root through the nested instance's own handle
	// shows in the root's next rendering, whatever form the nested instance is stored in
	var la, ln []string
	if p := noPanic(func() {
		a2 := cs.Tree.build(cs.Forms, true).(stackage.Stack)
		n2 := cs.Tree.build(native).(stackage.Stack)
		for _, root := range []stackage.Stack{a2, n2} {
			root.SetReadOnly(true)
			_ = root.String()
			root.Unmarshal()
			for _, e := range contents(root) {
				if st, ok := refAsStack(e); ok {
					st.Push("pushed-later")
					st.SetSymbol("later")
				} else if cd, ok := refAsCond(e); ok {
					cd.SetKeyword("kw-later")
				}
			}
		}
		la, _ = c12Probe(a2, 1, 1)
		ln, _ = c12Probe(n2, 1, 1)
	}); p != "" {
		c.Violation(key("panic:edit-below-read-only-root"), desc+": "+p, cs, size)
		return
	}
	if strings.Join(la, "\n") != strings.Join(ln, "\n") {
		c.Violation(key("differs:after-edit-below"), fmt.Sprintf("%s: after a Push / SetSymbol / SetKeyword on the nested instances below the read-only, already rendered root the alias tree reads %v, the native tree %v", desc, la[:min(2, len(la))], ln[:min(2, len(ln))]), cs, size)
	}
	if count {
		nonNative := false
		for _, f := range cs.Forms {
			if f != 0 {
				nonNative = true
			}
		}
		if nonNative {
			c.Nontrivial(jsonString(cs))
		}
		c.Outcome(pn[0])
	}
}

// no-nesting refusal and the two converters, for every form
func c12FormsCheck(c *Ctx) int {
	n := 0
	base := anode{T: "S", K: "AND", Kids: []anode{{T: "S", K: "OR", Kids: []anode{{T: "leaf", V: "x"}}}, {T: "C", Kw: "k", Kids: []anode{{T: "leaf", V: "v"}}}}}
	next := 0
	number(&base, &next, true)
	for f := 0; f < len(stackForms); f++ {
		n++
		v := base.Kids[0].build([]int{f, 0})
		desc := "form " + stackForms[f]
		nn := stackage.List().SetNoNesting(true)
		nn.Push("keep", v, 7)
		if nn.Len() != 2 || nn.IsNesting() {
			c.Violation("no-nesting:"+stackForms[f], fmt.Sprintf("%s: a no-nesting stack stored the value (Len %d, IsNesting %v)", desc, nn.Len(), nn.IsNesting()), nil, 0)
		}
		ok := stackage.List().Push(v)
		if !ok.IsNesting() {
			c.Violation("IsNesting:"+stackForms[f], desc+": IsNesting false for a stack holding it", nil, 0)
		}
		cd := stackage.Cond("k", stackage.Eq, "old").SetNoNesting(true)
		cd.SetExpression(v)
		if cd.Expression() != "old" {
			c.Violation("cond-no-nesting:"+stackForms[f], desc+": a no-nesting Condition accepted it as expression", nil, 0)
		}
		c2 := stackage.Cond("k", stackage.Eq, v)
		if !c2.IsNesting() || c2.Len() != 1 {
			c.Violation("cond-IsNesting/Len:"+stackForms[f], fmt.Sprintf("%s as Condition expression: IsNesting=%v Len=%d want true/1", desc, c2.IsNesting(), c2.Len()), nil, 0)
		}
		s, conv := stackage.ConvertStack(v)
		under := stackage.VerifDump(v).Addr
		if !conv || stackage.VerifDump(s).Addr != under || under == 0 {
			c.Violation("ConvertStack:"+stackForms[f], fmt.Sprintf("%s: ConvertStack gave converted=%v and not the underlying instance", desc, conv), nil, 0)
		}
		if _, cc := stackage.ConvertCondition(v); cc {
			c.Violation("ConvertCondition:"+stackForms[f], desc+": ConvertCondition converted a Stack", nil, 0)
		}
		// destination of a Transfer
		src := stackage.List().Push("t1", "t2")
		if !src.Transfer(v) || s.Len() != 3 {
			c.Violation("Transfer-into:"+stackForms[f], fmt.Sprintf("%s: Transfer into it failed (Len %d)", desc, s.Len()), nil, 0)
		}
	}
	for f := 0; f < len(condForms); f++ {
		n++
		v := base.Kids[1].build([]int{0, f})
		desc := "Condition form " + condForms[f]
		cd, conv := stackage.ConvertCondition(v)
		under := stackage.VerifDump(v).Addr
		if !conv || stackage.VerifDump(cd).Addr != under || under == 0 {
			c.Violation("ConvertCondition:"+condForms[f], fmt.Sprintf("%s: ConvertCondition gave converted=%v and not the underlying instance", desc, conv), nil, 0)
		}
		if _, cs := stackage.ConvertStack(v); cs {
			c.Violation("ConvertStack:cond-"+condForms[f], desc+": ConvertStack converted a Condition", nil, 0)
		}
	}
	var nilStr *string
	for name, v := range map[string]any{"nil": nil, "StackAlias{}": StackAlias{}, "StackAliasS{}": StackAliasS{}, "CondAlias{}": CondAlias{}, "(*StackAlias)(nil)": (*StackAlias)(nil), "(*CondAlias)(nil)": (*CondAlias)(nil),
		"(*Stack)(nil)": (*stackage.Stack)(nil), "(*Condition)(nil)": (*stackage.Condition)(nil), "int": 7, "string": "s", "struct": struct{ A int }{1}, "*string(nil)": nilStr, "[]any": []any{"AND"}, "&StackAlias{}": &StackAlias{}, "func": func() {}} {
		n++
		var s stackage.Stack
		var cd stackage.Condition
		var sok, cok bool
		if p := noPanic(func() { s, sok = stackage.ConvertStack(v); cd, cok = stackage.ConvertCondition(v) }); p != "" {
			c.Violation("panic:Convert:"+name, "ConvertStack/ConvertCondition("+name+") panicked: "+p, nil, 0)
			continue
		}
		if sok || !s.IsZero() {
			c.Violation("ConvertStack:"+name, fmt.Sprintf("ConvertStack(%s) = (zero=%v, %v), want (zero, false)", name, s.IsZero(), sok), nil, 0)
		}
		if cok || !cd.IsZero() {
			c.Violation("ConvertCondition:"+name, fmt.Sprintf("ConvertCondition(%s) = (zero=%v, %v), want (zero, false)", name, cd.IsZero(), cok), nil, 0)
		}
	}
	// deep pointer chains and declared pointer types lead to what they lead to
	{
		st := stackage.And().Push("d1", "d2")
		cd := stackage.Cond("dk", stackage.Eq, "dv")
		al := StackAlias(st)
		for name, v := range map[string]any{"9 pointer levels above a Stack": deepPointer(st, 9), "12 pointer levels above an alias": deepPointer(al, 12), "declared pointer to a Stack": StackRef(&st), "pointer to a declared pointer to an alias": func() any { r := AliasRef(&al); return &r }()} {
			n++
			var s stackage.Stack
			var ok bool
			if p := noPanic(func() { s, ok = stackage.ConvertStack(v) }); p != "" {
				c.Violation("panic:Convert:deep-pointer", "ConvertStack("+name+") panicked: "+p, nil, 0)
			} else if !ok || s.Addr() != st.Addr() {
				c.Violation("ConvertStack:deep-pointer", fmt.Sprintf("ConvertStack(%s) = (converted %v), want the Stack the pointers lead to", name, ok), nil, 0)
			}
		}
		for name, v := range map[string]any{"9 pointer levels above a Condition": deepPointer(cd, 9), "declared pointer to a Condition": CondRef(&cd)} {
			n++
			var x stackage.Condition
			var ok bool
			if p := noPanic(func() { x, ok = stackage.ConvertCondition(v) }); p != "" {
				c.Violation("panic:Convert:deep-pointer", "ConvertCondition("+name+") panicked: "+p, nil, 0)
			} else if !ok || x.Addr() != cd.Addr() {
				c.Violation("ConvertCondition:deep-pointer", fmt.Sprintf("ConvertCondition(%s) = (converted %v), want the Condition the pointers lead to", name, ok), nil, 0)
			}
		}
	}
	// values that merely WRAP a Stack or Condition (a reflect.Value describing one, a struct / slice / map /
	// interface box / function holding one) are values like any other: no converter sees through them, and
	// nothing treats them as nested
	wrapped := func() map[string]any {
		st := stackage.And().Push("w1", "w2")
		al := StackAlias(stackage.Or().Push("w"))
		cd := stackage.Cond("wk", stackage.Eq, stackage.List().Push("we"))
		ca := CondAlias(stackage.Cond("wk", stackage.Ne, "wv"))
		var box any = st
		var cbox any = &ca
		return map[string]any{
			"reflect.Value of a Stack": reflect.ValueOf(st), "reflect.Value of an alias": reflect.ValueOf(al), "reflect.Value of a pointer to an alias": reflect.ValueOf(&al),
			"reflect.Value of a Condition": reflect.ValueOf(cd), "reflect.Value of a pointer to a Condition alias": reflect.ValueOf(&ca), "pointer to a reflect.Value of a Stack": func() any { v := reflect.ValueOf(st); return &v }(),
			"struct holding a Stack": struct{ S stackage.Stack }{st}, "struct holding a Condition": struct{ C stackage.Condition }{cd}, "[]Stack": []stackage.Stack{st}, "[1]StackAlias": [1]StackAlias{al},
			"map holding a Stack": map[string]stackage.Stack{"s": st}, "*any holding a Stack": &box, "*any holding a pointer to a Condition alias": &cbox, "func returning a Stack": func() stackage.Stack { return st },
		}
	}
	for name, v := range wrapped() {
		n++
		var s stackage.Stack
		var cd stackage.Condition
		var sok, cok bool
		if p := noPanic(func() { s, sok = stackage.ConvertStack(v); cd, cok = stackage.ConvertCondition(v) }); p != "" {
			c.Violation("panic:Convert:wrapped", "ConvertStack/ConvertCondition("+name+") panicked: "+p, nil, 0)
			continue
		}
		if sok || !s.IsZero() || cok || !cd.IsZero() {
			c.Violation("Convert:wrapped", fmt.Sprintf("ConvertStack(%s) = (zero=%v, %v), ConvertCondition = (zero=%v, %v), want (zero, false) twice: the value is neither, it only holds one", name, s.IsZero(), sok, cd.IsZero(), cok), nil, 0)
		}
		var msg string
		if p := noPanic(func() {
			holder := stackage.List().Push("lead", v)
			nn := stackage.Or().SetNoNesting(true).Push(v)
			cx := stackage.Cond("k", stackage.Eq, v)
			cn := stackage.Cond("k", stackage.Eq, "old").SetNoNesting(true).SetExpression(v)
			tv, tok := holder.Traverse(1)
			_, deeper := holder.Traverse(1, 0)
			switch {
			case holder.IsNesting() || cx.IsNesting():
				msg = "counts as nesting"
			case nn.Len() != 1:
				msg = "is turned away by a no-nesting Stack"
			case reflect.TypeOf(v).Kind() != reflect.Func && diffAny(cn.Expression(), v), reflect.TypeOf(v).Kind() == reflect.Func && (cn.Expression() == "old" || cn.Expression() == nil):
				msg = "is refused by a no-nesting Condition"
			case cx.Len() != 1:
				msg = fmt.Sprintf("gives a Condition the length %d", cx.Len())
			case !tok || (reflect.TypeOf(v).Kind() != reflect.Func && diffAny(tv, v)):
				msg = fmt.Sprintf("comes back from Traverse(1) as %T (found %v)", tv, tok)
			case deeper:
				msg = "lets Traverse(1,0) descend into it"
			}
		}); p != "" {
			c.Violation("panic:wrapped-as-element", name+" as element / expression: "+p, nil, 0)
		} else if msg != "" {
			c.Violation("wrapped-value-treated-as-nested", name+", stored as an element or an expression, "+msg+": it is a plain value that merely holds a Stack / Condition", nil, 0)
		}
	}
	return n
}

func c12Trees(c *Ctx) []anode {
	lf := func(v any) anode { return anode{T: "leaf", V: v} }
	S := func(k string, kids ...anode) anode { return anode{T: "S", K: k, Kids: kids} }
	C := func(kw string, ex anode) anode { return anode{T: "C", Kw: kw, Kids: []anode{ex}} }
	nl := anode{T: "nil"}
	trees := []anode{
		S("AND", S("OR", lf("a"), lf("b"))),
		S("AND", lf("x"), S("OR", lf("a")), lf("y")),
		S("OR", C("kw", lf("v"))),
		S("AND", C("kw", S("LIST", lf("a"), lf("b")))),
		S("LIST", S("AND", lf("a"), nl, lf("b")), C("k", lf(7))),
		S("NOT", S("NOT", lf("a")), S("AND")),
		S("AND", S("OR", S("NOT", lf("deep")), lf("m")), C("c1", S("AND", C("c2", lf("z"))))),
		S("BASIC", S("LIST", lf("a")), C("k", S("OR", lf("q"), nl))),
		S("AND", nl, S("LIST", nl, lf("a"), nl, nl, lf("b")), nl, C("k", S("LIST", lf("p"), nl, lf("q")))),
		S("OR", C("k", lf("v")), C("k", lf("v")), S("AND", lf(2.5), lf(true))),
		S("AND", C("outer", C("inner", lf("v"))), lf("z")),
	}
	// nested Stacks with closures of their own
	Sc := func(k string, kids ...anode) anode { return anode{T: "S", K: k, Kids: kids, Clos: true} }
	trees = append(trees, S("AND", lf("a"), Sc("OR", lf("x"), lf("y")), lf("b")), S("LIST", C("k", Sc("AND", lf("p"))), Sc("NOT", lf("q"))))
	Sf := func(k string, kids ...anode) anode { return anode{T: "S", K: k, Kids: kids, Fail: true} }
	trees = append(trees, S("AND", C("kw", Sf("LIST", lf("a"), lf("b")))), S("OR", lf("x"), C("k", S("AND", Sf("OR", lf("deep"))))), S("AND", Sf("OR", lf("x")), lf("y")), S("LIST", C("k", Sf("AND", lf("p"))), Sf("NOT", lf("q")), C("k2", lf("v"))))
	Cc := func(kw string, ex anode) anode { return anode{T: "C", Kw: kw, Kids: []anode{ex}, Clos: true} }
	trees = append(trees, S("AND", lf("a"), Cc("ck", lf("v"))), S("OR", Cc("ck", S("LIST", lf("e"))), C("outer", Cc("inner", lf("w")))))
	// nested instances with an error on record, or whose own validity closure currently says no
	mark := func(n anode, err, rej bool) anode { n.Err, n.Rej = err, rej; return n }
	for _, fl := range [][2]bool{{true, false}, {false, true}, {true, true}} {
		trees = append(trees,
			S("AND", lf("a"), mark(C("ek", lf("v")), fl[0], fl[1]), lf("b")),
			S("OR", mark(C("ek", S("LIST", lf("e"), nl)), fl[0], fl[1]), C("outer", mark(C("inner", lf("w")), fl[0], fl[1]))),
			S("AND", lf("a"), mark(S("OR", lf("x"), lf("y")), fl[0], fl[1]), lf("b")),
			S("LIST", C("k", mark(S("AND", lf("p"), S("NOT", lf("q"))), fl[0], fl[1])), mark(S("NOT"), fl[0], fl[1])),
		)
	}
	// the long regime: wide parents (8, 9, 20 elements) with the nested position first, in the middle, last
	for _, w := range []int{8, 9, 20} {
		for _, at := range []int{0, w / 2, w - 1} {
			kids := make([]anode, w)
			for i := range kids {
				kids[i] = lf(fmt.Sprintf("w%d", i))
			}
			kids[at] = S("OR", lf("in"))
			if at == w/2 {
				kids[w-1] = C("wk", S("LIST", lf("e")))
			}
			trees = append(trees, anode{T: "S", K: kindNames[(w+at)%5], Kids: kids})
		}
	}
	// ... and flat ones: five and more values, no Stack among them, Conditions (with plain expressions) first,
	// in the middle, last
	for _, w := range []int{5, 6, 7, 9, 17} {
		for _, at := range []int{0, w / 2, w - 1} {
			kids := make([]anode, w)
			for i := range kids {
				kids[i] = lf(fmt.Sprintf("f%d", i))
			}
			kids[at] = C("fk", lf("fv"))
			if at == 0 {
				kids[w-1] = C("fk2", lf(7))
			}
			trees = append(trees, anode{T: "S", K: kindNames[(w+at+1)%5], Kids: kids})
		}
	}
	if !c.Quick() {
		trees = append(trees,
			S("AND", S("OR", S("LIST", S("NOT", lf("l4"))))),
			S("LIST", C("a", S("AND", S("OR", lf("x")), C("b", S("NOT", lf("y")))))),
			S("AND", S("AND"), S("OR"), C("e", S("LIST"))),
			S("OR", lf("é"), S("LIST", lf("b c"), lf("")), C("kw", lf("日本"))),
		)
	}
	for i := range trees {
		next := 0
		number(&trees[i], &next, true)
	}
	return trees
}

func countPos(n anode) int {
	m := n.Pos
	for _, k := range n.Kids {
		if p := countPos(k); p > m {
			m = p
		}
	}
	return m
}

func init() {
	register(&Check{ID: "C12", Engine: "B", Run: func(c *Ctx) {
		if msg := sameNamedTypes(); msg != "" {
			c.Violation("same-named-types", "two distinct types that merely print the same name (function-local declarations): "+msg, nil, 0)
		}
		if msg := hollowFirst(); msg != "" {
			// alias types first met in hollow form: the order in which values of a type arrive must not matter
			c.Violation("hollow-value-seen-first", "after nil pointers / zero values of an alias type had been the first values of that type the library saw: "+msg, nil, 0)
		}
		// Start from a non-initial state of the package: zero-valued and nil-pointer instances of
		// every alias type are shown to the converters, to Push and to SetExpression before any
		// tree is built, so that anything the library remembers per type is exercised.
		c12FormsCheck(c)
		for _, z := range []any{StackAlias{}, StackAliasS{}, CondAlias{}, CondAliasS{}, (*StackAlias)(nil), (*StackAliasS)(nil), (*CondAlias)(nil), (*CondAliasS)(nil), (*stackage.Stack)(nil), (*stackage.Condition)(nil), stackage.Stack{}, stackage.Condition{}} {
			noPanic(func() {
				stackage.ConvertStack(z)
				stackage.ConvertCondition(z)
				stackage.And().Push(z).IsNesting()
				stackage.Cond("k", stackage.Eq, z).IsNesting()
			})
		}
		trees := c12Trees(c)
		var cases []c12Case
		for _, t := range trees {
			n := countPos(t)
			base := len(stackForms)
			total := 1
			for i := 0; i < n; i++ {
				total *= base
			}
			limit := 6 * 6 * 6 * 6 * 6
			for v := 0; v < total && v < limit; v++ {
				forms := make([]int, n)
				x := v
				for i := 0; i < n; i++ {
					forms[i] = x % base
					x /= base
				}
				if c.Quick() && n > 3 {
					// quick tier: at most two non-native positions at a time for the larger trees
					nn := 0
					for _, f := range forms {
						if f != 0 {
							nn++
						}
					}
					if nn > 2 {
						continue
					}
				}
				cases = append(cases, c12Case{t, forms})
			}
		}
		parallelFor(len(cases), func(i int) {
			if c.TimeUp() {
				return
			}
			c12Run(c, cases[i], true)
		})
		nf := c12FormsCheck(c)
		c.States.Store(int64(len(cases) + nf))
		c.Exhaustive = true
		c.Rule = "for every base tree (nested Stacks, Conditions with leaf and Stack expressions, nil gaps, empty stacks, multi-byte leaves) every assignment of a form {native, alias, alias with String, pointer to alias, pointer to alias with String, pointer to native} to every nested Stack position and {native, alias, alias with String, pointer to alias, pointer to native} to every nested Condition position; the tree is compared with the all-native tree built from the same description: String, Unmarshal, IsNesting, per-node Kind/Len/IsNesting/String, Condition Len/IsNesting/IsFIFO, Traverse over every path (indices -1..2, length <=3), IsEqual both ways, Defrag and Transfer results; plus no-nesting refusal, Transfer-into and the two converters for every form and for nil / zero aliases / nil pointers / unrelated types; non-trivial = distinct cases with at least one non-native position"
		c.Bound["base_trees"] = len(trees)
		c.Bound["form_assignments"] = len(cases)
		c.Sample(cases[1])
		c.Sample(cases[len(cases)/2])
		c.Sample(cases[len(cases)-1])
		_ = reflect.TypeOf
	}, Replay: func(c *Ctx, raw json.RawMessage) {
		var cs c12Case
		json.Unmarshal(raw, &cs)
		fixLeaves(&cs.Tree)
		c12Run(c, cs, false)
	}})
}

// fixLeaves undoes JSON's float64 conversion for integral leaves.
func fixLeaves(n *anode) {
	if f, ok := n.V.(float64); ok && f == float64(int(f)) && f != 2.5 {
		n.V = int(f)
	}
	for i := range n.Kids {
		fixLeaves(&n.Kids[i])
	}
}
