package main

import (
	"encoding/json"
	"fmt"
	"reflect"
	"strings"

	stackage "github.com/JesseCoretta/go-stackage"
)

// C07 — Traverse(path) equals stepwise Index descent (Engine B).

// refTraverse is written from the statement; each step uses the real Index / ConvertStack /
// ConvertCondition / Expression. failStep is the step at which the walk failed (-1 on success).
// c07Reject is the one validity closure of C07's trees that says no.
func c07Reject(...any) error { return errCat }

const c07RejectMark = "c07: validity closure rejects"

func refTraverse(s stackage.Stack, path []int) (v any, ok bool, failStep int) {
	if len(path) == 0 {
		return nil, false, 0
	}
	cur := s
	for k, idx := range path {
		// a Stack that its own validity policy currently rejects is not one to walk into (Traverse shares
		// its gate with Valid and String); one that merely ends a path is handed out like any other value
		// (the reference does not ask the library's Valid - a library that mis-judges validity must not take the
		// reference along: the stacks that were given the rejecting closure carry a category that says so)
		if cur.Category() == c07RejectMark {
			return nil, false, k
		}
		e, found := cur.Index(idx)
		if !found {
			return nil, false, k
		}
		if k == len(path)-1 {
			return e, true, -1
		}
		if st, isS := refAsStack(e); isS {
			cur = st
			continue
		}
		if cd, isC := refAsCond(e); isC {
			if st, isS := refAsStack(cd.Expression()); isS {
				cur = st
				continue
			}
		}
		return nil, false, k
	}
	return nil, false, len(path)
}

// sameValue: identical leaf, or the same underlying Stack/Condition instance (an alias and its
// native conversion count as the same).
func sameValue(a, b any) bool {
	if a == nil || b == nil {
		return a == nil && b == nil
	}
	da, db := stackage.VerifDump(a), stackage.VerifDump(b)
	if da.Class != "other" || db.Class != "other" {
		if da.Addr == 0 && db.Addr == 0 { // hollow values (zero alias, nil pointer): same type is all there is
			return da.Class == db.Class && fmt.Sprintf("%T", a) == fmt.Sprintf("%T", b)
		}
		// the same instance, handed back in the very form it is stored in (an alias stays an alias, a
		// pointer the same pointer)
		// (a Condition alias at the end of a path may come back as its native conversion: see Assumptions)
		if da.Class == "condition" {
			return da.Class == db.Class && da.Addr == db.Addr && da.Addr != 0
		}
		return da.Class == db.Class && da.Addr == db.Addr && da.Addr != 0 && fmt.Sprintf("%T", a) == fmt.Sprintf("%T", b) && samePointer(a, b)
	}
	return fmt.Sprintf("%T", a) == fmt.Sprintf("%T", b) && fmt.Sprint(a) == fmt.Sprint(b)
}

// samePointer: two pointer values are the same pointer; non-pointers pass.
func samePointer(a, b any) bool {
	ra, rb := reflect.ValueOf(a), reflect.ValueOf(b)
	if ra.Kind() == reflect.Ptr && rb.Kind() == reflect.Ptr {
		return ra.Pointer() == rb.Pointer()
	}
	return true
}

type c07Case struct {
	Tree node   `json:"tree"`
	Opts string `json:"index_options"`
	Path []int  `json:"path"`
}

func c07Opts(name string) *buildOpts {
	switch name {
	case "neg+fwd":
		return &buildOpts{neg: true, fwd: true}
	case "root-only":
		return &buildOpts{each: func(s stackage.Stack, path string) {
			if path == "r" {
				s.SetNegativeIndices(true)
				s.SetForwardIndices(true)
			}
		}}
	case "children-only":
		return &buildOpts{each: func(s stackage.Stack, path string) {
			if path != "r" {
				s.SetNegativeIndices(true)
				s.SetForwardIndices(true)
			}
		}}
	case "flags-after":
		// options that have nothing to do with traversal, switched on after the content is in place
		return &buildOpts{after: func(s stackage.Stack, path string) {
			s.SetNoNesting(true).SetParen(true).SetFold(true).SetLeadOnce(true).SetNoPadding(true)
		}}
	case "errored":
		// an earlier call left an error behind (Err() non-nil) in every stack of the tree
		return &buildOpts{fwd: true, after: func(s stackage.Stack, path string) {
			decorate(s).SetErr(errCat)
		}}
	case "rejecting-validity-below":
		// every stack below the root carries a validity policy that currently says no
		return &buildOpts{after: func(s stackage.Stack, path string) {
			if path != "r" {
				s.SetValidityPolicy(c07Reject).SetCategory(c07RejectMark)
			}
		}}
	case "rejecting-validity-at-depth-2":
		return &buildOpts{neg: true, after: func(s stackage.Stack, path string) {
			if strings.Count(path, ".") >= 2 || strings.Count(path, "/") >= 2 {
				s.SetValidityPolicy(c07Reject).SetCategory(c07RejectMark)
			}
		}}
	case "conditions-frozen-after":
		// every Condition is barred from nesting AFTER it got its expression (which stays), and made parenthetical
		return &buildOpts{fwd: true, condAfter: func(c stackage.Condition) { c.SetNoNesting(true).SetParen(true).SetNoPadding(true) }}
	case "locked-down":
		return &buildOpts{neg: true, after: func(s stackage.Stack, path string) {
			s.SetMutex().SetFIFO(true).SetNoNesting(true).SetReadOnly(true)
		}}
	}
	return &buildOpts{}
}

func c07Check(c *Ctx, s stackage.Stack, cs c07Case, treeID int, count bool) {
	var gv any
	var gok bool
	if p := noPanic(func() { gv, gok = s.Traverse(cs.Path...) }); p != "" {
		c.Violation("panic", fmt.Sprintf("Traverse%v panicked on %s: %s", cs.Path, cs.Tree, p), cs, len(cs.Path)+10)
		return
	}
	wv, wok, failStep := refTraverse(s, cs.Path)
	if count {
		c.Transitions.Add(1)
		if (failStep >= 0 && failStep < len(cs.Path)-1) || (wok && len(cs.Path) >= 2) {
			c.NontrivialN(1) // (tree, options, path) triples are distinct by construction
		}
		c.Outcome(fmt.Sprintf("%v/%d/%T", wok, failStep, wv))
	}
	if gok != wok || !sameValue(gv, wv) {
		cls := "wrong-value"
		switch {
		case gok && !wok:
			cls = "found-but-stepwise-fails"
		case !gok && wok:
			cls = "missed"
		}
		c.Violation(fmt.Sprintf("%s:len%d:fail@%d", cls, len(cs.Path), failStep),
			fmt.Sprintf("Traverse%v on %s (index options %s) = (%v,%v) but stepwise Index descent gives (%v,%v)", cs.Path, cs.Tree, cs.Opts, gv, gok, wv, wok), cs, len(cs.Path)*100+len(cs.Tree.String()))
	}
}

func c07Trees(c *Ctx) []node {
	atoms := []node{{T: "leaf"}, {T: "nil"}, {T: "E", K: "OR"}, {T: "CL"}, {T: "tnil"}}
	if !c.Quick() {
		atoms = append(atoms, node{T: "tnil2"})
	}
	wraps := []string{"S", "A", "CS", "CSE", "PA", "CA"}
	kinds := []string{"AND", "OR", "LIST", "NOT", "BASIC"}
	var nested []node
	if c.Quick() {
		nested = genStacks(1, 1, 2, atoms, wraps[:4], kinds)
	} else {
		nested = genStacks(1, 1, 2, atoms, wraps, kinds)
		nested = append(nested, genStacks(1, 1, 3, atoms[:2], []string{"PA", "CA", "AS"}, kinds)...)
		nested = append(nested, genStacks(1, 1, 2, []node{{T: "leaf"}, {T: "CCL"}}, []string{"CCS", "S"}, kinds)...) // Condition aliases
	}
	// three pointer hops above a Stack / a Condition: a way down like one hop
	nested = append(nested, genStacks(1, 1, 2, atoms[:2], []string{"P3S", "CP3S", "P3C"}, kinds)...)
	// declared pointer types above a Stack / an alias / a Condition, as element and as a Condition's expression
	nested = append(nested, genStacks(1, 1, 2, atoms[:2], []string{"NPS", "NPA", "CNPS", "NPC", "PNPS", "AF", "CAF", "CFS"}, kinds)...)
	// a Condition inside a Condition above a Stack (no way down: the outer expression is no Stack)
	nested = append(nested, genStacks(1, 1, 2, atoms[:2], []string{"C2S", "C2A"}, kinds)...)
	// pointers to interface variables (leaves) and to Stack variables (descendable, and re-pointable)
	nested = append(nested, genStacks(1, 1, 1, atoms[:1], []string{"PI", "CPI", "PS", "CPS", "RVS", "RVC", "CRVS"}, kinds)...)
	elems := append(append([]node{}, atoms...), nested...)
	elems = append(elems, node{T: "zalias"}, node{T: "nilPA"}) // hollow values of the alias types, as siblings
	var roots []node
	width := 2
	var rec func(cur []node)
	rec = func(cur []node) {
		if len(cur) >= 1 {
			roots = append(roots, node{T: "S", K: "AND", Kids: append([]node{}, cur...)})
		}
		if len(cur) == width {
			return
		}
		for _, e := range elems {
			rec(append(cur, e))
		}
	}
	rec(nil)
	if !c.Quick() {
		// depth 3: every depth-2 nested stack alone, and next to one atom on either side
		deep := genStacks(2, 1, 2, atoms, []string{"S", "A", "CS"}, kinds)
		for i, d := range deep {
			if len(d.Kids) == 0 || (d.Kids[0].T != "S" && d.Kids[0].T != "A" && d.Kids[0].T != "CS" && (len(d.Kids) < 2 || (d.Kids[1].T != "S" && d.Kids[1].T != "A" && d.Kids[1].T != "CS"))) {
				continue // depth-1 shapes are already covered above
			}
			roots = append(roots, node{T: "S", K: "OR", Kids: []node{d}})
			if i%4 == 0 {
				roots = append(roots, node{T: "S", K: "AND", Kids: []node{atoms[i%len(atoms)], d}}, node{T: "S", K: "AND", Kids: []node{d, nested[i%len(nested)]}})
			}
		}
	}
	// depth 2 in the quick tier too: a nested Stack whose only way further down is a Condition holding a
	// Stack (with and without a Stack sibling next to it)
	for i, n := range nested {
		if n.T != "CS" && n.T != "CSE" && n.T != "CA" {
			continue
		}
		k := kinds[i%len(kinds)]
		roots = append(roots,
			node{T: "S", K: "AND", Kids: []node{{T: "S", K: k, Kids: []node{{T: "leaf"}, n}}}},
			node{T: "S", K: "OR", Kids: []node{{T: "leaf"}, {T: "S", K: k, Kids: []node{n}}}},
			node{T: "S", K: "AND", Kids: []node{{T: "A", K: k, Kids: []node{n, {T: "E", K: "OR"}}}}},
			node{T: "S", K: "LIST", Kids: []node{{T: "CS", K: k, Kids: []node{{T: "leaf"}, n}}}})
	}
	// a few width-3 roots so that sibling substitution has room on the top level as well
	for _, a := range nested[:min(len(nested), 12)] {
		roots = append(roots, node{T: "S", K: "OR", Kids: []node{{T: "leaf"}, a, nested[len(nested)-1]}})
	}
	return roots
}

// c07Cyclic: structures that contain themselves (directly, through a child, through a Condition's
// expression). Every path is finite, so Traverse is as well defined as on a tree: passing through the
// same Stack twice is legal. Nothing here renders or dumps the structure (that would never end).
func c07Cyclic(c *Ctx) int {
	n := 0
	build := func(shape int) stackage.Stack {
		root := stackage.And().Push("r0")
		switch shape {
		case 0: // root holds itself
			root.Push(root, "r2")
		case 1: // root -> child -> root
			child := stackage.Or().Push("c0")
			root.Push(child, "r2")
			child.Push(root)
		case 2: // root -> Condition(root)
			root.Push(stackage.Cond("loop", stackage.Eq, root), "r2")
		case 3: // root -> alias of child -> Condition(root)
			child := stackage.List().Push("c0")
			root.Push(StackAlias(child), "r2")
			child.Push(stackage.Cond("loop", stackage.Ne, root))
		}
		return root
	}
	same := func(a, b any) bool {
		sa, oka := refAsStack(a)
		sb, okb := refAsStack(b)
		if oka || okb {
			return oka && okb && sa.Addr() == sb.Addr()
		}
		ca, oka := refAsCond(a)
		cb, okb := refAsCond(b)
		if oka || okb {
			return oka && okb && ca.Addr() == cb.Addr()
		}
		return a == b
	}
	// round 14: paths far longer than any tree is deep - legal wherever a structure contains itself. Slot 1
	// leads back into the cycle in every shape (shape 1: root -> child -> root takes two steps of 1), the
	// last step takes slot 0 (a leaf), slot 1 (the cycle again) or slot 7 (nothing)
	var long [][]int
	for _, n := range []int{64, 255, 256, 257, 258, 300, 511, 512, 513, 1025} {
		for _, last := range []int{0, 1, 7} {
			p := make([]int, n)
			for i := range p {
				p[i] = 1
			}
			p[n-1] = last
			long = append(long, p)
		}
	}
	for shape := 0; shape < 4; shape++ {
		root := build(shape)
		paths := c07Paths(5, 0, 2)
		if shape < 2 {
			paths = append(paths, long...)
		}
		for _, p := range paths {
			n++
			c.Transitions.Add(1)
			var gv any
			var gok bool
			if pn := noPanic(func() { gv, gok = root.Traverse(p...) }); pn != "" {
				c.Violation("panic:cyclic", fmt.Sprintf("Traverse%v on a structure that contains itself (shape %d) panicked: %s", p, shape, pn), nil, len(p))
				continue
			}
			wv, wok, _ := refTraverse(root, p)
			if gok != wok || !same(gv, wv) {
				c.Violation("cyclic-structure", fmt.Sprintf("Traverse%v on a structure that contains itself (shape %d: 0 root in root, 1 root in child in root, 2 root as a Condition's expression in root, 3 through an alias) = (%T,%v) but the stepwise Index descent gives (%T,%v)", p, shape, gv, gok, wv, wok), nil, len(p))
			}
		}
	}
	return n
}

// c07Chains: the long regime. Single-child chains of depth 6..14 whose links rotate through Stack,
// alias, pointer to alias and Condition-holding-a-Stack, ending in two leaves; paths: every prefix of
// the way down, every such prefix with one index changed (to 1 and to -1), and one step beyond a leaf.
func c07Chains(c *Ctx) (trees []node, paths [][][]int) {
	depths := []int{6, 9, 10, 14}
	if !c.Quick() {
		depths = []int{5, 7, 8, 9, 10, 11, 12, 16, 17, 33}
	}
	links := []string{"S", "A", "CS", "PA", "S", "CA"}
	for di, d := range depths {
		cur := node{T: "S", K: "BASIC", Kids: []node{{T: "leaf"}, {T: "leaf"}}}
		for l := 0; l < d; l++ {
			cur = node{T: links[(l+di)%len(links)], K: kindNames[(l+di)%5], Kids: []node{cur}}
		}
		root := node{T: "S", K: "AND", Kids: []node{cur}}
		var ps [][]int
		way := make([]int, d+2) // d links below the root's slot 0, then the leaf at index 0
		for n := 1; n <= len(way); n++ {
			ps = append(ps, append([]int{}, way[:n]...))
			for pos := 0; pos < n; pos++ {
				for _, alt := range []int{1, -1} {
					p := append([]int{}, way[:n]...)
					p[pos] = alt
					ps = append(ps, p)
				}
			}
		}
		ps = append(ps, append(append([]int{}, way...), 0), append(append([]int{}, way[:len(way)-1]...), 1), append(append([]int{}, way[:len(way)-1]...), 1, 0))
		trees, paths = append(trees, root), append(paths, ps)
	}
	return
}

// c07Wide: the long regime across: stacks of 8 and more elements at the root and one level down, nested
// stacks at the first, the eighth, a middle and the last position; paths: every single index from
// -width-2 to width+2, and every such index below each of the nested positions (and below -1 and beyond
// the end, for the index options).
func c07Wide(c *Ctx) (trees []node, paths [][][]int) {
	widths := []int{8, 9, 17}
	if !c.Quick() {
		widths = []int{7, 8, 9, 10, 12, 16, 17, 33, 65}
	}
	forms := []string{"S", "A", "CS", "PA"}
	for wi, w := range widths {
		inner := make([]node, w)
		for i := range inner {
			inner[i] = node{T: "leaf", V: fmt.Sprintf("in%d", i)}
		}
		inner[w-1] = node{T: "S", K: "OR", Kids: []node{{T: "leaf"}, {T: "leaf"}}}
		kids := make([]node, w)
		for i := range kids {
			kids[i] = node{T: "leaf", V: fmt.Sprintf("k%d", i)}
		}
		kids[1] = node{T: "nil"}
		for pi, pos := range []int{0, 7, w / 2, w - 1} {
			if pos < w {
				kids[pos] = node{T: forms[(pi+wi)%len(forms)], K: kindNames[(pi+wi)%5], Kids: inner}
			}
		}
		root := node{T: "S", K: kindNames[wi%5], Kids: kids}
		var ps [][]int
		for i := -w - 2; i <= w+2; i++ {
			ps = append(ps, []int{i})
			for _, first := range []int{0, 7, w / 2, w - 1, -1, w + 5, 2} {
				ps = append(ps, []int{first, i})
			}
			ps = append(ps, []int{w - 1, w - 1, i}, []int{7, -1, i})
		}
		trees, paths = append(trees, root), append(paths, ps)
	}
	return
}

// c07Dynamic: a nested stack whose validity policy depends on its content ("at least two elements") is
// frozen, walked, thawed (by the explicit form and by the argument-less toggle form), changed so that the
// policy's answer flips, frozen again and walked again: at every stage Traverse answers as the stepwise
// descent through what is there now (the harness knows the policy's answer: it wrote the policy).
func c07Dynamic(c *Ctx) int {
	n := 0
	for _, thaw := range []string{"SetReadOnly(false)", "SetReadOnly()", "ReadOnly()"} {
		for _, viaCond := range []bool{false, true} {
			for _, startLen := range []int{1, 2} {
				inner := stackage.Or()
				inner.SetValidityPolicy(func(...any) error {
					if inner.Len() < 2 {
						return errCat
					}
					return nil
				})
				for i := 0; i < startLen; i++ {
					inner.Push(fmt.Sprintf("e%d", i))
				}
				var el any = inner
				if viaCond {
					el = stackage.Cond("k", stackage.Eq, inner)
				}
				root := stackage.And().Push("p0", el)
				stage := func(name string) {
					for _, idx := range []int{0, 1, 2} {
						gv, gok := root.Traverse(1, idx)
						var wv any
						wok := false
						if inner.Len() >= 2 { // the policy's answer right now
							wv, wok = inner.Index(idx)
						}
						n++
						c.Transitions.Add(1)
						if gok != wok || gv != wv {
							c.Violation("dynamic-validity:"+opClass(thaw), fmt.Sprintf("nested stack (policy: at least two elements; now %d; thawed by %s; below a Condition: %v) at stage %q: Traverse(1,%d)=(%v,%v), the stepwise descent gives (%v,%v)", inner.Len(), thaw, viaCond, name, idx, gv, gok, wv, wok), nil, 0)
						}
					}
				}
				stage("built")
				inner.SetReadOnly(true)
				stage("frozen")
				stage("frozen, asked again")
				switch thaw {
				case "SetReadOnly(false)":
					inner.SetReadOnly(false)
				case "SetReadOnly()":
					inner.SetReadOnly()
				default:
					inner.ReadOnly()
				}
				if startLen == 1 {
					inner.Push("more")
				} else {
					inner.Pop()
				}
				stage("thawed and changed")
				inner.SetReadOnly(true)
				stage("frozen again")
			}
		}
	}
	return n
}

func c07Paths(maxLen, lo, hi int) [][]int {
	var out [][]int
	var rec func(cur []int)
	rec = func(cur []int) {
		out = append(out, append([]int{}, cur...))
		if len(cur) == maxLen {
			return
		}
		for i := lo; i <= hi; i++ {
			rec(append(cur, i))
		}
	}
	rec(nil)
	return out
}

// c07Prelude puts the package into a non-initial state first: hollow values of every alias type (zero
// alias, nil pointers) are traversed through, so that anything the library remembers per type has been
// written before the trees are examined (runs and replays alike, so that replays are self-contained).
func c07Prelude() {
	noPanic(func() {
		h := stackage.And().Push(StackAlias{}, (*StackAlias)(nil), StackAliasS{}, (*StackAliasS)(nil), (*stackage.Stack)(nil), stackage.Stack{},
			CondAlias{}, (*CondAlias)(nil), stackage.Condition{}, (*stackage.Condition)(nil))
		for i := 0; i < h.Len(); i++ {
			h.Traverse(i)
			h.Traverse(i, 0)
			h.Traverse(i, 0, 0)
		}
	})
}

func init() {
	register(&Check{ID: "C07", Engine: "B", Run: func(c *Ctx) {
		if msg := hollowFirst(); msg != "" {
			// alias types first met in hollow form: the order in which values of a type arrive must not matter
			c.Violation("hollow-value-seen-first", "after nil pointers / zero values of an alias type had been the first values of that type the library saw: "+msg, nil, 0)
		}
		c07Prelude()
		trees := c07Trees(c)
		maxLen := 3
		if !c.Quick() {
			maxLen = 4
		}
		paths := c07Paths(maxLen, -1, 3)
		optNames := []string{"default", "neg+fwd", "root-only", "children-only", "flags-after", "locked-down", "errored", "rejecting-validity-below", "rejecting-validity-at-depth-2", "conditions-frozen-after"}
		c.Rule = "every tree of the bounded family (elements: leaf, nil, empty Stack, Condition(leaf), and nested Stack / alias / pointer-to-alias / Condition(Stack) / Condition(alias) / Condition(Stack) completed after construction; zero alias and nil pointer-to-alias siblings) x 7 option placements (4 for the index options, 3 that switch unrelated flags, mutex, FIFO, read-only, presentation settings or an earlier error on after filling) x every index path of length 0..max with indices in [-1,3]; plus single-child chains of depth 6..14 (thorough: ..33) with every prefix of the way down, every one-index deviation from it and steps beyond a leaf; oracle = stepwise descent written from the statement using the real Index/Convert*/Expression; non-trivial = distinct (tree, options, path) where the stepwise walk fails before the last index or succeeds at depth >= 2"
		c.Bound["trees"] = len(trees)
		c.Bound["paths_per_tree"] = len(paths)
		c.Bound["max_path_len"] = maxLen
		c.Bound["index_range"] = "[-1,3]"
		c.Exhaustive = true
		parallelFor(len(trees), func(i int) {
			if c.TimeUp() {
				return
			}
			for _, on := range optNames {
				var ptrs []*stackage.Stack
				opts := c07Opts(on)
				opts.ptrs = &ptrs
				s := trees[i].buildStack("r", opts)
				before := dumpKey(s)
				for _, p := range paths {
					c07Check(c, s, c07Case{trees[i], on, p}, i, true)
				}
				if after := dumpKey(s); after != before {
					c.Violation("traverse-mutates", fmt.Sprintf("Traverse changed the tree %s", trees[i]), c07Case{trees[i], on, nil}, 0)
				}
				c.States.Add(1)
				if len(ptrs) > 0 && on == "default" {
					// the pointer variables now point at other Stacks (no setter was called): every path
					// again, against the descent through what is there now
					for k, p := range ptrs {
						*p = stackage.And().Push(fmt.Sprintf("repointed%d-0", k), stackage.Or().Push(fmt.Sprintf("repointed%d-1", k)))
					}
					for _, p := range paths {
						c07Check(c, s, c07Case{trees[i], on + " (pointer variables re-pointed)", p}, i, true)
					}
				}
			}
		})
		chains, chainPaths := c07Chains(c)
		for i := range chains {
			for _, on := range []string{"default", "neg+fwd", "errored"} {
				s := chains[i].buildStack("r", c07Opts(on))
				for _, p := range chainPaths[i] {
					c07Check(c, s, c07Case{chains[i], on, p}, i, true)
				}
				c.States.Add(1)
			}
		}
		c.Bound["chain_depths"] = len(chains)
		wide, widePaths := c07Wide(c)
		for i := range wide {
			for _, on := range optNames {
				s := wide[i].buildStack("r", c07Opts(on))
				before := dumpKey(s)
				for _, p := range widePaths[i] {
					c07Check(c, s, c07Case{wide[i], on, p}, i, true)
				}
				if after := dumpKey(s); after != before {
					c.Violation("traverse-mutates", fmt.Sprintf("Traverse changed the tree %s", wide[i]), c07Case{wide[i], on, nil}, 0)
				}
				c.States.Add(1)
			}
		}
		c.Bound["wide_trees"] = len(wide)
		c.Bound["traversals_around_a_policy_whose_answer_changes"] = c07Dynamic(c)
		c.Bound["paths_on_self_containing_structures"] = c07Cyclic(c)
		c.Traces.Store(c.Transitions.Load())
		c.Evals.Store(c.Transitions.Load())
		c.Sample(c07Case{trees[0], "default", paths[len(paths)/2]})
		c.Sample(c07Case{trees[len(trees)/2], "neg+fwd", paths[len(paths)-1]})
		c.Sample(c07Case{trees[len(trees)-1], "root-only", paths[7]})
		c.Assumptions = append(c.Assumptions, "at the end of a path a Condition alias may be returned as its native conversion (same underlying instance)")
	}, Replay: func(c *Ctx, raw json.RawMessage) {
		var cs c07Case
		json.Unmarshal(raw, &cs)
		c07Prelude()
		const repointed = " (pointer variables re-pointed)"
		var ptrs []*stackage.Stack
		opts := c07Opts(strings.TrimSuffix(cs.Opts, repointed))
		opts.ptrs = &ptrs
		s := cs.Tree.buildStack("r", opts)
		if strings.HasSuffix(cs.Opts, repointed) {
			s.Traverse(cs.Path...) // the first pass looked at the tree before the variables changed
			for k, p := range ptrs {
				*p = stackage.And().Push(fmt.Sprintf("repointed%d-0", k), stackage.Or().Push(fmt.Sprintf("repointed%d-1", k)))
			}
		}
		_ = opts
		c07Check(c, s, cs, 0, false)
	}})
}
