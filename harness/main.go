// Command check decides the go-stackage properties C01..C20 by bounded
// exhaustive exploration of the real implementation (see /verif/DESIGN.md).
package main

import (
	"crypto/sha1"
	"encoding/json"
	"flag"
	"fmt"
	"io"
	"os"
	"os/exec"
	"path/filepath"
	"regexp"
	"runtime"
	"runtime/debug"
	"sort"
	"strconv"
	"strings"
	"sync"
	"sync/atomic"
	"time"
)

const verifRoot = "/verif"

// Check is one registered decision procedure.
type Check struct {
	ID     string
	Engine string
	Run    func(c *Ctx)
	// Replay re-executes one recorded case; it reports through c.Violation.
	Replay func(c *Ctx, raw json.RawMessage)
}

var registry = map[string]*Check{}

func register(ch *Check) { registry[ch.ID] = ch }

// Viol is one class of violation (all violations sharing a key).
type Viol struct {
	Key    string `json:"key"`
	Detail string `json:"detail"`
	Case   any    `json:"case"`
	Count  int64  `json:"count"`
	Size   int    `json:"size"`
}

// Ctx carries the per-run configuration and accumulates coverage.
type Ctx struct {
	Prop  string
	Tier  string
	Seed  int64
	Shard int
	Of    int
	Start time.Time
	// Deadline after which enumerations stop early (exhaustive=false, still exit 0).
	Deadline time.Time

	mu    sync.Mutex
	viols map[string]*Viol

	States      atomic.Int64
	Transitions atomic.Int64
	Traces      atomic.Int64
	Evals       atomic.Int64
	Skipped     atomic.Int64 // cases whose premise could not be established (not counted as checked)
	nontrivial  sync.Map
	ntCount     atomic.Int64
	outcomes    sync.Map
	outCount    atomic.Int64

	Samples     []any
	Rule        string
	Bound       map[string]any
	Exhaustive  bool
	Assumptions []string
	Extra       map[string]any
	capped      atomic.Bool
}

func (c *Ctx) Quick() bool { return c.Tier == "quick" }

// TimeUp reports whether the internal deadline has passed; callers stop early and the
// run is reported as non-exhaustive.
func (c *Ctx) TimeUp() bool {
	if time.Now().After(c.Deadline) {
		c.capped.Store(true)
		return true
	}
	return false
}

// Nontrivial counts a distinct non-trivial case by an identifying string.
func (c *Ctx) Nontrivial(id string) {
	h := sha1.Sum([]byte(id))
	if _, loaded := c.nontrivial.LoadOrStore(h, struct{}{}); !loaded {
		c.ntCount.Add(1)
	}
}

// NontrivialN counts n non-trivial cases that are distinct by construction of the enumeration
// (used where keeping a set of hundreds of millions of identifiers would exhaust memory).
func (c *Ctx) NontrivialN(n int64) { c.ntCount.Add(n) }

// Outcome records a distinct observed outcome (used to show exploration is not vacuous).
func (c *Ctx) Outcome(id string) {
	h := sha1.Sum([]byte(id))
	if _, loaded := c.outcomes.LoadOrStore(h, struct{}{}); !loaded {
		c.outCount.Add(1)
	}
}

func (c *Ctx) Sample(s any) {
	c.mu.Lock()
	if len(c.Samples) < 12 {
		c.Samples = append(c.Samples, s)
	}
	c.mu.Unlock()
}

// Violation records a violation under a stable key; the smallest case per key is kept.
func (c *Ctx) Violation(key, detail string, cas any, size int) {
	c.mu.Lock()
	defer c.mu.Unlock()
	v := c.viols[key]
	if v == nil {
		c.viols[key] = &Viol{Key: key, Detail: detail, Case: cas, Count: 1, Size: size}
		journalViolation(c.viols[key])
		return
	}
	v.Count++
	if size < v.Size {
		v.Detail, v.Case, v.Size = detail, cas, size
	}
}

// journalViolation appends the first case of a new violation class to the journal the supervising
// process reads if this worker dies before it can report (a fatal runtime error in the code under
// test - out of memory, stack overflow, a corrupted slice header - cannot be recovered in-process).
func journalViolation(v *Viol) {
	path := os.Getenv("VERIF_JOURNAL")
	if path == "" {
		return
	}
	data, err := json.Marshal(v)
	if err != nil {
		data, _ = json.Marshal(&Viol{Key: v.Key, Detail: v.Detail, Count: 1, Size: v.Size})
	}
	if f, err := os.OpenFile(path, os.O_APPEND|os.O_CREATE|os.O_WRONLY, 0o644); err == nil {
		f.Write(append(data, '\n'))
		f.Close()
	}
	if os.Getenv("VERIF_TEST_DIE_AFTER_FIRST_VIOLATION") != "" {
		os.Exit(3) // self-test of the supervising process: die as a fatal runtime error would
	}
}

// supervise runs the check in a worker process. A worker that ends normally has said everything
// itself. A worker that dies is a verdict only if it had already recorded a violation; otherwise the
// run is an infrastructure failure (exit 2), never a pass.
func supervise(prop, tier string) int {
	exe, err := os.Executable()
	if err != nil {
		return -1
	}
	journal := filepath.Join(verifRoot, ".bin", fmt.Sprintf("journal-%s-%d.jsonl", prop, os.Getpid()))
	os.Remove(journal)
	defer os.Remove(journal)
	cmd := exec.Command(exe, os.Args[1:]...)
	cmd.Env = append(os.Environ(), "VERIF_WORKER=1", "VERIF_JOURNAL="+journal)
	tail := &tailWriter{max: 256 << 10}
	cmd.Stdout, cmd.Stderr = os.Stdout, io.MultiWriter(os.Stderr, tail)
	start := time.Now()
	err = cmd.Run()
	code := 0
	if err != nil {
		code = -1
		if ee, ok := err.(*exec.ExitError); ok {
			code = ee.ExitCode()
		}
	}
	if code == 0 || code == 1 {
		return code
	}
	// the worker died (or gave up without a verdict): report what it had found before
	fs := loadFindings()
	nviol := 0
	if data, err := os.ReadFile(journal); err == nil {
		os.MkdirAll(filepath.Join(verifRoot, "replays"), 0o755)
		for _, line := range strings.Split(string(data), "\n") {
			var v Viol
			if json.Unmarshal([]byte(line), &v) != nil || v.Key == "" || matchFinding(fs, prop, v.Key) != nil {
				continue
			}
			nviol++
			h := sha1.Sum([]byte(v.Key))
			path := filepath.Join(verifRoot, "replays", fmt.Sprintf("%s-%x.json", prop, h[:6]))
			rep := map[string]any{"property": prop, "key": v.Key, "detail": v.Detail, "case": v.Case, "count": v.Count, "tier": tier, "note": "recorded before the worker process died"}
			out, _ := json.MarshalIndent(rep, "", " ")
			os.WriteFile(path, append(out, '\n'), 0o644)
			if nviol <= 25 {
				fmt.Printf("VIOLATION property=%s replay=%s\n  key=%s (first case; the worker process died before the search finished)\n  %s\n", prop, path, v.Key, oneLine(v.Detail, 600))
			}
		}
	}
	// a crash the Go runtime does not let anybody recover from (fatal error: unlock of unlocked mutex,
	// concurrent map writes, stack exhaustion ...) or a panic on a goroutine nobody guards, raised with the
	// library's own frames on the crashing goroutine, is the library not returning normally: a violation of
	// its own. Running out of memory is not attributed (the harness's scale, not the library's doing).
	if msg, trace := libraryCrash(tail.String()); msg != "" && matchFinding(fs, prop, "crash:"+msg) == nil {
		nviol++
		h := sha1.Sum([]byte("crash:" + msg))
		path := filepath.Join(verifRoot, "replays", fmt.Sprintf("%s-%x.json", prop, h[:6]))
		os.MkdirAll(filepath.Join(verifRoot, "replays"), 0o755)
		rep := map[string]any{"property": prop, "key": "crash:" + msg, "detail": trace, "tier": tier, "note": "the worker process crashed inside the library; re-run the check to reproduce (no single case can be named: the runtime killed the process)"}
		out, _ := json.MarshalIndent(rep, "", " ")
		os.WriteFile(path, append(out, '\n'), 0o644)
		fmt.Printf("VIOLATION property=%s replay=%s\n  key=crash:%s\n  the process running the check was killed by the Go runtime inside the library: %s\n", prop, path, msg, oneLine(trace, 900))
	}
	fmt.Printf("INFRASTRUCTURE: the worker process ended abnormally (exit code %d) after %.1fs; %d violation class(es) had been recorded\n", code, time.Since(start).Seconds(), nviol)
	if nviol > 0 {
		c := &Ctx{Prop: prop, Tier: tier, Start: start, Bound: map[string]any{}, Extra: map[string]any{"worker_died": true}, Rule: "the worker process died; only the violations journalled before that are reported"}
		c.Samples = []any{"(worker died)"}
		// what is known for certain: the journalled cases were executed against the implementation
		c.States.Store(int64(nviol))
		c.Transitions.Store(int64(nviol))
		c.Traces.Store(int64(nviol))
		c.Evals.Store(int64(nviol))
		c.writeEvidence(nviol, 0)
		return 1
	}
	return 2
}

// tailWriter keeps the beginning of what is written to it (a crash report starts with its cause).
type tailWriter struct {
	mu  sync.Mutex
	buf []byte
	max int
}

func (t *tailWriter) Write(p []byte) (int, error) {
	t.mu.Lock()
	defer t.mu.Unlock()
	if room := t.max - len(t.buf); room > 0 {
		if len(p) < room {
			room = len(p)
		}
		t.buf = append(t.buf, p[:room]...)
	}
	return len(p), nil
}

func (t *tailWriter) String() string {
	t.mu.Lock()
	defer t.mu.Unlock()
	return string(t.buf)
}

// libraryCrash looks for a runtime crash report in the worker's stderr and returns its message and the
// crashing goroutine's trace if that trace runs through the library; ("", "") otherwise.
func libraryCrash(stderr string) (msg, trace string) {
	i := strings.Index(stderr, "fatal error: ")
	kind := "fatal error: "
	if j := strings.Index(stderr, "\npanic: "); i < 0 || (j >= 0 && j < i) {
		if j < 0 {
			if !strings.HasPrefix(stderr, "panic: ") {
				return "", ""
			}
			j = -1
		}
		i, kind = j+1, "panic: "
	}
	rest := stderr[i:]
	line := rest
	if k := strings.Index(rest, "\n"); k >= 0 {
		line = rest[:k]
	}
	msg = strings.TrimPrefix(line, kind)
	low := strings.ToLower(msg)
	if strings.Contains(low, "out of memory") || strings.Contains(low, "cannot allocate") {
		return "", ""
	}
	// the first goroutine block after the message is the crashing one
	g := strings.Index(rest, "\ngoroutine ")
	if g < 0 {
		return "", ""
	}
	block := rest[g+1:]
	if k := strings.Index(block, "\n\n"); k >= 0 {
		block = block[:k]
	}
	if !strings.Contains(block, "github.com/JesseCoretta/go-stackage.") {
		return "", ""
	}
	// strip addresses so that the key is stable
	msg = regexp.MustCompile(`0x[0-9a-f]+`).ReplaceAllString(msg, "0x..")
	if len(msg) > 120 {
		msg = msg[:120]
	}
	return msg, kind + msg + "\n" + block
}

func (c *Ctx) NumViolKeys() int {
	c.mu.Lock()
	defer c.mu.Unlock()
	return len(c.viols)
}

// Workers is the degree of in-process parallelism.
func Workers() int {
	n := runtime.NumCPU()
	if n > 16 {
		n = 16
	}
	if n < 1 {
		n = 1
	}
	return n
}

// activeCtx is the run's context (for code that has no other way to report).
var activeCtx *Ctx

// guarded wraps a per-case function: a panic that escapes a case - the oracle meeting a shape it cannot
// interpret, typically because the library built or returned something the description rules out - is
// recorded as a violation of that case instead of killing the whole run.
func guarded(f func(i int)) func(i int) {
	return func(i int) {
		defer func() {
			if r := recover(); r != nil {
				if _, abort := r.(abortSentinel); abort {
					panic(r)
				}
				if dp, dead := r.(deadlockPanic); dead {
					heldMutexes.Delete(dp.mutex)
				}
				st := shortStack(debug.Stack())
				if c := activeCtx; c != nil {
					c.Violation("oracle-panic:"+panicSite(st), fmt.Sprintf("case #%d: the check itself panicked while examining what the library produced (%v): the result does not have the shape the description requires\n%s", i, r, st), nil, 1<<20)
					return
				}
				panic(r)
			}
		}()
		f(i)
	}
}

// parallelFor runs f(i) for i in [0,n) on all cores; f must be safe for concurrent use.
func parallelFor(n int, f func(i int)) {
	f = guarded(f)
	w := Workers()
	if w > n {
		w = n
	}
	if w <= 1 {
		for i := 0; i < n; i++ {
			f(i)
		}
		return
	}
	var next atomic.Int64
	var wg sync.WaitGroup
	for k := 0; k < w; k++ {
		wg.Add(1)
		go func() {
			defer wg.Done()
			for {
				i := int(next.Add(1) - 1)
				if i >= n {
					return
				}
				f(i)
			}
		}()
	}
	wg.Wait()
}

// ---- known findings -------------------------------------------------------------------

type finding struct {
	prop, key, text string
}

func loadFindings() []finding {
	data, err := os.ReadFile(filepath.Join(verifRoot, "known_findings.txt"))
	if err != nil {
		return nil
	}
	var out []finding
	for _, ln := range strings.Split(string(data), "\n") {
		ln = strings.TrimSpace(ln)
		if !strings.HasPrefix(ln, "finding:") {
			continue // comments, blank lines and "fixed:" entries suppress nothing
		}
		f := finding{}
		rest := strings.TrimSpace(strings.TrimPrefix(ln, "finding:"))
		fields := strings.Fields(rest)
		var text []string
		for _, fl := range fields {
			switch {
			case strings.HasPrefix(fl, "property=") && f.prop == "":
				f.prop = strings.TrimPrefix(fl, "property=")
			case strings.HasPrefix(fl, "key=") && f.key == "":
				f.key = strings.TrimPrefix(fl, "key=")
			default:
				text = append(text, fl)
			}
		}
		f.text = strings.Join(text, " ")
		if f.prop != "" && f.key != "" {
			out = append(out, f)
		}
	}
	return out
}

func matchFinding(fs []finding, prop, key string) *finding {
	for i := range fs {
		if fs[i].prop == prop && fs[i].key == key {
			return &fs[i]
		}
	}
	return nil
}

// ---- evidence --------------------------------------------------------------------------

func (c *Ctx) writeEvidence(nviol int, known int) {
	cov := map[string]any{
		"states":                        c.States.Load(),
		"transitions":                   c.Transitions.Load(),
		"traces_validated_against_impl": c.Traces.Load(),
		"evaluations":                   c.Evals.Load(),
		"distinct_nontrivial":           c.ntCount.Load(),
		"distinct_outcomes":             c.outCount.Load(),
		"rule":                          c.Rule,
		"samples":                       c.Samples,
		"exhaustive":                    c.Exhaustive && !c.capped.Load(),
		"bound":                         c.Bound,
		"known_findings_reobserved":     known,
	}
	if n := c.Skipped.Load(); n > 0 {
		cov["cases_skipped_premise_not_established"] = n
	}
	if c.capped.Load() {
		cov["cap_hit"] = "internal deadline reached; counts describe what was completed"
	}
	for k, v := range c.Extra {
		cov[k] = v
	}
	if len(c.Samples) == 0 {
		cov["samples"] = []any{"(no case executed)"}
	}
	ev := map[string]any{
		"property_id": c.Prop,
		"tier":        c.Tier,
		"seed":        c.Seed,
		"level":       "model_checking",
		"coverage":    cov,
		"assumptions": c.Assumptions,
		"wall_s":      time.Since(c.Start).Seconds(),
		"violations":  nviol,
	}
	if c.Assumptions == nil {
		ev["assumptions"] = []string{}
	}
	data, _ := json.MarshalIndent(ev, "", " ")
	dir := filepath.Join(verifRoot, "evidence")
	if d := os.Getenv("VERIF_EVIDENCE_DIR"); d != "" {
		dir = d // seedtest.sh: a run against a seeded change must not overwrite the evidence of the registered checks
	}
	os.MkdirAll(dir, 0o755)
	name := c.Prop + ".json"
	if c.Of > 1 {
		name = fmt.Sprintf(".%s.shard%d.json", c.Prop, c.Shard)
	}
	tmp := filepath.Join(dir, name+".tmp")
	if err := os.WriteFile(tmp, append(data, '\n'), 0o644); err == nil {
		os.Rename(tmp, filepath.Join(dir, name))
	}
}

func jsonString(v any) string {
	b, err := json.Marshal(v)
	if err != nil {
		return fmt.Sprintf("%#v", v)
	}
	return string(b)
}

// finish prints KNOWN-FINDING / VIOLATION lines, writes replays and evidence, returns exit code.
func (c *Ctx) finish() int {
	fs := loadFindings()
	keys := make([]string, 0, len(c.viols))
	for k := range c.viols {
		keys = append(keys, k)
	}
	sort.Strings(keys)
	nviol, known := 0, 0
	os.MkdirAll(filepath.Join(verifRoot, "replays"), 0o755)
	for _, k := range keys {
		v := c.viols[k]
		if f := matchFinding(fs, c.Prop, k); f != nil {
			known++
			fmt.Printf("KNOWN-FINDING: property=%s key=%s %s (observed %d time(s); e.g. %s)\n", c.Prop, k, f.text, v.Count, oneLine(v.Detail, 200))
			continue
		}
		nviol++
		h := sha1.Sum([]byte(k))
		path := filepath.Join(verifRoot, "replays", fmt.Sprintf("%s-%x.json", c.Prop, h[:6]))
		rep := map[string]any{"property": c.Prop, "key": k, "detail": v.Detail, "case": v.Case, "count": v.Count, "tier": c.Tier}
		data, _ := json.MarshalIndent(rep, "", " ")
		os.WriteFile(path, append(data, '\n'), 0o644)
		if nviol <= 25 {
			fmt.Printf("VIOLATION property=%s replay=%s\n", c.Prop, path)
			fmt.Printf("  key=%s count=%d\n  %s\n", k, v.Count, oneLine(v.Detail, 600))
		}
	}
	if nviol > 25 {
		fmt.Printf("(%d further violation classes not printed; see %s/replays)\n", nviol-25, verifRoot)
	}
	c.writeEvidence(nviol, known)
	fmt.Printf("%s %s: states=%d transitions=%d traces=%d evaluations=%d nontrivial=%d outcomes=%d exhaustive=%v violations=%d known=%d wall=%.1fs\n",
		c.Prop, c.Tier, c.States.Load(), c.Transitions.Load(), c.Traces.Load(), c.Evals.Load(), c.ntCount.Load(), c.outCount.Load(),
		c.Exhaustive && !c.capped.Load(), nviol, known, time.Since(c.Start).Seconds())
	if nviol > 0 {
		return 1
	}
	return 0
}

func oneLine(s string, max int) string {
	s = strings.ReplaceAll(s, "\n", " ; ")
	if len(s) > max {
		s = s[:max] + "..."
	}
	return s
}

func main() {
	prop := flag.String("prop", "", "property id (C01..C20)")
	tier := flag.String("tier", "quick", "quick|thorough")
	replay := flag.String("replay", "", "replay file")
	shard := flag.String("shard", "", "i/n (internal)")
	budget := flag.Duration("budget", 0, "internal deadline override")
	racebody := flag.Bool("racebody", false, "run the free-running bodies (inside the -race binary)")
	flag.Parse()
	if *racebody {
		if t := os.Getenv("VERIF_TIER"); (t == "quick" || t == "thorough") && !flagSet("tier") {
			*tier = t
		}
		raceBodyMain(*prop, *tier)
		return
	}
	ch := registry[*prop]
	if ch == nil {
		fmt.Fprintf(os.Stderr, "unknown property %q\n", *prop)
		os.Exit(2)
	}
	if t := os.Getenv("VERIF_TIER"); t != "" && (t == "quick" || t == "thorough") && !flagSet("tier") {
		*tier = t
	}
	if os.Getenv("VERIF_WORKER") == "" && *shard == "" && *replay == "" {
		if code := supervise(*prop, *tier); code >= 0 {
			os.Exit(code)
		}
		// could not start a worker: run in-process
	}
	seed, _ := strconv.ParseInt(os.Getenv("VERIF_SEED"), 10, 64)
	c := &Ctx{Prop: *prop, Tier: *tier, Seed: seed, Start: time.Now(), viols: map[string]*Viol{}, Bound: map[string]any{}, Extra: map[string]any{}, Of: 1}
	if *shard != "" {
		fmt.Sscanf(*shard, "%d/%d", &c.Shard, &c.Of)
	}
	d := 4 * time.Minute
	if *tier == "thorough" {
		d = 25 * time.Minute
	}
	if *budget > 0 {
		d = *budget
	}
	c.Deadline = c.Start.Add(d)
	activeCtx = c
	// watchdog: a hang (a call that never returns in the code under test) must not stall the caller
	// forever; well after the internal deadline the process gives up without a verdict.
	go func() {
		time.Sleep(2*d + 5*time.Minute)
		fmt.Println("INFRASTRUCTURE: watchdog expired (a call into the library never returned?); no verdict")
		os.Exit(2)
	}()
	envPrelude()
	if *replay != "" {
		data, err := os.ReadFile(*replay)
		if err != nil {
			fmt.Fprintln(os.Stderr, err)
			os.Exit(2)
		}
		var rep struct {
			Case json.RawMessage `json:"case"`
		}
		var at struct {
			Case struct {
				At int `json:"queries_issued_only_after_step"`
			} `json:"case"`
		}
		if json.Unmarshal(data, &at) == nil {
			replayObservedAt = at.Case.At
		}
		if strings.Contains(string(data), `"key": "crash:`) {
			fmt.Println("replay: this violation is a crash of the whole process inside the library (see \"detail\" in the file); re-run the check itself to reproduce it")
			os.Exit(1)
		}
		if err := json.Unmarshal(data, &rep); err != nil || ch.Replay == nil {
			fmt.Fprintln(os.Stderr, "replay not supported for this file/property", err)
			os.Exit(2)
		}
		ch.Replay(c, rep.Case)
		if len(c.viols) == 0 {
			fmt.Printf("replay: no violation reproduced\n")
			os.Exit(0)
		}
		for k, v := range c.viols {
			fmt.Printf("replay: VIOLATION property=%s key=%s\n  %s\n", c.Prop, k, v.Detail)
		}
		os.Exit(1)
	}
	ch.Run(c)
	if c.Of > 1 {
		// shard worker: dump raw results for the parent
		c.writeShard()
		os.Exit(0)
	}
	os.Exit(c.finish())
}

func flagSet(name string) bool {
	found := false
	flag.Visit(func(f *flag.Flag) {
		if f.Name == name {
			found = true
		}
	})
	return found
}

// ---- process sharding (used by the scheduler engine, whose hook is process-global) --------

type shardResult struct {
	Viols       []*Viol  `json:"viols"`
	States      int64    `json:"states"`
	Transitions int64    `json:"transitions"`
	Traces      int64    `json:"traces"`
	Evals       int64    `json:"evals"`
	Nontrivial  []string `json:"nontrivial"`
	Outcomes    []string `json:"outcomes"`
	Samples     []any    `json:"samples"`
	Capped      bool     `json:"capped"`
	Extra       map[string]any
}

func (c *Ctx) writeShard() {
	r := shardResult{States: c.States.Load(), Transitions: c.Transitions.Load(), Traces: c.Traces.Load(), Evals: c.Evals.Load(), Samples: c.Samples, Capped: c.capped.Load(), Extra: c.Extra}
	for _, v := range c.viols {
		v2 := *v
		r.Viols = append(r.Viols, &v2)
	}
	c.nontrivial.Range(func(k, _ any) bool {
		h := k.([20]byte)
		r.Nontrivial = append(r.Nontrivial, fmt.Sprintf("%x", h[:]))
		return true
	})
	c.outcomes.Range(func(k, _ any) bool {
		h := k.([20]byte)
		r.Outcomes = append(r.Outcomes, fmt.Sprintf("%x", h[:]))
		return true
	})
	data, _ := json.Marshal(r)
	os.Stdout.Write([]byte("SHARD-RESULT " + string(data) + "\n"))
}
