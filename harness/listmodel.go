package main

import (
	"fmt"
	"regexp"
	"strconv"
	"strings"

	stackage "github.com/JesseCoretta/go-stackage"
)

// listModel is the boring reference: an ordered list with an optional capacity and a
// one-way FIFO flag, written from the property statements (C01, C03), not from the code.
type listModel struct {
	items []any
	fifo  bool
	capk  int // 0 = no capacity
	neg   bool
	fwd   bool
	// nonest: the no-nesting option is set (Stack-like values are skipped by push)
	nonest bool
	// rejectB: a push policy rejects string values ending in "b" (used by the C10 scenarios)
	rejectB bool
	// ro: the read-only flag is up (only the C10 scenarios that raise it look at this)
	ro bool
	// reject: a push policy rejects exactly these values (with one and the same error value every time)
	reject func(v any) bool
}

func (m *listModel) clone() *listModel {
	c := *m
	c.items = append([]any{}, m.items...)
	return &c
}

func (m *listModel) full() bool { return m.capk > 0 && len(m.items) >= m.capk }

func (m *listModel) push(vals ...any) {
	for _, v := range vals {
		if m.nonest && isStackLike(v) {
			continue // refused; it does not use up room
		}
		if m.full() {
			continue
		}
		if s, ok := v.(string); ok && m.rejectB && strings.HasSuffix(s, "b") {
			break // the policy rejects it: the batch stops here
		}
		if m.reject != nil && m.reject(v) {
			break
		}
		m.items = append(m.items, v)
	}
}

func (m *listModel) pop() (any, bool) {
	if len(m.items) == 0 {
		return nil, false
	}
	var v any
	if m.fifo {
		v = m.items[0]
		m.items = append([]any{}, m.items[1:]...)
	} else {
		v = m.items[len(m.items)-1]
		m.items = m.items[:len(m.items)-1]
	}
	return v, v != nil
}

func (m *listModel) insert(x any, left int) bool {
	if x == nil || m.full() {
		return false
	}
	if left < 0 {
		left = 0
	}
	if left > len(m.items) {
		left = len(m.items)
	}
	n := make([]any, 0, len(m.items)+1)
	n = append(n, m.items[:left]...)
	n = append(n, x)
	n = append(n, m.items[left:]...)
	m.items = n
	return true
}

// resolve maps a public index to a position honouring the two index options (C08 wording).
func (m *listModel) resolve(i int) (int, bool) {
	L := len(m.items)
	if L == 0 {
		return 0, false
	}
	switch {
	case i >= 0 && i < L:
		return i, true
	case i < 0:
		if m.neg && i >= -L { // avoids negating MinInt
			return L + i, true
		}
	case i >= L:
		if m.fwd {
			return L - 1, true
		}
	}
	return 0, false
}

func (m *listModel) index(i int) (any, bool) {
	p, ok := m.resolve(i)
	if !ok {
		return nil, false
	}
	return m.items[p], m.items[p] != nil
}

// remove: a nil slot cannot be removed; the call truthfully reports (nil,false) and
// changes nothing (DESIGN.md §4).
func (m *listModel) remove(i int) (any, bool) {
	p, ok := m.resolve(i)
	if !ok || m.items[p] == nil {
		return nil, false
	}
	v := m.items[p]
	n := append([]any{}, m.items[:p]...)
	m.items = append(n, m.items[p+1:]...)
	return v, true
}

// replace and swap take plain positions only (they do not honour the index options).
func (m *listModel) replace(x any, i int) bool {
	if x == nil || i < 0 || i >= len(m.items) {
		return false
	}
	m.items[i] = x
	return true
}

func (m *listModel) swap(i, j int) {
	if i < 0 || j < 0 || i >= len(m.items) || j >= len(m.items) {
		return
	}
	m.items[i], m.items[j] = m.items[j], m.items[i]
}

func (m *listModel) reverse() {
	for i, j := 0, len(m.items)-1; i < j; i, j = i+1, j-1 {
		m.items[i], m.items[j] = m.items[j], m.items[i]
	}
}

func (m *listModel) reset() { m.items = nil }

func (m *listModel) front() (any, bool) {
	if m.fifo {
		return m.firstNonNil()
	}
	return m.lastNonNil()
}

func (m *listModel) back() (any, bool) {
	if m.fifo {
		return m.lastNonNil()
	}
	return m.firstNonNil()
}

func (m *listModel) firstNonNil() (any, bool) {
	for _, v := range m.items {
		if v != nil {
			return v, true
		}
	}
	return nil, false
}

func (m *listModel) lastNonNil() (any, bool) {
	for i := len(m.items) - 1; i >= 0; i-- {
		if m.items[i] != nil {
			return m.items[i], true
		}
	}
	return nil, false
}

func show(v any) string {
	if v == nil {
		return "nil"
	}
	return fmt.Sprintf("%v", v)
}

func showList(xs []any) string {
	p := make([]string, len(xs))
	for i, x := range xs {
		p[i] = show(x)
	}
	return "[" + strings.Join(p, " ") + "]"
}

// compareList compares every content observation of s with the model. It returns
// discrepancy descriptions (without key prefix).
func compareList(s stackage.Stack, m *listModel) []string {
	var bad []string
	L := len(m.items)
	if got := s.Len(); got != L {
		bad = append(bad, fmt.Sprintf("Len()=%d want %d (model %s)", got, L, showList(m.items)))
	}
	if got := s.IsEmpty(); got != (L == 0) {
		bad = append(bad, fmt.Sprintf("IsEmpty()=%v want %v", got, L == 0))
	}
	if !s.IsInit() {
		bad = append(bad, "IsInit()=false: the configuration slot was lost")
		return bad
	}
	for i := -L - 2; i <= L+2; i++ {
		gv, gok := s.Index(i)
		wv, wok := m.index(i)
		if diffAny(gv, wv) || gok != wok {
			bad = append(bad, fmt.Sprintf("Index(%d)=(%s,%v) want (%s,%v) (model %s neg=%v fwd=%v)", i, show(gv), gok, show(wv), wok, showList(m.items), m.neg, m.fwd))
		}
	}
	gv, gok := s.Front()
	wv, wok := m.front()
	if diffAny(gv, wv) || gok != wok {
		bad = append(bad, fmt.Sprintf("Front()=(%s,%v) want (%s,%v) (model %s fifo=%v)", show(gv), gok, show(wv), wok, showList(m.items), m.fifo))
	}
	gv, gok = s.Back()
	wv, wok = m.back()
	if diffAny(gv, wv) || gok != wok {
		bad = append(bad, fmt.Sprintf("Back()=(%s,%v) want (%s,%v) (model %s fifo=%v)", show(gv), gok, show(wv), wok, showList(m.items), m.fifo))
	}
	if got := s.IsFIFO(); got != m.fifo {
		bad = append(bad, fmt.Sprintf("IsFIFO()=%v want %v", got, m.fifo))
	}
	// capacity arithmetic (C03 wording)
	wantCap, wantAvail, wantFull := -1, -1, false
	if m.capk > 0 {
		wantCap, wantAvail, wantFull = m.capk, m.capk-L, L == m.capk
	}
	if got := s.Cap(); got != wantCap {
		bad = append(bad, fmt.Sprintf("Cap()=%d want %d", got, wantCap))
	}
	if got := s.Avail(); got != wantAvail {
		bad = append(bad, fmt.Sprintf("Avail()=%d want %d (Len %d)", got, wantAvail, L))
	}
	if got := s.CapReached(); got != wantFull { // (the older spelling of the same question)
		bad = append(bad, fmt.Sprintf("CapReached()=%v want %v (Len %d cap %d)", got, wantFull, L, m.capk))
	}
	if got := s.IsFull(); got != wantFull {
		bad = append(bad, fmt.Sprintf("IsFull()=%v want %v (Len %d cap %d)", got, wantFull, L, m.capk))
	}
	return bad
}

var tokRe = regexp.MustCompile(`"t(\d+)"`)

// canonTokens renames the fresh tokens "t<n>" in a dump key by order of first appearance,
// so states that differ only in which fresh tokens they hold are merged. This is sound
// because no operation of the library or of the alphabets inspects a token's text.
func canonTokens(key string) string {
	names := map[string]string{}
	return tokRe.ReplaceAllStringFunc(key, func(s string) string {
		if n, ok := names[s]; ok {
			return n
		}
		n := `"T` + strconv.Itoa(len(names)) + `"`
		names[s] = n
		return n
	})
}

func stackKey(s stackage.Stack) string {
	d := stackage.VerifDump(s)
	return canonTokens(d.Key(false)) + fmt.Sprintf(" spare=%d", d.SliceCap-d.SliceLen)
}

var kindNames = []string{"AND", "OR", "NOT", "LIST", "BASIC"}

func newStackKind(kind string, capk ...int) stackage.Stack {
	switch kind {
	case "AND":
		return stackage.And(capk...)
	case "OR":
		return stackage.Or(capk...)
	case "NOT":
		return stackage.Not(capk...)
	case "LIST":
		return stackage.List(capk...)
	}
	return stackage.Basic(capk...)
}
