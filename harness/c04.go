package main

import (
	"encoding/json"
	"fmt"
	"math"
	"reflect"
	"sort"
	"strings"

	stackage "github.com/JesseCoretta/go-stackage"
)

// C04 — Marshal(Unmarshal(S)) reconstructs S (Engine B).

type mnode struct {
	T    string  `json:"t"` // leaf, stack, cond
	V    any     `json:"v,omitempty"`
	VT   string  `json:"vt,omitempty"` // leaf type tag for JSON replay: int, float, bool, string, nil
	Kind string  `json:"kind,omitempty"`
	Kids []mnode `json:"kids,omitempty"`
	Kw   string  `json:"kw,omitempty"`
	Op   int     `json:"op,omitempty"` // 1..6 built-in, 7 user operator
	Fold bool    `json:"fold,omitempty"`
	Cap  int     `json:"cap,omitempty"`
	Deco bool    `json:"decorated,omitempty"` // symbol, delimiter, parenthetical, lead-once, no-padding, encapsulation, ID, category all set
	// Share: below this node, Stacks and Conditions with the same description are ONE instance stored in
	// several places (siblings, different branches): still a finite tree as far as Unmarshal is concerned
	Share bool `json:"shared_instances,omitempty"`
	// Form: how a nested Stack is stored in its parent ("" native, "alias", "ptr", "ptr-alias")
	Form string `json:"stored_as,omitempty"`
	// Lock: bit 1 mutex enabled, bit 2 read-only, bit 4 no-nesting (all set once the content is in place)
	Lock int `json:"lock,omitempty"`
}

func (n mnode) String() string {
	switch n.T {
	case "leaf":
		return fmt.Sprintf("%v", n.leaf())
	case "cond":
		d := ""
		if n.Deco {
			d = "*"
		}
		return fmt.Sprintf("C%s(%s %d %s)", d, n.Kw, n.Op, n.Kids[0])
	}
	p := make([]string, len(n.Kids))
	for i, k := range n.Kids {
		p[i] = k.String()
	}
	f := ""
	if n.Fold {
		f = "~"
	}
	if n.Cap > 0 {
		f += fmt.Sprintf("/%d", n.Cap)
	}
	if n.Deco {
		f += "*"
	}
	if n.Share {
		f += "&"
	}
	if n.Form != "" {
		f += "<" + n.Form + ">"
	}
	if n.Lock > 0 {
		f += fmt.Sprintf("{lock=%d}", n.Lock)
	}
	return n.Kind + f + "[" + strings.Join(p, " ") + "]"
}

func (n mnode) leaf() any {
	switch n.VT {
	case "nil":
		return nil
	case "op": // an Operator value stored as a plain leaf (a token list such as [cn = Jesse])
		return stackage.Eq
	case "num": // primitives of every numeric kind, by name (JSON replay keeps the name only)
		return c04Numbers[fmt.Sprint(n.V)]
	case "anyslice": // a []any without a label: nothing Marshal can convert, a value like any other
		return []any{1, 2}
	case "emptyslice":
		return []any{}
	case "int":
		if f, ok := n.V.(float64); ok {
			return int(f)
		}
	}
	return n.V
}

var c04Numbers = map[string]any{"int8": int8(-8), "int16": int16(-16), "int32": int32(-32), "int64 min": int64(math.MinInt64), "uint": uint(7), "uint8": uint8(255), "uint16": uint16(65535), "uint32": uint32(1) << 31,
	"uint64 max": uint64(math.MaxUint64), "uintptr": uintptr(9), "float32": float32(0.1), "float64 tiny": math.SmallestNonzeroFloat64, "complex64": complex64(complex(0.1, 0.2)), "complex128": complex(1.5, -2.5), "rune": 'r'}

func mOp(i int) stackage.Operator {
	if i == -1 {
		return nil // no operator at all
	}
	if i == 7 {
		return userOp{"~=", "approx"}
	}
	if i == 8 {
		return sliceOp{"=~", "ctx"} // an operator type Go cannot compare with ==
	}
	if i == 10 {
		return zeroOp{} // round 14: user operators that are the zero value of their type
	}
	if i == 11 {
		return enumOp(0)
	}
	return stackage.ComparisonOperator(i)
}

func (n mnode) build() any { return n.buildWith(nil) }

func (n mnode) buildWith(shared map[string]any) (out any) {
	if n.T != "leaf" {
		if n.Share && shared == nil {
			shared = map[string]any{}
		}
		if shared != nil {
			if v, ok := shared[n.String()]; ok {
				return v
			}
			defer func() { shared[n.String()] = out }()
		}
	}
	switch n.T {
	case "leaf":
		return n.leaf()
	case "cond":
		c := stackage.Cond(n.Kw, mOp(n.Op), n.Kids[0].buildWith(shared))
		if n.Deco {
			// flags set after the fact must not change what Unmarshal hands out
			c.SetNoNesting(true).SetParen(true).SetNoPadding(true).SetEncap("'").SetID("cid").SetCategory("ccat")
		}
		return c
	}
	var s stackage.Stack
	if n.Cap > 0 {
		s = newStackKind(n.Kind, n.Cap)
	} else {
		s = newStackKind(n.Kind)
	}
	if n.Fold {
		s.SetFold(true)
	}
	if n.Deco {
		// presentation settings must not leak into the []any form
		s.SetSymbol("||").SetDelimiter(";").SetParen(true).SetLeadOnce(true).SetNoPadding(true).SetEncap(`"`).SetID("id").SetCategory("cat").SetNegativeIndices(true)
	}
	var vals []any
	for _, k := range n.Kids {
		vals = append(vals, k.buildWith(shared))
	}
	fill(s, vals, fillMode(n.String()))
	if n.Lock&1 != 0 {
		s.SetMutex()
	}
	if n.Lock&4 != 0 {
		s.SetNoNesting(true) // what is already held stays, and is unmarshalled like anywhere else
	}
	if n.Lock&2 != 0 {
		s.SetReadOnly(true)
	}
	switch n.Form {
	case "alias":
		return StackAlias(s)
	case "ptr":
		return &s
	case "ptr-alias":
		a := StackAlias(s)
		return &a
	}
	return s
}

// checkUnmarshal compares an Unmarshal result with the description (reference unmarshaller).
func checkUnmarshal(got any, n mnode, live any, path string) string {
	switch n.T {
	case "leaf":
		if !reflect.DeepEqual(got, live) {
			return fmt.Sprintf("%s: entry %#v, want the stored value %#v unchanged", path, got, live)
		}
		return ""
	case "cond":
		c := live.(stackage.Condition)
		row, ok := got.([]any)
		if !ok {
			return fmt.Sprintf("%s: Condition not expanded into a row, got %T", path, got)
		}
		if len(row) != 4 {
			return fmt.Sprintf("%s: CONDITION row has %d entries, want 4", path, len(row))
		}
		if l, _ := row[0].(string); !strings.EqualFold(l, "CONDITION") {
			return fmt.Sprintf("%s: row label %v, want CONDITION", path, row[0])
		}
		if row[1] != c.Keyword() {
			return fmt.Sprintf("%s: row keyword %v want %q", path, row[1], c.Keyword())
		}
		if diffAny(row[2], c.Operator()) {
			return fmt.Sprintf("%s: row operator %v want %v", path, row[2], c.Operator())
		}
		ex := n.Kids[0]
		if ex.T == "cond" {
			// a Condition used as expression may be passed as-is or expanded (DESIGN.md §4)
			if reflect.DeepEqual(row[3], c.Expression()) {
				return ""
			}
		}
		return checkUnmarshal(row[3], ex, c.Expression(), path+".expr")
	}
	s, isStack := refAsStack(live)
	if !isStack {
		return fmt.Sprintf("%s: the original tree holds %T where the description has a Stack (the construction calls did not build the described tree)", path, live)
	}
	sl, ok := got.([]any)
	if !ok {
		return fmt.Sprintf("%s: Stack not expanded into a slice, got %T", path, got)
	}
	if len(sl) != len(n.Kids)+1 {
		return fmt.Sprintf("%s: %d entries for a stack of %d elements (want label + one per element): %v", path, len(sl), len(n.Kids), sl)
	}
	if l, _ := sl[0].(string); !strings.EqualFold(l, n.Kind) {
		return fmt.Sprintf("%s: label %v want %s", path, sl[0], n.Kind)
	}
	elems := contents(s)
	for i, k := range n.Kids {
		if msg := checkUnmarshal(sl[i+1], k, elems[i], fmt.Sprintf("%s[%d]", path, i)); msg != "" {
			return msg
		}
	}
	return ""
}

// checkTree walks a reconstructed tree against the description and the original leaves.
func checkTree(got any, n mnode, orig any, path string) string {
	switch n.T {
	case "leaf":
		if !reflect.DeepEqual(got, orig) {
			return fmt.Sprintf("%s: leaf %#v want %#v", path, got, orig)
		}
		return ""
	case "cond":
		oc := orig.(stackage.Condition)
		gc, ok := got.(stackage.Condition)
		if !ok {
			return fmt.Sprintf("%s: %T where a Condition was", path, got)
		}
		if gc.Keyword() != oc.Keyword() {
			return fmt.Sprintf("%s: keyword %q want %q", path, gc.Keyword(), oc.Keyword())
		}
		if diffAny(gc.Operator(), oc.Operator()) {
			return fmt.Sprintf("%s: operator %v want %v", path, gc.Operator(), oc.Operator())
		}
		return checkTree(gc.Expression(), n.Kids[0], oc.Expression(), path+".expr")
	}
	gs, ok := got.(stackage.Stack)
	if !ok {
		return fmt.Sprintf("%s: %T where a %s stack was", path, got, n.Kind)
	}
	if !strings.EqualFold(gs.Kind(), n.Kind) {
		return fmt.Sprintf("%s: kind %s want %s", path, gs.Kind(), n.Kind)
	}
	os, _ := refAsStack(orig)
	ge, oe := contents(gs), contents(os)
	if len(ge) != len(oe) {
		return fmt.Sprintf("%s: %d elements want %d", path, len(ge), len(oe))
	}
	for i, k := range n.Kids {
		if msg := checkTree(ge[i], k, oe[i], fmt.Sprintf("%s[%d]", path, i)); msg != "" {
			return msg
		}
	}
	return ""
}

// upperLabels returns a copy of an Unmarshal result with every label upper-cased.
func upperLabels(v any) any {
	sl, ok := v.([]any)
	if !ok {
		return v
	}
	out := make([]any, len(sl))
	for i, e := range sl {
		if i == 0 {
			if s, ok := e.(string); ok {
				out[i] = strings.ToUpper(s)
				continue
			}
		}
		out[i] = upperLabels(e)
	}
	return out
}

// sliceLeaves: the tree holds []any leaves (outside the statement's leaf domain: Marshal may report them
// as malformed input; if it does not, the reconstruction is judged like any other)
func (n mnode) sliceLeaves() bool {
	if n.T == "leaf" && (n.VT == "anyslice" || n.VT == "emptyslice") {
		return true
	}
	for _, k := range n.Kids {
		if k.sliceLeaves() {
			return true
		}
	}
	return false
}

func (n mnode) readOnlyBelow() bool {
	if n.Lock&2 != 0 {
		return true
	}
	for _, k := range n.Kids {
		if k.readOnlyBelow() {
			return true
		}
	}
	return false
}

func (n mnode) plain() bool { // no capacity / case folding anywhere
	if n.Cap > 0 || n.Fold || (n.T == "leaf" && n.VT == "op") { // (IsEqual has no rule for a bare Operator leaf)
		return false
	}
	for _, k := range n.Kids {
		if !k.plain() {
			return false
		}
	}
	return true
}

func c04Check(c *Ctx, n mnode, count bool) {
	orig := n.build().(stackage.Stack)
	size := len(n.String())
	var u []any
	var err error
	fail := func(key, f string, a ...any) {
		c.Violation(key, fmt.Sprintf(f, a...)+" | tree "+n.String(), n, size)
	}
	if p := noPanic(func() { u, err = orig.Unmarshal() }); p != "" {
		fail("panic:Unmarshal", "Unmarshal panicked: %s", p)
		return
	}
	if err != nil {
		fail("unmarshal-error", "Unmarshal failed: %v", err)
		return
	}
	if msg := checkUnmarshal(u, n, orig, "S"); msg != "" {
		fail("unmarshal-shape", "Unmarshal result differs from the reference unmarshaller: %s (got %v)", msg, u)
		return
	}
	if count {
		c.States.Add(1)
	}
	for _, form := range []string{"spread", "envelope"} {
		var z stackage.Stack
		var merr error
		p := noPanic(func() {
			if form == "spread" {
				merr = z.Marshal(u...)
			} else {
				merr = z.Marshal(u)
			}
		})
		if count {
			c.Transitions.Add(1)
		}
		if p != "" {
			fail("panic:Marshal:"+form, "Marshal(%s) of the Unmarshal result panicked: %s", form, p)
			continue
		}
		if merr != nil {
			if n.sliceLeaves() {
				continue // a raw []any leaf may be reported as input Marshal could not convert
			}
			fail("marshal-error:"+form, "Marshal(%s) of the Unmarshal result failed: %v (input %v)", form, merr, u)
			continue
		}
		if !z.IsInit() {
			fail("marshal-no-init:"+form, "Marshal(%s) returned nil but left the receiver uninitialised", form)
			continue
		}
		if msg := checkTree(z, n, orig, "S"); msg != "" {
			fail("reconstruction-differs:"+form, "reconstruction differs: %s (reconstruction %v)", msg, z)
			continue
		}
		u2, err2 := z.Unmarshal()
		if err2 != nil || !reflect.DeepEqual(upperLabels(u2), upperLabels(u)) {
			fail("second-unmarshal-differs:"+form, "Unmarshal of the reconstruction %v (err %v) is not deeply equal to the first %v", u2, err2, u)
		}
		if n.plain() {
			for dir, pair := range [][2]stackage.Stack{{orig, z}, {z, orig}} {
				var eerr error
				if p := noPanic(func() { eerr = pair[0].IsEqual(pair[1]) }); p != "" {
					fail("panic:IsEqual", "IsEqual(original, reconstruction) panicked: %s", p)
				} else if eerr != nil {
					fail(fmt.Sprintf("not-equal:%s", form), "IsEqual (direction %d) between original and reconstruction: %v", dir, eerr)
				}
			}
		}
	}
	// the same tree after an edit that keeps every length: each Stack of the tree reversed in place.
	// Whatever Unmarshal (or anything else) remembered from the first pass no longer describes the tree.
	if n.readOnlyBelow() {
		c.Outcome(fmt.Sprint(len(u)))
		return // a read-only stack cannot be edited in place
	}
	rn := reverseDesc(n)
	if p := noPanic(func() { reverseLive(orig); u, err = orig.Unmarshal() }); p != "" {
		fail("panic:Unmarshal-after-edit", "Unmarshal after reversing every stack in place panicked: %s", p)
		return
	}
	if count {
		c.Transitions.Add(1)
	}
	if err != nil {
		fail("unmarshal-error-after-edit", "Unmarshal after reversing every stack in place failed: %v", err)
	} else if msg := checkUnmarshal(u, rn, orig, "S"); msg != "" {
		fail("unmarshal-shape-after-edit", "after reversing every stack in place, Unmarshal differs from the reference unmarshaller: %s (got %v)", msg, u)
	}
	if count && len(n.Kids) > 0 {
		c.Nontrivial(n.String())
	}
	c.Outcome(fmt.Sprint(len(u)))
}

func reverseDesc(n mnode) mnode {
	switch n.T {
	case "stack":
		kids := make([]mnode, len(n.Kids))
		for i, k := range n.Kids {
			kids[len(n.Kids)-1-i] = reverseDesc(k)
		}
		n.Kids = kids
	case "cond":
		n.Kids = []mnode{reverseDesc(n.Kids[0])}
	}
	return n
}

func reverseLive(v any, seen ...map[string]bool) {
	if len(seen) == 0 {
		seen = []map[string]bool{{}}
	}
	if s, ok := refAsStack(v); ok {
		if seen[0][s.Addr()] {
			return // one instance stored in several places is reversed once
		}
		seen[0][s.Addr()] = true
		s.Reverse()
		for _, e := range contents(s) {
			reverseLive(e, seen[0])
		}
		return
	}
	if cd, ok := refAsCond(v); ok {
		reverseLive(cd.Expression(), seen[0])
	}
}

func c04Trees(c *Ctx) []mnode {
	leaves := []mnode{{T: "leaf", V: "a", VT: "string"}, {T: "leaf", V: "AND", VT: "string"}, {T: "leaf", V: "condition", VT: "string"}, {T: "leaf", V: 7, VT: "int"},
		{T: "leaf", V: 2.5, VT: "float"}, {T: "leaf", V: true, VT: "bool"}, {T: "leaf", VT: "nil"}, {T: "leaf", V: "", VT: "string"}}
	conds := []mnode{
		{T: "cond", Kw: "kw", Op: 1, Kids: []mnode{leaves[0]}}, {T: "cond", Kw: "n", Op: 6, Kids: []mnode{leaves[3]}}, {T: "cond", Kw: "LIST", Op: 7, Kids: []mnode{leaves[1]}},
		{T: "cond", Kw: "outer", Op: 2, Kids: []mnode{{T: "cond", Kw: "inner", Op: 3, Kids: []mnode{leaves[0]}}}},
		{T: "cond", Kw: "zero", Op: 10, Kids: []mnode{leaves[0]}}, {T: "cond", Kw: "enum0", Op: 11, Kids: []mnode{leaves[1]}},
	}
	lists := func(elems []mnode, maxW int) [][]mnode {
		var out [][]mnode
		var rec func(cur []mnode)
		rec = func(cur []mnode) {
			out = append(out, append([]mnode{}, cur...))
			if len(cur) == maxW {
				return
			}
			for _, e := range elems {
				rec(append(cur, e))
			}
		}
		rec(nil)
		return out
	}
	base := append(append([]mnode{}, leaves...), conds...)
	var d1 []mnode
	ki := 0
	for _, l := range lists(base, 2) {
		if c.Quick() {
			d1 = append(d1, mnode{T: "stack", Kind: kindNames[ki%5], Kids: l})
			ki++
		} else {
			for _, k := range kindNames {
				d1 = append(d1, mnode{T: "stack", Kind: k, Kids: l})
			}
		}
	}
	var trees []mnode
	trees = append(trees, d1...)
	if !c.Quick() {
		for _, l := range lists(base, 3) {
			if len(l) == 3 {
				trees = append(trees, mnode{T: "stack", Kind: kindNames[ki%5], Kids: l})
				ki++
			}
		}
	}
	// depth 2: elements = leaves, conditions, depth-1 stacks and conditions holding them
	elems := append([]mnode{}, base...)
	step := 1
	for i := 0; i < len(d1); i += step {
		elems = append(elems, d1[i])
		if i%2 == 0 {
			elems = append(elems, mnode{T: "cond", Kw: "has", Op: 4, Kids: []mnode{d1[i]}})
		}
	}
	for _, e := range elems {
		trees = append(trees, mnode{T: "stack", Kind: kindNames[ki%5], Kids: []mnode{e}})
		ki++
	}
	stride := 1
	if c.Quick() {
		stride = 2
	} else if len(elems) > 700 {
		stride = 3
	}
	for i, e := range elems {
		for j := (i % stride); j < len(elems); j += stride {
			trees = append(trees, mnode{T: "stack", Kind: kindNames[ki%5], Kids: []mnode{e, elems[j]}})
			ki++
		}
	}
	// Conditions that fail Valid (no keyword, no operator, operator out of range) and decorated ones,
	// with primitive, Stack and Condition expressions
	for i := 0; i < len(d1); i += 3 {
		st := d1[i]
		for _, cd := range []mnode{
			{T: "cond", Kw: "", Op: 1, Kids: []mnode{st}}, {T: "cond", Kw: "nokw", Op: -1, Kids: []mnode{st}}, {T: "cond", Kw: "badop", Op: 9, Kids: []mnode{st}},
			{T: "cond", Kw: "", Op: 0, Kids: []mnode{leaves[i%len(leaves)]}}, {T: "cond", Kw: "deco", Op: 2, Deco: true, Kids: []mnode{st}},
			{T: "cond", Kw: "deco2", Op: 3, Deco: true, Kids: []mnode{{T: "cond", Kw: "in", Op: 1, Deco: true, Kids: []mnode{leaves[0]}}}},
		} {
			trees = append(trees, mnode{T: "stack", Kind: kindNames[i%5], Kids: []mnode{cd}}, mnode{T: "stack", Kind: kindNames[(i+1)%5], Kids: []mnode{leaves[0], cd, st}})
		}
	}
	// depth 3 chains and options that only relax clause (4)
	for i := 0; i < len(d1); i += 5 {
		inner := mnode{T: "stack", Kind: "OR", Kids: []mnode{d1[i], leaves[i%len(leaves)]}}
		trees = append(trees, mnode{T: "stack", Kind: "AND", Kids: []mnode{inner, {T: "cond", Kw: "deep", Op: 5, Kids: []mnode{inner}}}})
		trees = append(trees, mnode{T: "stack", Kind: "NOT", Fold: true, Kids: []mnode{d1[i]}}, mnode{T: "stack", Kind: "LIST", Cap: 4, Kids: []mnode{d1[i], leaves[0]}})
		deco := d1[i]
		deco.Deco = true
		trees = append(trees, deco, mnode{T: "stack", Kind: kindNames[i%5], Deco: true, Kids: []mnode{deco, leaves[i%len(leaves)], {T: "cond", Kw: "dk", Op: 2, Kids: []mnode{deco}}}})
	}
	// nested stacks stored as alias values, pointers and pointers to aliases (Unmarshal expands what they
	// convert to; the reconstruction is native)
	for i := 0; i < len(d1); i += 3 {
		for fi, form := range []string{"alias", "ptr", "ptr-alias"} {
			st := d1[i]
			st.Form = form
			in := mnode{T: "stack", Kind: "OR", Form: []string{"ptr", "ptr-alias", "alias"}[fi], Kids: []mnode{st, leaves[i%len(leaves)]}}
			trees = append(trees, mnode{T: "stack", Kind: kindNames[(i+fi)%5], Kids: []mnode{leaves[0], st}}, mnode{T: "stack", Kind: kindNames[(i+fi+1)%5], Kids: []mnode{in, {T: "cond", Kw: "f", Op: 3, Kids: []mnode{st}}}})
		}
	}
	// deep chains: stacks nested directly within one another, 5 and more levels, with a leaf on either side
	// of each level, a Condition's expression as one of the links in a second variant
	depths := []int{5, 6, 9, 17}
	if !c.Quick() {
		depths = []int{5, 6, 7, 8, 9, 10, 12, 16, 17, 18, 33, 65}
	}
	for _, d := range depths {
		for variant := 0; variant < 3; variant++ {
			cur := mnode{T: "stack", Kind: "BASIC", Kids: []mnode{{T: "leaf", V: "bottom", VT: "string"}}}
			for lvl := d - 1; lvl >= 1; lvl-- {
				link := cur
				if variant == 1 && lvl%4 == 2 {
					link = mnode{T: "cond", Kw: fmt.Sprintf("lvl%d", lvl), Op: 1 + lvl%6, Kids: []mnode{cur}}
				}
				if variant == 2 && lvl%3 == 0 {
					link.Form = []string{"alias", "ptr", "ptr-alias"}[(lvl/3)%3]
				}
				cur = mnode{T: "stack", Kind: kindNames[lvl%5], Kids: []mnode{{T: "leaf", V: lvl, VT: "int"}, link, {T: "leaf", V: fmt.Sprintf("after%d", lvl), VT: "string"}}}
			}
			trees = append(trees, cur)
		}
	}
	// token lists: a nested Stack of exactly (and of more than) three values whose second one is an Operator,
	// directly and as a Condition's expression; Conditions over an operator of a slice type
	opLeaf := mnode{T: "leaf", VT: "op"}
	for _, k := range kindNames {
		tok3 := mnode{T: "stack", Kind: "LIST", Kids: []mnode{leaves[0], opLeaf, {T: "leaf", V: "Jesse", VT: "string"}}}
		tok4 := mnode{T: "stack", Kind: "OR", Kids: []mnode{leaves[0], opLeaf, leaves[3], opLeaf}}
		trees = append(trees, mnode{T: "stack", Kind: k, Kids: []mnode{tok3, leaves[1]}}, mnode{T: "stack", Kind: k, Kids: []mnode{{T: "cond", Kw: "tok", Op: 2, Kids: []mnode{tok3}}, tok4}}, mnode{T: "stack", Kind: k, Kids: []mnode{opLeaf, tok3}},
			mnode{T: "stack", Kind: k, Kids: []mnode{{T: "cond", Kw: "sl", Op: 8, Kids: []mnode{leaves[0]}}, {T: "cond", Kw: "sl2", Op: 8, Kids: []mnode{{T: "stack", Kind: "OR", Kids: []mnode{leaves[0], leaves[3]}}}}}},
			mnode{T: "stack", Kind: k, Kids: []mnode{{T: "cond", Kw: "sl3", Op: 8, Kids: []mnode{tok4}}}})
	}
	// []any leaves without a label (nothing to convert), last among the slices of a nested stack, with and
	// without a convertible sibling after it at the levels above
	for i, sl := range []mnode{{T: "leaf", VT: "anyslice"}, {T: "leaf", VT: "emptyslice"}} {
		in := mnode{T: "stack", Kind: "OR", Kids: []mnode{leaves[0], sl}}
		in2 := mnode{T: "stack", Kind: "LIST", Kids: []mnode{sl, leaves[3]}}
		cd := mnode{T: "cond", Kw: "sl", Op: 1, Kids: []mnode{in}}
		for _, k := range kindNames {
			trees = append(trees, mnode{T: "stack", Kind: k, Kids: []mnode{in, {T: "stack", Kind: "AND", Kids: []mnode{leaves[0]}}}}, mnode{T: "stack", Kind: k, Kids: []mnode{leaves[i], in, conds[0]}},
				mnode{T: "stack", Kind: k, Kids: []mnode{{T: "stack", Kind: "AND", Kids: []mnode{in, in2}}, conds[1]}}, mnode{T: "stack", Kind: k, Kids: []mnode{cd, {T: "stack", Kind: "NOT", Kids: []mnode{leaves[0]}}}},
				mnode{T: "stack", Kind: k, Kids: []mnode{in}}, mnode{T: "stack", Kind: k, Kids: []mnode{sl, in2, in}})
		}
	}
	// locking and the read-only flag, alone and together, on the root, on a nested stack and on a Condition's
	// expression
	for lock := 1; lock <= 3; lock++ {
		for i := 0; i < len(d1); i += 9 {
			st := d1[i]
			st.Lock = lock
			trees = append(trees, st, mnode{T: "stack", Kind: kindNames[(i+lock)%5], Kids: []mnode{leaves[0], st}}, mnode{T: "stack", Kind: kindNames[(i+lock+1)%5], Lock: lock, Kids: []mnode{{T: "cond", Kw: "lk", Op: 2, Kids: []mnode{st}}, st}})
		}
	}
	// no-nesting switched on afterwards, on stacks that hold Conditions (and Stacks): the root, a nested stack,
	// a Condition's expression
	for _, lock := range []int{4, 5, 6} {
		holder := mnode{T: "stack", Kind: "AND", Lock: lock, Kids: []mnode{leaves[0], conds[0], conds[3]}}
		holder2 := mnode{T: "stack", Kind: "LIST", Lock: lock, Kids: []mnode{conds[1], {T: "stack", Kind: "OR", Kids: []mnode{leaves[3]}}, leaves[6]}}
		for _, k := range kindNames {
			trees = append(trees, mnode{T: "stack", Kind: k, Lock: lock, Kids: []mnode{conds[0], leaves[0]}}, mnode{T: "stack", Kind: k, Kids: []mnode{holder, leaves[1]}},
				mnode{T: "stack", Kind: k, Kids: []mnode{{T: "cond", Kw: "nn", Op: 2, Kids: []mnode{holder}}, holder2}}, mnode{T: "stack", Kind: k, Lock: lock, Kids: []mnode{{T: "cond", Kw: "nn2", Op: 3, Kids: []mnode{holder2}}}})
		}
	}
	// one instance stored in several places: as siblings, in two branches, below a Condition and next to it
	for i := 0; i < len(d1); i += 4 {
		st, lf := d1[i], leaves[i%len(leaves)]
		k := kindNames[i%5]
		in := mnode{T: "stack", Kind: "OR", Kids: []mnode{st, lf}}
		cd := mnode{T: "cond", Kw: "sh", Op: 2, Kids: []mnode{st}}
		trees = append(trees, mnode{T: "stack", Kind: k, Share: true, Kids: []mnode{st, st}}, mnode{T: "stack", Kind: k, Share: true, Kids: []mnode{st, lf, st}},
			mnode{T: "stack", Kind: k, Share: true, Kids: []mnode{in, st}}, mnode{T: "stack", Kind: k, Share: true, Kids: []mnode{st, in, in}},
			mnode{T: "stack", Kind: k, Share: true, Kids: []mnode{cd, st, cd}}, mnode{T: "stack", Kind: k, Share: true, Kids: []mnode{in, {T: "stack", Kind: "AND", Kids: []mnode{lf, in}}}})
	}
	// primitives of every numeric kind as elements and as Condition expressions
	{
		var names []string
		for k := range c04Numbers {
			names = append(names, k)
		}
		sort.Strings(names)
		var all []mnode
		for i, nm := range names {
			lf := mnode{T: "leaf", V: nm, VT: "num"}
			all = append(all, lf)
			trees = append(trees, mnode{T: "stack", Kind: kindNames[i%5], Kids: []mnode{lf, {T: "cond", Kw: "n", Op: 1 + i%6, Kids: []mnode{lf}}, {T: "stack", Kind: "LIST", Kids: []mnode{leaves[0], lf}}}})
		}
		trees = append(trees, mnode{T: "stack", Kind: "AND", Kids: all})
	}
	// the long regime: wide stacks (well beyond the widths above), at the top, nested, as a Condition's
	// expression, and with a nested Stack / Condition / nil somewhere in the middle
	widths := []int{8, 9, 10, 17, 33, 66, 70}
	if !c.Quick() {
		widths = []int{7, 8, 9, 10, 11, 16, 17, 32, 33, 65, 130}
	}
	for wi, w := range widths {
		kids := make([]mnode, w)
		for i := range kids {
			kids[i] = leaves[(i+wi)%len(leaves)]
			if kids[i].VT == "string" {
				kids[i] = mnode{T: "leaf", V: fmt.Sprintf("w%d", i), VT: "string"}
			}
		}
		mixed := append([]mnode{}, kids...)
		mixed[w/2] = mnode{T: "stack", Kind: "OR", Kids: []mnode{leaves[0], leaves[3]}}
		mixed[w-1] = conds[wi%len(conds)]
		for _, k := range kindNames {
			wide := mnode{T: "stack", Kind: k, Kids: kids}
			trees = append(trees, wide, mnode{T: "stack", Kind: k, Kids: mixed},
				mnode{T: "stack", Kind: "AND", Kids: []mnode{leaves[0], wide}},
				mnode{T: "stack", Kind: "LIST", Kids: []mnode{{T: "cond", Kw: "wide", Op: 2, Kids: []mnode{wide}}, leaves[3]}})
		}
	}
	return trees
}

func init() {
	register(&Check{ID: "C04", Engine: "B", Run: func(c *Ctx) {
		trees := c04Trees(c)
		c.Rule = "every tree of the bounded family (kinds AND/OR/NOT/LIST/BASIC incl. empty stacks; leaves: strings incl. label-like ones and the empty string, int, float, bool, nil; Conditions whose expression is a primitive, a Stack or a Condition; built-in and user operators): Unmarshal compared with a reference unmarshaller, Marshal of the result (spread and single-envelope forms) on a zero Stack walked against the original, second Unmarshal deep-equal (labels case-insensitive), IsEqual both ways when no capacity/fold is involved; non-trivial = distinct non-empty trees"
		parallelFor(len(trees), func(i int) {
			if c.TimeUp() {
				return
			}
			c04Check(c, trees[i], true)
		})
		c.Traces.Store(c.Transitions.Load())
		c.Evals.Store(c.Transitions.Load())
		c.Exhaustive = true
		c.Bound["trees"] = len(trees)
		c.Sample(trees[5].String())
		c.Sample(trees[len(trees)/2].String())
		c.Sample(trees[len(trees)-1].String())
		c.Assumptions = append(c.Assumptions, "a Condition used as the expression of a Condition may appear expanded or as-is in the Unmarshal result")
	}, Replay: func(c *Ctx, raw json.RawMessage) {
		var n mnode
		json.Unmarshal(raw, &n)
		c04Check(c, n, false)
	}})
}
