package main

import (
	"encoding/json"
	"fmt"
	"math"

	stackage "github.com/JesseCoretta/go-stackage"
)

// C01 — ordered-list semantics under any operation history (Engine A).

type listInst struct {
	s     stackage.Stack
	m     *listModel
	by    *listInst // a second, unrelated instance of the same configuration that is put through the same calls in turn
	tok   int       // fresh-token counter
	shape string    // listCfg.Tok
	// toggles: the index options are switched while the history runs (machines where an error can be on record)
	toggles bool
}

type tokStruct struct{ Names []string }

func (in *listInst) fresh() any {
	in.tok++
	t := fmt.Sprintf("t%d", in.tok)
	switch in.shape {
	case "slice":
		return []string{t}
	case "map":
		return map[string]int{t: 1}
	case "struct":
		return tokStruct{[]string{t}}
	}
	return t
}

type listCfg struct {
	Kind string `json:"kind"`
	FIFO bool   `json:"fifo"`
	Cap  int    `json:"cap"`
	Neg  bool   `json:"neg"`
	Fwd  bool   `json:"fwd"`
	MaxL int    `json:"maxlen"`
	Mtx  bool   `json:"mutex,omitempty"`
	Pol  bool   `json:"push_policy,omitempty"`
	Deco bool   `json:"decorated,omitempty"`
	// Prefill: the machine starts from a stack that already holds this many elements (the long regime:
	// every operation of the alphabet, to a small depth, around a long stack)
	Prefill int `json:"prefill,omitempty"`
	// Tok: the shape of the element values ("" = strings; "slice", "map", "struct" = values Go cannot
	// compare with ==, each still carrying its own fresh token)
	Tok string `json:"element_shape,omitempty"`
	// PolRej: the push policy rejects every third fresh token, each time with the very same error value
	PolRej bool `json:"push_policy_rejects_every_third,omitempty"`
	// PolSelf: the push policy consults the stack it guards (its current length and last element) before it
	// answers: values of one Push call arrive "one value at a time", each judged against what is there by then
	PolSelf bool `json:"push_policy_consults_own_stack,omitempty"`
	// NilRun: all of the prefill but its first and last value is nil (a long run of nil elements between two values)
	NilRun int `json:"prefill_is_a_run_of_nils,omitempty"` // 1: a value, then nils; 2: nils, then a value; 3: a value at either end
}

func (c listCfg) String() string {
	s := fmt.Sprintf("%s fifo=%v cap=%d neg=%v fwd=%v maxlen=%d", c.Kind, c.FIFO, c.Cap, c.Neg, c.Fwd, c.MaxL)
	if c.Mtx {
		s += " mutex"
	}
	if c.Pol {
		s += " push-policy"
	}
	if c.Deco {
		s += " decorated"
	}
	if c.Prefill > 0 {
		s += fmt.Sprintf(" prefilled=%d", c.Prefill)
	}
	if c.Tok != "" {
		s += " elements=" + c.Tok
	}
	if c.PolRej {
		s += " policy-rejects-every-third"
	}
	if c.PolSelf {
		s += " policy-consults-own-stack"
	}
	if c.NilRun != 0 {
		s += fmt.Sprintf(" nil-run/%d", c.NilRun)
	}
	return s
}

func (c listCfg) build() *listInst {
	var s stackage.Stack
	if c.Cap != 0 {
		s = newStackKind(c.Kind, c.Cap) // a negative argument asks for no capacity, like none at all
	} else {
		s = newStackKind(c.Kind)
	}
	m := &listModel{capk: max(c.Cap, 0), neg: c.Neg, fwd: c.Fwd}
	if c.Cap == math.MaxInt {
		// the limit is stored as k+1, which does not exist for k = MaxInt: the constructor treats the
		// request as "no capacity" (Cap() == -1). Either way the stack must never count as full.
		m.capk = 0
	}
	if c.FIFO {
		s.SetFIFO(true)
		m.fifo = true
	}
	if c.Neg {
		s.SetNegativeIndices(true)
	}
	if c.Fwd {
		s.SetForwardIndices(true)
	}
	if c.Mtx {
		s.SetMutex()
	}
	if c.Pol {
		s.SetPushPolicy(func(...any) error { return nil })
	}
	if c.PolRej {
		rej := func(v any) bool {
			var n int
			if str, ok := v.(string); ok {
				if _, err := fmt.Sscanf(str, "t%d", &n); err == nil {
					return n%3 == 0
				}
			}
			return false
		}
		s.SetPushPolicy(func(x ...any) error {
			if rej(x[0]) {
				return errCat // one sentinel value, whichever value is turned away
			}
			return nil
		})
		m.reject = rej
	}
	if c.PolSelf {
		// turn a value away when its number plus the number of elements present is a multiple of three, or
		// when it is the very value that now comes last
		tokNum := func(v any) int {
			var n int
			if str, ok := v.(string); ok {
				fmt.Sscanf(str, "t%d", &n)
			}
			return n
		}
		s.SetPushPolicy(func(x ...any) error {
			if last, ok := s.Index(s.Len() - 1); ok && last != nil && !diffAny(last, x[0]) {
				return errCat
			}
			if (tokNum(x[0])+s.Len())%3 == 0 {
				return errCat
			}
			return nil
		})
		m.reject = func(v any) bool {
			if n := len(m.items); n > 0 && m.items[n-1] != nil && !diffAny(m.items[n-1], v) {
				return true
			}
			return (tokNum(v)+len(m.items))%3 == 0
		}
	}
	if c.Deco {
		decorate(s).SetErr(errCat).SetValidityPolicy(func(...any) error { return errCat })
	}
	in := &listInst{s: s, m: m, shape: c.Tok, toggles: (c.PolRej || c.PolSelf || c.Deco) && !c.Neg && !c.Fwd} // (machines that start with an index option on keep it: the toggling ones reach those settings anyway)
	if c.Prefill > 0 {
		vals := make([]any, c.Prefill)
		for i := range vals {
			if c.NilRun != 0 && !(i == 0 && c.NilRun&1 != 0) && !(i == len(vals)-1 && c.NilRun&2 != 0) {
				continue
			}
			vals[i] = in.fresh()
		}
		s.Push(vals...)
		m.push(vals...)
	}
	return in
}

type listOp struct {
	name    string
	grow    int // how much it may grow the list
	enabled func(in *listInst, maxL int) bool
	// run applies to both; returns description of return-value mismatch ("" if none)
	run func(in *listInst) string
}

func c01Ops(maxL int) []listOp {
	var ops []listOp
	always := func(*listInst, int) bool { return true }
	room := func(n int) func(*listInst, int) bool {
		return func(in *listInst, maxL int) bool { return len(in.m.items)+n <= maxL }
	}
	ops = append(ops,
		listOp{"Push(x)", 1, room(1), func(in *listInst) string {
			x := in.fresh()
			in.s.Push(x)
			in.m.push(x)
			return ""
		}},
		listOp{"Push(x,y)", 2, room(2), func(in *listInst) string {
			x, y := in.fresh(), in.fresh()
			in.s.Push(x, y)
			in.m.push(x, y)
			return ""
		}},
		listOp{"Push(nil)", 1, room(1), func(in *listInst) string {
			in.s.Push(nil)
			in.m.push(nil)
			return ""
		}},
		listOp{"Push(x,nil,y)", 3, room(3), func(in *listInst) string {
			x, y := in.fresh(), in.fresh()
			in.s.Push(x, nil, y)
			in.m.push(x, nil, y)
			return ""
		}},
		listOp{"copy.Free(); List().Push(x)", 0, always, func(in *listInst) string {
			// a copy of the handle is released, somebody else makes a stack: this one goes on as before
			h := in.s
			h.Free()
			stackage.List().Push(in.fresh())
			return ""
		}},
		listOp{"options asserted once more", 0, always, func(in *listInst) string {
			// saying again what is already the case changes nothing
			for i := 0; i < 1; i++ {
				in.s.SetNegativeIndices(in.m.neg)
				in.s.SetForwardIndices(in.m.fwd)
				if in.m.fifo {
					in.s.SetFIFO(true)
				}
			}
			return ""
		}},
		listOp{"presentation settings set and cleared again", 0, always, func(in *listInst) string {
			// settings that have no bearing on content or on how positions are addressed, each in its set and
			// in its documented unset form
			in.s.SetDelimiter(";")
			in.s.SetDelimiter("")
			in.s.SetDelimiter(',')
			in.s.SetDelimiter(nil)
			in.s.SetSymbol("sym")
			in.s.SetSymbol()
			return ""
		}},
		listOp{"SetNegativeIndices(the other way)", 0, func(in *listInst, _ int) bool { return in.toggles }, func(in *listInst) string {
			// options are settings, not content operations: an error on record has no say in them
			in.m.neg = !in.m.neg
			in.s.SetNegativeIndices(in.m.neg)
			return ""
		}},
		listOp{"SetForwardIndices(the other way)", 0, func(in *listInst, _ int) bool { return in.toggles }, func(in *listInst) string {
			in.m.fwd = !in.m.fwd
			in.s.SetForwardIndices(in.m.fwd)
			return ""
		}},
		listOp{"Push()", 0, always, func(in *listInst) string {
			in.s.Push()
			return ""
		}},
		listOp{"Pop", 0, always, func(in *listInst) string {
			gv, gok := in.s.Pop()
			wv, wok := in.m.pop()
			if diffAny(gv, wv) || gok != wok {
				return fmt.Sprintf("Pop returned (%s,%v) want (%s,%v)", show(gv), gok, show(wv), wok)
			}
			return ""
		}},
		listOp{"Reverse", 0, always, func(in *listInst) string {
			in.s.Reverse()
			in.m.reverse()
			return ""
		}},
		listOp{"Reset", 0, always, func(in *listInst) string {
			in.s.Reset()
			in.m.reset()
			return ""
		}},
		listOp{"SetFIFO(true)", 0, func(in *listInst, _ int) bool { return !in.m.fifo }, func(in *listInst) string {
			in.s.SetFIFO(true)
			in.m.fifo = true
			return ""
		}},
		listOp{"SetFIFO(false)", 0, always, func(in *listInst) string {
			in.s.SetFIFO(false) // one-way latch: never switches FIFO off
			return ""
		}},
	)
	// Insert at positions relative to the current length
	for _, rel := range []struct {
		n string
		f func(L int) int
	}{
		{"-1", func(L int) int { return -1 }}, {"0", func(L int) int { return 0 }}, {"1", func(L int) int { return 1 }},
		{"Len-1", func(L int) int { return L - 1 }}, {"Len", func(L int) int { return L }}, {"Len+1", func(L int) int { return L + 1 }},
		{"2", func(L int) int { return 2 }},
	} {
		rel := rel
		ops = append(ops, listOp{"Insert(x," + rel.n + ")", 1, room(1), func(in *listInst) string {
			x := in.fresh()
			p := rel.f(len(in.m.items))
			got := in.s.Insert(x, p)
			want := in.m.insert(x, p)
			if got != want {
				return fmt.Sprintf("Insert(%v,%d) returned %v want %v", x, p, got, want)
			}
			return ""
		}})
	}
	// Remove through the index options: -k addresses the k-th from the end when negative indices
	// are on, an oversize index the last element when forward indices are on; otherwise the call
	// fails and changes nothing.
	for _, rel := range []struct {
		n string
		f func(L int) int
	}{
		{"-1", func(L int) int { return -1 }}, {"-2", func(L int) int { return -2 }}, {"-Len", func(L int) int { return -L }}, {"-Len-1", func(L int) int { return -L - 1 }},
		{"Len", func(L int) int { return L }}, {"Len+2", func(L int) int { return L + 2 }},
	} {
		rel := rel
		ops = append(ops, listOp{"Remove(" + rel.n + ")", 0, always, func(in *listInst) string {
			i := rel.f(len(in.m.items))
			gv, gok := in.s.Remove(i)
			wv, wok := in.m.remove(i)
			if diffAny(gv, wv) || gok != wok {
				return fmt.Sprintf("Remove(%d) returned (%s,%v) want (%s,%v) (neg=%v fwd=%v)", i, show(gv), gok, show(wv), wok, in.m.neg, in.m.fwd)
			}
			return ""
		}})
	}
	// positions relative to the current length, and drains (one operation = many Pops, each compared)
	for _, rel := range []struct {
		n string
		f func(L int) int
	}{{"Len-1", func(L int) int { return L - 1 }}, {"Len/2", func(L int) int { return L / 2 }}} {
		rel := rel
		nonEmpty := func(in *listInst, _ int) bool { return len(in.m.items) > 3 }
		ops = append(ops, listOp{"Remove(" + rel.n + ")", 0, nonEmpty, func(in *listInst) string {
			i := rel.f(len(in.m.items))
			gv, gok := in.s.Remove(i)
			wv, wok := in.m.remove(i)
			if diffAny(gv, wv) || gok != wok {
				return fmt.Sprintf("Remove(%d) returned (%s,%v) want (%s,%v)", i, show(gv), gok, show(wv), wok)
			}
			return ""
		}}, listOp{"Replace(x," + rel.n + ")", 0, nonEmpty, func(in *listInst) string {
			x, i := in.fresh(), rel.f(len(in.m.items))
			if got, want := in.s.Replace(x, i), in.m.replace(x, i); got != want {
				return fmt.Sprintf("Replace(%v,%d) returned %v want %v", x, i, got, want)
			}
			return ""
		}}, listOp{"Swap(0," + rel.n + ")", 0, nonEmpty, func(in *listInst) string {
			i := rel.f(len(in.m.items))
			in.s.Swap(0, i)
			in.m.swap(0, i)
			return ""
		}})
	}
	for _, dr := range []struct {
		n    string
		keep func(L int) int
	}{{"Pop until half is left", func(L int) int { return L / 2 }}, {"Pop until a fifth is left", func(L int) int { return L / 5 }}, {"Pop until one is left", func(L int) int { return 1 }}} {
		dr := dr
		ops = append(ops, listOp{dr.n, 0, func(in *listInst, _ int) bool { return len(in.m.items) > 5 }, func(in *listInst) string {
			keep := dr.keep(len(in.m.items))
			for len(in.m.items) > keep {
				gv, gok := in.s.Pop()
				wv, wok := in.m.pop()
				if diffAny(gv, wv) || gok != wok {
					return fmt.Sprintf("Pop (with %d left) returned (%s,%v) want (%s,%v)", len(in.m.items)+1, show(gv), gok, show(wv), wok)
				}
				if in.s.Len() != len(in.m.items) {
					return fmt.Sprintf("after a Pop Len()=%d want %d", in.s.Len(), len(in.m.items))
				}
			}
			return ""
		}})
	}
	ops = append(ops, listOp{"Insert(nil,0)", 0, always, func(in *listInst) string {
		if in.s.Insert(nil, 0) {
			return "Insert(nil,0) returned true"
		}
		return ""
	}})
	for i := 0; i < maxL; i++ {
		i := i
		has := func(in *listInst, _ int) bool { return i < len(in.m.items) }
		ops = append(ops, listOp{fmt.Sprintf("Remove(%d)", i), 0, has, func(in *listInst) string {
			gv, gok := in.s.Remove(i)
			wv, wok := in.m.remove(i)
			if diffAny(gv, wv) || gok != wok {
				return fmt.Sprintf("Remove(%d) returned (%s,%v) want (%s,%v)", i, show(gv), gok, show(wv), wok)
			}
			return ""
		}})
		ops = append(ops, listOp{fmt.Sprintf("Replace(x,%d)", i), 0, has, func(in *listInst) string {
			x := in.fresh()
			got := in.s.Replace(x, i)
			want := in.m.replace(x, i)
			if got != want {
				return fmt.Sprintf("Replace(%v,%d) returned %v want %v", x, i, got, want)
			}
			return ""
		}})
		for j := 0; j < maxL; j++ {
			j := j
			ops = append(ops, listOp{fmt.Sprintf("Swap(%d,%d)", i, j), 0, func(in *listInst, _ int) bool { return i < len(in.m.items) && j < len(in.m.items) }, func(in *listInst) string {
				in.s.Swap(i, j)
				in.m.swap(i, j)
				return ""
			}})
		}
	}
	return ops
}

func c01Machine(c *Ctx, cfg listCfg) *Machine[*listInst] {
	ops := c01Ops(cfg.MaxL)
	depth := 0
	if cfg.Prefill > 0 {
		ops = c01Ops(3) // absolute positions 0..2; the far end is addressed relative to the length
		depth = 2
		if !c.Quick() {
			depth = 3
		}
	}
	return &Machine[*listInst]{
		Name: "C01 " + cfg.String(),
		New: func() *listInst {
			in := cfg.build()
			if cfg.Prefill == 0 {
				in.by = cfg.build()
			}
			return in
		},
		MaxDepth: depth,
		NumOps:   len(ops),
		OpName:   func(in *listInst, op int) string { return ops[op].name },
		Enabled:  func(in *listInst, op int) bool { return ops[op].enabled(in, cfg.MaxL) && in.s.Len() <= cfg.MaxL+3 },
		Apply: func(in *listInst, op int, check bool) []string {
			var before, bkey string
			if check {
				before, bkey = showList(in.m.items)+fmt.Sprint(in.m.fifo), stackKey(in.s)
			}
			ret := ops[op].run(in)
			if in.by != nil {
				// the same call on an unrelated instance, right afterwards: two instances have nothing in
				// common, whatever the package keeps behind the scenes
				if r2 := ops[op].run(in.by); r2 != "" && ret == "" {
					ret = "(on the second, unrelated instance) " + r2
				}
			}
			if !check {
				return nil
			}
			if before != showList(in.m.items)+fmt.Sprint(in.m.fifo) {
				c.Nontrivial(cfg.String() + "|" + bkey + "|" + ops[op].name)
			}
			c.Outcome(canonTokens(fmt.Sprintf("%q", showList(in.m.items))))
			var out []string
			cls := opClass(ops[op].name)
			if ret != "" {
				out = append(out, "return:"+cls+"\x00"+ret)
			}
			for _, b := range compareList(in.s, in.m) {
				out = append(out, "content:"+cls+":"+obsClass(b)+"\x00"+b)
			}
			if in.by != nil {
				for _, b := range compareList(in.by.s, in.by.m) {
					out = append(out, "content-of-unrelated-instance:"+cls+":"+obsClass(b)+"\x00(a second instance that went through the same calls, each right after the first) "+b)
				}
			}
			return out
		},
		NoopProbeDepth: 1,
		Observe:        func(in *listInst) { observeAll(in.s) },
		Key:            func(in *listInst) string { return stackKey(in.s) },
	}
}

// obsClass names the observation that disagreed ("Len", "Index", ...).
func obsClass(b string) string {
	for i, r := range b {
		if r == '(' || r == '=' || r == ':' {
			return b[:i]
		}
	}
	return b
}

func c01Configs(c *Ctx) []listCfg {
	var out []listCfg
	maxL, capk := 3, 3
	kinds := []string{"LIST", "AND"}
	if !c.Quick() {
		maxL, capk = 6, 5
		kinds = kindNames
	}
	for _, k := range kinds {
		for _, fifo := range []bool{false, true} {
			for _, cp := range []int{0, capk} {
				for _, neg := range []bool{false, true} {
					for _, fwd := range []bool{false, true} {
						ml := maxL
						if cp > 0 {
							ml = cp + 1 // growth is attempted on a full stack too: the model drops the surplus
						}
						out = append(out, listCfg{k, fifo, cp, neg, fwd, ml, false, false, false, 0, "", false, false, 0})
						if neg == fwd {
							out = append(out, listCfg{k, fifo, cp, neg, fwd, ml, neg, false, true, 0, "", false, false, 0})
						}
						if !neg && !fwd {
							// the same histories through the locking paths and the push-policy path
							out = append(out, listCfg{k, fifo, cp, neg, fwd, ml, true, false, false, 0, "", false, false, 0}, listCfg{k, fifo, cp, neg, fwd, ml, true, true, false, 0, "", false, false, 0})
							if !c.Quick() {
								out = append(out, listCfg{k, fifo, cp, neg, fwd, ml, false, true, false, 0, "", false, false, 0})
							}
						}
					}
				}
			}
		}
	}
	// the long regime: stacks that start out long (beyond any fixed scratch size, growth step or shrink
	// threshold one might think of), every operation around them to depth 2 / 3, drains included
	for i, n := range []int{9, 17, 33, 70, 130} {
		if c.Quick() && n > 70 {
			continue
		}
		out = append(out, listCfg{Kind: kindNames[i%5], FIFO: i%2 == 1, MaxL: n + 3, Prefill: n},
			listCfg{Kind: kindNames[(i+2)%5], FIFO: i%2 == 0, Cap: n + 2, Neg: true, Fwd: true, MaxL: n + 3, Prefill: n, Mtx: i%2 == 0})
	}
	// ... and stacks that are mostly nil: 49..129 nil elements after, before or between values
	for i, n := range []int{51, 52, 53, 130} {
		if c.Quick() && n != 52 && n != 53 {
			continue
		}
		for run := 1; run <= 3; run++ {
			out = append(out, listCfg{Kind: kindNames[(i+run)%5], FIFO: (i+run)%2 == 1, MaxL: n + 3, Prefill: n, NilRun: run})
		}
	}
	// a push policy that turns some values away (a batch stops at the first one; an error stays on record
	// until the next one replaces it)
	for _, fifo := range []bool{false, true} {
		for _, cp := range []int{0, capk} {
			ml := maxL
			if cp > 0 {
				ml = cp + 1
			}
			out = append(out, listCfg{Kind: kindNames[ml%5], FIFO: fifo, Cap: cp, MaxL: ml, PolRej: true}, listCfg{Kind: "LIST", FIFO: fifo, Cap: cp, MaxL: ml, PolRej: true, Mtx: true, Neg: true})
		}
	}
	// ... and one that looks at the stack it guards before it answers
	for _, fifo := range []bool{false, true} {
		for _, cp := range []int{0, capk} {
			ml := maxL
			if cp > 0 {
				ml = cp + 1
			}
			out = append(out, listCfg{Kind: kindNames[(ml+1)%5], FIFO: fifo, Cap: cp, MaxL: ml, PolSelf: true})
		}
	}
	// element values Go's == cannot compare (slices, maps, structs holding one): the list operations must
	// not care what an element is
	for i, tok := range []string{"slice", "map", "struct"} {
		out = append(out, listCfg{Kind: "LIST", FIFO: i == 1, MaxL: maxL, Tok: tok},
			listCfg{Kind: kindNames[i+1], FIFO: i != 1, Cap: capk, Neg: true, Fwd: true, MaxL: capk + 1, Mtx: i == 2, Pol: i == 0, Tok: tok})
	}
	// capacities at the edge of int (the stored limit is k+1): the stack must simply never fill up
	for _, cp := range []int{math.MaxInt, math.MaxInt - 1, 1 << 32, -1, -2, -7, math.MinInt} {
		out = append(out, listCfg{"LIST", false, cp, false, false, 2, false, false, false, 0, "", false, false, 0}, listCfg{"OR", true, cp, true, true, 2, false, true, false, 0, "", false, false, 0})
	}
	return out
}

func init() {
	register(&Check{ID: "C01", Engine: "A", Run: runC01, Replay: func(c *Ctx, raw json.RawMessage) {
		var hc histCase
		json.Unmarshal(raw, &hc)
		for _, cfg := range append(c01Configs(&Ctx{Tier: "quick"}), c01Configs(&Ctx{Tier: "thorough"})...) {
			m := c01Machine(c, cfg)
			if m.Name == hc.Machine {
				replayHistory(c, m, hc.History, hc.Observed)
				return
			}
		}
		fmt.Println("replay: unknown machine", hc.Machine)
	}})
}

func runC01(c *Ctx) {
	installLockModel() // mutex-enabled configurations: re-acquiring a held mutex is reported, not hung on
	cfgs := c01Configs(c)
	c.Rule = "BFS to fix-point over every reachable (bounded-length) stack state x every operation of the alphabet; a state is the raw implementation dump with fresh tokens renamed canonically; non-trivial = distinct (configuration, state, operation) triples whose operation changed the reference list or the FIFO flag"
	c.Exhaustive = true
	maxDepth := 0
	for _, cfg := range cfgs {
		m := c01Machine(c, cfg)
		st := BFS(c, m)
		if !st.Complete {
			c.Exhaustive = false
		}
		if st.MaxDepth > maxDepth {
			maxDepth = st.MaxDepth
		}
		c.Sample(map[string]any{"config": cfg.String(), "states": st.States, "transitions": st.Transitions, "bfs_depth": st.MaxDepth})
	}
	c.Bound["configurations"] = len(cfgs)
	c.Bound["max_len"] = cfgs[len(cfgs)-1].MaxL
	c.Bound["bfs_depth_reached"] = maxDepth
	c.Assumptions = append(c.Assumptions, "element values are fresh distinct tokens and nil; no operation inspects token text, so token renaming is a sound symmetry reduction",
		"Remove on a nil slot is accepted as a truthful (nil,false) no-op; Front/Back skip nil slots (DESIGN.md §4)")
}
