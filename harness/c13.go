package main

import (
	"encoding/json"
	"fmt"
	"reflect"
	"strings"

	stackage "github.com/JesseCoretta/go-stackage"
)

// C13 — no-nesting keeps Stacks out; CanNest and IsNesting tell the truth (Engine A).

type nestInst struct {
	capk int
	s    stackage.Stack
	c    stackage.Condition
	isC  bool
	m    []any // model content (stack) or single expression (condition; nil = none)
	flag bool
	tok  int
	ro   bool // read-only: while set, nothing below is allowed to change
	pol  bool // an accept-everything push policy is installed: the option then has no say (documented)
	// vars: alias variables the caller owns and has handed out pointers to; the caller fills them in or
	// empties them whenever it likes, without a word to the stack that holds the pointer
	vars []*StackAlias
}

var nestClasses = []string{"prim", "nil", "stack", "alias", "ptr-alias", "cond", "cond(stack)", "aliasS", "ptr-stack", "nil-ptr-alias", "nil-ptr-stack", "ptr3-alias"}

func (in *nestInst) mk(class string) (v any, stackLike bool) {
	in.tok++
	t := fmt.Sprintf("t%d", in.tok)
	switch class {
	case "prim":
		return t, false
	case "nil":
		return nil, false
	case "stack":
		return stackage.Or().Push(t), true
	case "alias":
		return StackAlias(stackage.And().Push(t)), true
	case "aliasS":
		return StackAliasS(stackage.List().Push(t)), true
	case "ptr-alias":
		a := StackAlias(stackage.And().Push(t))
		return &a, true
	case "ptr-stack":
		a := stackage.Not().Push(t)
		return &a, true
	case "ptr3-alias": // three pointer levels above an alias: still a pointer to a Stack alias
		a := StackAlias(stackage.Or().Push(t))
		p1 := &a
		p2 := &p1
		return &p2, true
	case "named-ptr-alias": // a declared pointer type above an alias (type AliasRef *StackAlias): a pointer like any other
		a := StackAlias(stackage.List().Push(t))
		return AliasRef(&a), true
	case "named-ptr-stack":
		a := stackage.And().Push(t)
		return StackRef(&a), true
	case "ptr20-stack": // twenty pointer levels above a Stack (round 14): the number of levels is nobody's business
		return deepPointer(stackage.And().Push(t), 20), true
	case "ptr33-alias":
		return deepPointer(StackAlias(stackage.Or().Push(t)), 33), true
	case "ptr-alias-var": // a pointer to an alias variable that is still unset: no Stack (yet)
		a := new(StackAlias)
		in.vars = append(in.vars, a)
		return a, false
	case "ptr-iface-stack": // the address of an interface variable that holds a Stack: not a Stack, not an alias
		var box any = stackage.Or().Push(t)
		return &box, false
	case "ptr-iface-ptr-alias":
		a := StackAlias(stackage.And().Push(t))
		var box any = &a
		return &box, false
	case "nil-ptr-alias": // a pointer that points at no Stack is not a Stack
		return (*StackAlias)(nil), false
	case "nil-ptr-stack":
		return (*stackage.Stack)(nil), false
	case "cond":
		return stackage.Cond("k", stackage.Eq, t), false
	case "cond(stack)":
		return stackage.Cond("k", stackage.Ne, stackage.And().Push(t)), false
	}
	panic(class)
}

func isStackLike(v any) bool {
	if v == nil || isNilPtr(v) {
		return false
	}
	// any number of pointer levels above a Stack or one of the harness's alias types
	rv := reflect.ValueOf(v)
	for depth := 0; rv.Kind() == reflect.Ptr && depth < 64; depth++ {
		if rv.IsNil() {
			return false
		}
		rv = rv.Elem()
	}
	if rv.Kind() == reflect.Interface {
		return false // a pointer to an interface VARIABLE is a pointer to a variable, whatever the variable holds today
	}
	if rv.Kind() != reflect.Ptr && rv.CanInterface() && rv.Interface() != v {
		switch tv := rv.Interface().(type) {
		case stackage.Stack:
			return !tv.IsZero()
		case StackAlias:
			return !stackage.Stack(tv).IsZero() // a pointer to an unset alias leads to no Stack
		case StackAliasS:
			return !stackage.Stack(tv).IsZero()
		}
	}
	switch v.(type) {
	case stackage.Stack, StackAlias, StackAliasS, *StackAlias, *StackAliasS, *stackage.Stack:
		return true
	}
	return false
}

type nestOp struct {
	name    string
	grow    int
	classes []string // push batch / expression class
	kind    string   // push, pop, set-true, set-false, toggle, setexpr
}

func c13Ops(maxBatch int, classes []string, cond bool) []nestOp {
	var ops []nestOp
	ops = append(ops, nestOp{"SetNoNesting(true)", 0, nil, "set-true"}, nestOp{"SetNoNesting(false)", 0, nil, "set-false"}, nestOp{"SetNoNesting()", 0, nil, "toggle"}, nestOp{"NoNesting()", 0, nil, "toggle-deprecated"},
		nestOp{"NoNesting(true)", 0, nil, "set-true-deprecated"}, nestOp{"NoNesting(false)", 0, nil, "set-false-deprecated"},
		// other options switched around it (no business with nesting), and the read-only flag (while it is
		// set, the option and the content stay as they are)
		nestOp{"SetParen(true)", 0, nil, "other:paren-on"}, nestOp{"SetParen(false)", 0, nil, "other:paren-off"}, nestOp{"SetNoPadding()", 0, nil, "other:nopad-toggle"},
		nestOp{"SetReadOnly(true)", 0, nil, "ro-on"}, nestOp{"SetReadOnly(false)", 0, nil, "ro-off"})
	for _, cl := range classes {
		if cl == "ptr-alias-var" {
			ops = append(ops, nestOp{"caller fills its alias variables", 0, nil, "vars-fill"}, nestOp{"caller empties its alias variables", 0, nil, "vars-empty"})
		}
	}
	if cond {
		for _, cl := range classes {
			ops = append(ops, nestOp{"SetExpression(" + cl + ")", 0, []string{cl}, "setexpr"})
		}
		// the Stack the Condition already holds, offered once more in another guise (as an alias if it is held
		// natively, natively otherwise; then through a pointer): a Stack like any other
		ops = append(ops, nestOp{"SetExpression(the held Stack in another guise)", 0, []string{"alias"}, "setexpr-guise"}, nestOp{"SetExpression(pointer to the held Stack)", 0, []string{"ptr-stack"}, "setexpr-guise-ptr"})
		return ops
	}
	ops = append(ops, nestOp{"Pop", 0, nil, "pop"}, nestOp{"SetPushPolicy(accept everything)", 0, nil, "pol-on"}, nestOp{"SetPushPolicy(nil)", 0, nil, "pol-off"})
	// the other way values arrive: a source stack transferred into this one (element by element through Push)
	for _, cl := range classes {
		if cl != "nil" {
			ops = append(ops, nestOp{"Transfer[prim " + cl + "] into this", 2, []string{"prim", cl}, "transfer"})
		}
	}
	var rec func(prefix []string)
	rec = func(prefix []string) {
		if len(prefix) > 0 {
			ops = append(ops, nestOp{fmt.Sprintf("Push%v", prefix), len(prefix), append([]string{}, prefix...), "push"})
		}
		if len(prefix) == maxBatch {
			return
		}
		for _, cl := range classes {
			rec(append(prefix, cl))
		}
	}
	rec(nil)
	return ops
}

func c13Machine(c *Ctx, kind string, maxL, maxBatch int, classes []string, cond bool) *Machine[*nestInst] {
	ops := c13Ops(maxBatch, classes, cond)
	name := fmt.Sprintf("C13 %s maxlen=%d batch<=%d", kind, maxL, maxBatch)
	decorated := strings.HasSuffix(kind, "+decorated")
	kind = strings.TrimSuffix(kind, "+decorated")
	kind = strings.Replace(kind, "+vars", "", 1)
	kind = strings.Replace(kind, "+boxed", "", 1)
	rejected := strings.Contains(kind, "+rejected")
	kind = strings.Replace(kind, "+rejected", "", 1)
	capk := 0
	if strings.HasSuffix(kind, "+cap2") {
		kind, capk = strings.TrimSuffix(kind, "+cap2"), 2
	}
	return &Machine[*nestInst]{
		Name: name,
		New: func() *nestInst {
			if cond && strings.HasPrefix(kind, "CONDITION-piecemeal") {
				// assembled step by step, no expression yet
				var pc stackage.Condition
				pc.Init()
				pc.SetKeyword("kw").SetOperator(stackage.Eq)
				return &nestInst{isC: true, c: pc, m: []any{nil}}
			}
			if cond {
				return &nestInst{isC: true, c: stackage.Cond("kw", stackage.Eq, "start"), m: []any{"start"}}
			}
			if capk > 0 {
				return &nestInst{s: newStackKind(kind, capk), capk: capk}
			}
			if decorated {
				return &nestInst{s: decorate(newStackKind(kind)).SetMutex().SetErr(errCat).SetNegativeIndices(true)}
			}
			if rejected {
				// a validity policy that currently says no: what may be pushed is not its business
				return &nestInst{s: newStackKind(kind).SetValidityPolicy(func(...any) error { return errCat })}
			}
			return &nestInst{s: newStackKind(kind)}
		},
		NumOps: len(ops),
		OpName: func(in *nestInst, op int) string { return ops[op].name },
		Enabled: func(in *nestInst, op int) bool {
			if cond {
				return true
			}
			if in.capk > 0 {
				return in.s.Len() <= in.capk+3 // growth beyond the capacity is attempted on purpose
			}
			return len(in.m)+ops[op].grow <= maxL && in.s.Len()+ops[op].grow <= maxL
		},
		Apply: func(in *nestInst, op int, check bool) []string {
			o := ops[op]
			var out []string
			bad := func(k, f string, a ...any) { out = append(out, k+"\x00"+fmt.Sprintf(f, a...)) }
			switch o.kind {
			case "pol-on", "pol-off":
				if o.kind == "pol-on" {
					in.s.SetPushPolicy(func(...any) error { return nil })
				} else {
					in.s.SetPushPolicy(nil)
				}
				if !in.ro {
					in.pol = o.kind == "pol-on"
				}
			case "vars-fill":
				for i, a := range in.vars {
					*a = StackAlias(stackage.And().Push(fmt.Sprintf("t%d", 900+i)))
				}
			case "vars-empty":
				for _, a := range in.vars {
					*a = StackAlias{}
				}
			case "other:paren-on", "other:paren-off", "other:nopad-toggle", "ro-on", "ro-off":
				if in.isC {
					switch o.kind {
					case "other:paren-on":
						in.c.SetParen(true)
					case "other:paren-off":
						in.c.SetParen(false)
					case "other:nopad-toggle":
						in.c.SetNoPadding()
					case "ro-on":
						in.c.SetReadOnly(true)
						in.ro = true
					case "ro-off":
						in.c.SetReadOnly(false)
						in.ro = false
					}
				} else {
					switch o.kind {
					case "other:paren-on":
						in.s.SetParen(true)
					case "other:paren-off":
						in.s.SetParen(false)
					case "other:nopad-toggle":
						in.s.SetNoPadding()
					case "ro-on":
						in.s.SetReadOnly(true)
						in.ro = true
					case "ro-off":
						in.s.SetReadOnly(false)
						in.ro = false
					}
				}
			case "set-true", "set-false", "toggle", "toggle-deprecated", "set-true-deprecated", "set-false-deprecated":
				want := map[string]bool{"set-true": true, "set-false": false, "toggle": !in.flag, "toggle-deprecated": !in.flag, "set-true-deprecated": true, "set-false-deprecated": false}[o.kind]
				if in.isC {
					switch o.kind {
					case "set-true":
						in.c.SetNoNesting(true)
					case "set-false":
						in.c.SetNoNesting(false)
					case "toggle":
						in.c.SetNoNesting()
					case "set-true-deprecated":
						in.c.NoNesting(true)
					case "set-false-deprecated":
						in.c.NoNesting(false)
					default:
						in.c.NoNesting()
					}
				} else {
					switch o.kind {
					case "set-true":
						in.s.SetNoNesting(true)
					case "set-false":
						in.s.SetNoNesting(false)
					case "toggle":
						in.s.SetNoNesting()
					case "set-true-deprecated":
						in.s.NoNesting(true)
					case "set-false-deprecated":
						in.s.NoNesting(false)
					default:
						in.s.NoNesting()
					}
				}
				if !in.ro {
					in.flag = want
				}
			case "pop":
				gv, _ := in.s.Pop()
				if in.ro {
					if check && gv != nil {
						bad("pop", "Pop on a read-only stack returned %v", gv)
					}
				} else if len(in.m) > 0 {
					wv := in.m[len(in.m)-1]
					in.m = in.m[:len(in.m)-1]
					if check && gv != wv {
						bad("pop", "Pop returned %v want %v", gv, wv)
					}
				}
			case "transfer":
				if in.capk > 0 {
					break // capacity-limited machines: Transfer's all-or-nothing room test is C15's subject
				}
				var vals []any
				for _, cl := range o.classes {
					v, sl := in.mk(cl)
					vals = append(vals, v)
					if !in.ro && !(in.flag && sl && !in.pol) {
						in.m = append(in.m, v)
					}
				}
				stackage.Basic().Push(vals...).Transfer(in.s)
			case "push":
				var vals []any
				anyStack := false
				for _, cl := range o.classes {
					v, sl := in.mk(cl)
					vals = append(vals, v)
					switch {
					case in.ro:
						// read-only: nothing is stored
					case in.flag && sl && !in.pol:
						anyStack = true // refused: it does not use up room either
					case in.capk > 0 && len(in.m) >= in.capk:
						// no room left: dropped
					default:
						in.m = append(in.m, v)
					}
				}
				offered := append([]any{}, vals...)
				in.s.Push(vals...)
				if check && !sameList(vals, offered) {
					// the batch is the caller's own slice (Push(batch...)): offering it again, e.g. after switching
					// the option off, must offer the same values
					bad("offered-batch-modified", "Push(batch...) rewrote the caller's slice: offered %s, the slice now reads %s (no-nesting=%v)", showTypes(offered), showTypes(vals), in.flag)
				}
				if check && anyStack {
					c.Nontrivial(name + "|" + o.name + "|" + fmt.Sprint(len(in.m)))
				}
			case "setexpr", "setexpr-guise", "setexpr-guise-ptr":
				v, sl := in.mk(o.classes[0])
				if held, ok := refAsStack(in.m[0]); ok && o.kind != "setexpr" && isStackLike(in.m[0]) {
					switch {
					case o.kind == "setexpr-guise-ptr":
						h := held
						v = &h
					default:
						if _, native := in.m[0].(stackage.Stack); native {
							v = StackAlias(held)
						} else {
							v = held
						}
					}
					sl = true
				}
				in.c.SetExpression(v)
				if in.ro {
					// read-only: the expression stays
				} else if v != nil && !(in.flag && sl) {
					in.m = []any{v}
				} else if check {
					c.Nontrivial(name + "|" + o.name + "|" + fmt.Sprint(in.flag))
				}
			}
			if !check {
				return nil
			}
			cls := opClass(o.name)
			if in.isC {
				if got := in.c.Expression(); got != in.m[0] {
					bad("cond-expression:"+cls, "Expression()=%v want %v (no-nesting=%v)", got, in.m[0], in.flag)
				}
				if got := in.c.CanNest(); got != !in.flag {
					bad("cond-CanNest", "Condition.CanNest()=%v with no-nesting=%v", got, in.flag)
				}
				if got, want := in.c.IsNesting(), isStackLike(in.m[0]); got != want {
					bad("cond-IsNesting", "Condition.IsNesting()=%v want %v (expression %T)", got, want, in.m[0])
				}
				c.Outcome(fmt.Sprintf("c/%T/%v", in.m[0], in.flag))
				return out
			}
			got := contents(in.s)
			if !sameList(got, in.m) {
				bad("content:"+cls, "content %s want %s (no-nesting=%v)", showTypes(got), showTypes(in.m), in.flag)
			}
			if g := in.s.Len(); g != len(in.m) {
				bad("len:"+cls, "Len()=%d want %d", g, len(in.m))
			}
			if g := in.s.CanNest(); g != !in.flag {
				bad("CanNest", "Stack.CanNest()=%v while no-nesting=%v", g, in.flag)
			}
			wantNesting := false
			for _, v := range in.m {
				if isStackLike(v) {
					wantNesting = true
				}
			}
			if g := in.s.IsNesting(); g != wantNesting {
				bad("IsNesting", "Stack.IsNesting()=%v want %v (content %s)", g, wantNesting, showTypes(in.m))
			}
			c.Outcome(fmt.Sprintf("s/%s/%v", showTypes(in.m), in.flag))
			return out
		},
		MaxStates:      200000,
		NoopProbeDepth: 2,
		Observe: func(in *nestInst) {
			if in.isC {
				observeAll(in.c)
			} else {
				observeAll(in.s)
			}
		},
		Key: func(in *nestInst) string {
			if in.isC {
				return canonTokens(stackage.VerifDump(in.c).Key(false))
			}
			// the model's own bits belong to the state: two histories that leave the same dump but different
			// expectations (a policy the model believes removed) have different futures
			return stackKey(in.s) + fmt.Sprint("|model:", in.pol, in.flag, in.ro)
		},
	}
}

func showTypes(xs []any) string {
	s := "["
	for i, x := range xs {
		if i > 0 {
			s += " "
		}
		s += fmt.Sprintf("%T", x)
	}
	return s + "]"
}

// c13LongBatches: the long regime. One Push of 8..70 values with Stacks / aliases / pointers to aliases at
// chosen positions (one or two of them), the option on and off, with and without capacity, with and without
// an accept-all push policy: every value that is not a Stack is stored, in order, as far as room remains.
func c13LongBatches(c *Ctx) int {
	n := 0
	lens := []int{8, 16, 17, 20, 33, 40}
	if !c.Quick() {
		lens = []int{8, 9, 15, 16, 17, 18, 20, 31, 32, 33, 34, 40, 64, 65, 70, 130}
	}
	for li, L := range lens {
		for _, at := range [][]int{{0}, {4}, {L / 2}, {L - 1}, {15 % L}, {16 % L}, {2, L - 2}, {}} {
			for variant := 0; variant < 8; variant++ {
				flag, capped, pol := variant&1 != 0, variant&2 != 0, variant&4 != 0
				vals := make([]any, L)
				for i := range vals {
					vals[i] = fmt.Sprintf("v%d", i)
				}
				classes := []string{"stack", "alias", "ptr-alias", "aliasS", "ptr-stack", "named-ptr-alias", "named-ptr-stack"}
				in := &nestInst{}
				for k, p := range at {
					v, _ := in.mk(classes[(li+k+variant)%len(classes)])
					vals[p] = v
				}
				capk := 0
				var s stackage.Stack
				if capped {
					capk = L - 3
					s = newStackKind(kindNames[(li+variant)%5], capk)
				} else {
					s = newStackKind(kindNames[(li+variant)%5])
				}
				if pol {
					s.SetPushPolicy(func(...any) error { return nil })
				}
				s.SetNoNesting(flag)
				var want []any
				for _, v := range vals {
					// (SetNoNesting documents that the option has no say while a push policy is installed)
					if flag && !pol && isStackLike(v) {
						continue
					}
					if capk > 0 && len(want) >= capk {
						break
					}
					want = append(want, v)
				}
				offered := append([]any{}, vals...)
				p := noPanic(func() { s.Push(vals...) })
				n++
				c.Transitions.Add(1)
				desc := fmt.Sprintf("one Push of %d values with Stack-like values at %v on a %s (no-nesting=%v capacity=%d push-policy=%v)", L, at, s.Kind(), flag, capk, pol)
				if p != "" {
					c.Violation("long-batch:panic", desc+" panicked: "+p, nil, L)
					continue
				}
				if got := contents(s); !sameList(got, want) {
					c.Violation("long-batch:content", fmt.Sprintf("%s stored %d values %s, want %d: %s", desc, len(got), showTypes(got[:min(len(got), 6)]), len(want), showTypes(want[:min(len(want), 6)])), nil, L)
				}
				if !sameList(vals, offered) {
					c.Violation("long-batch:offered-batch-modified", desc+" rewrote the caller's slice", nil, L)
				}
				wantNesting := false
				for _, v := range want {
					if isStackLike(v) {
						wantNesting = true
					}
				}
				if s.IsNesting() != wantNesting {
					c.Violation("long-batch:IsNesting", fmt.Sprintf("%s: IsNesting()=%v want %v", desc, s.IsNesting(), wantNesting), nil, L)
				}
				if len(at) > 0 && flag && !pol {
					c.Nontrivial(desc)
				}
			}
		}
	}
	return n
}

type c13Cfg struct {
	Kind     string
	MaxL     int
	MaxBatch int
	Classes  []string
	Cond     bool
}

func c13Configs(c *Ctx) []c13Cfg {
	var out []c13Cfg
	if c.Quick() {
		for _, k := range []string{"AND", "LIST", "BASIC"} {
			out = append(out, c13Cfg{k, 2, 2, nestClasses, false})
		}
	} else {
		for _, k := range kindNames {
			out = append(out, c13Cfg{k, 3, 3, nestClasses, false})
		}
	}
	out = append(out, c13Cfg{"OR+decorated", 2, 2, nestClasses, false})
	out = append(out, c13Cfg{"AND+rejected", 2, 2, []string{"prim", "stack", "alias", "ptr-alias", "cond", "nil"}, false})
	boxed := []string{"prim", "ptr-iface-stack", "stack", "ptr-iface-ptr-alias", "named-ptr-alias", "named-ptr-stack", "ptr20-stack", "ptr33-alias"} // (boxes, declared pointer types, long pointer chains)
	out = append(out, c13Cfg{"OR+boxed", 2, 2, boxed, false}, c13Cfg{"CONDITION+boxed", 1, 1, boxed, true})
	out = append(out, c13Cfg{"LIST+cap2", 2, 3, []string{"prim", "stack", "ptr-alias", "cond"}, false}, c13Cfg{"NOT+cap2", 2, 3, []string{"prim", "alias", "nil"}, false})
	// pointers to alias variables the caller fills in and empties behind the stack's back
	varClasses := []string{"prim", "ptr-alias-var", "stack", "nil"}
	if c.Quick() {
		out = append(out, c13Cfg{"AND+vars", 2, 2, varClasses, false}, c13Cfg{"CONDITION+vars", 1, 1, varClasses, true})
	} else {
		out = append(out, c13Cfg{"AND+vars", 3, 2, varClasses, false}, c13Cfg{"LIST+vars", 3, 3, varClasses, false}, c13Cfg{"OR+vars+cap2", 2, 2, varClasses, false}, c13Cfg{"CONDITION+vars", 1, 1, varClasses, true})
	}
	out = append(out, c13Cfg{"CONDITION", 1, 1, nestClasses, true}, c13Cfg{"CONDITION-piecemeal", 1, 1, nestClasses, true})
	return out
}

func init() {
	find := func(c *Ctx, name string) *Machine[*nestInst] {
		for _, tier := range []string{"quick", "thorough"} {
			for _, cfg := range c13Configs(&Ctx{Tier: tier}) {
				m := c13Machine(c, cfg.Kind, cfg.MaxL, cfg.MaxBatch, cfg.Classes, cfg.Cond)
				if m.Name == name {
					return m
				}
			}
		}
		return nil
	}
	register(&Check{ID: "C13", Engine: "A", Run: func(c *Ctx) {
		if msg := sameNamedTypes(); msg != "" {
			c.Violation("same-named-types", "two distinct types that merely print the same name (function-local declarations): "+msg, nil, 0)
		}
		if msg := hollowFirst(); msg != "" {
			// alias types first met in hollow form: the order in which values of a type arrive must not matter
			c.Violation("hollow-value-seen-first", "after nil pointers / zero values of an alias type had been the first values of that type the library saw: "+msg, nil, 0)
		}
		c.Bound["long_batches"] = c13LongBatches(c)
		// instances that accept nothing at all (never initialised, freed): CanNest is true exactly when a
		// nested Stack would currently be accepted
		for name, mk := range map[string]func() stackage.Stack{
			"zero-valued Stack": func() stackage.Stack { return stackage.Stack{} },
			"freed Stack":       func() stackage.Stack { s := stackage.And().Push("x"); s.Free(); return s },
			"freed no-nesting Stack": func() stackage.Stack {
				s := stackage.Or().SetNoNesting(true)
				s.Free()
				return s
			},
		} {
			s := mk()
			s.SetNoNesting(false)
			s.Push(stackage.Or().Push("in"))
			c.Transitions.Add(1)
			if s.Len() != 0 || s.CanNest() || s.IsNesting() {
				c.Violation("unusable-receiver", fmt.Sprintf("a %s accepted nothing (Len %d) yet reports CanNest()=%v IsNesting()=%v", name, s.Len(), s.CanNest(), s.IsNesting()), nil, 0)
			}
		}
		var zc stackage.Condition
		zc.SetExpression(stackage.Or().Push("in"))
		if zc.CanNest() || zc.IsNesting() {
			c.Violation("unusable-receiver", fmt.Sprintf("a zero-valued Condition reports CanNest()=%v IsNesting()=%v", zc.CanNest(), zc.IsNesting()), nil, 0)
		}
		c.Rule = "BFS to fix-point: state = element classes (primitive, nil, Stack, alias, alias with String, pointer to alias, pointer to Stack, nil pointer to alias / to Stack, Condition, Condition holding a Stack) x no-nesting flag; alphabet = every push batch up to the batch bound over those classes, set/clear/toggle of the option, Pop; a Condition machine does the same with SetExpression; non-trivial = distinct (state size, operation) where a Stack-like value was offered while the option was set"
		c.Exhaustive = true
		for _, cfg := range c13Configs(c) {
			st := BFS(c, c13Machine(c, cfg.Kind, cfg.MaxL, cfg.MaxBatch, cfg.Classes, cfg.Cond))
			if !st.Complete {
				c.Exhaustive = false
			}
			c.Sample(map[string]any{"machine": fmt.Sprintf("%+v", cfg), "states": st.States, "transitions": st.Transitions})
		}
		c.Assumptions = append(c.Assumptions, "a Condition holding a Stack is not itself a Stack (it is stored under no-nesting)")
	}, Replay: func(c *Ctx, raw json.RawMessage) {
		var hc histCase
		json.Unmarshal(raw, &hc)
		if m := find(c, hc.Machine); m != nil {
			replayHistory(c, m, hc.History, hc.Observed)
		}
	}})
}
