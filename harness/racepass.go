package main

import (
	"context"
	"fmt"
	"os"
	"os/exec"
	"path/filepath"
	"regexp"
	"sort"
	"strings"
	"sync"
	"time"
)

// Free-running complement of Engine C. The cooperative scheduler's hand-offs are happens-before
// edges, so the race detector sees nothing there; the same scenario bodies are therefore also run
// free-running in a separate -race binary (/verif/.bin/check-race). This pass is NOT the deciding
// step for interleaving semantics; it only serves the "do not race on shared memory" clauses and is
// reported as a separately labelled, non-exhaustive complement (coverage.race_pass).

var raceBodies = map[string]func(tier string) (scenarios int, runs int){}

// raceBodyMain is the entry point inside the -race binary.
func raceBodyMain(prop, tier string) {
	f := raceBodies[prop]
	if f == nil {
		fmt.Fprintln(os.Stderr, "no race body for", prop)
		os.Exit(2)
	}
	sc, runs := f(tier)
	fmt.Printf("RACE-BODY scenarios=%d runs=%d\n", sc, runs)
}

// parallelBody starts the given functions simultaneously (real parallelism) and waits for them.
// Panics are recovered and counted: under free-running execution a panic is a symptom of a lost
// atomicity that the exhaustive exploration reports with a schedule; here it must not abort the pass.
func parallelBody(fs ...func()) (panics int) {
	var wg sync.WaitGroup
	start := make(chan struct{})
	var mu sync.Mutex
	for _, f := range fs {
		f := f
		wg.Add(1)
		go func() {
			defer wg.Done()
			defer func() {
				if r := recover(); r != nil {
					mu.Lock()
					panics++
					mu.Unlock()
				}
			}()
			<-start
			f()
		}()
	}
	close(start)
	done := make(chan struct{})
	go func() { wg.Wait(); close(done) }()
	select {
	case <-done:
	case <-time.After(3 * time.Second):
		// a goroutine is stuck (typically on a mutex left locked by a panicking holder): abandon
		// this body; the exhaustive exploration reports such defects with a schedule
		mu.Lock()
		panics += 1000
		mu.Unlock()
	}
	mu.Lock()
	defer mu.Unlock()
	return panics
}

type raceReport struct {
	Kind  string // read-write, write-write
	Sites []string
	Text  string
}

var raceFnRe = regexp.MustCompile(`github\.com/JesseCoretta/go-stackage\.([^\s(]+(?:\([^)]*\))?[^\s(]*)\(`)

func parseRaceLog(text string) []raceReport {
	var out []raceReport
	for _, blk := range strings.Split(text, "WARNING: DATA RACE")[1:] {
		if i := strings.Index(blk, "=================="); i >= 0 {
			blk = blk[:i]
		}
		lines := strings.Split(blk, "\n")
		var kinds []string
		var sites []string
		cur := -1
		for _, ln := range lines {
			l := strings.TrimSpace(ln)
			switch {
			case strings.HasPrefix(l, "Write at"), strings.HasPrefix(l, "Previous write at"):
				kinds = append(kinds, "write")
				sites = append(sites, "")
				cur = len(sites) - 1
			case strings.HasPrefix(l, "Read at"), strings.HasPrefix(l, "Previous read at"):
				kinds = append(kinds, "read")
				sites = append(sites, "")
				cur = len(sites) - 1
			case strings.HasPrefix(l, "Goroutine "):
				cur = -1
			case cur >= 0 && sites[cur] == "" && strings.Contains(l, "go-stackage."):
				if m := raceFnRe.FindStringSubmatch(l); m != nil {
					sites[cur] = m[1]
				}
			}
		}
		if len(kinds) < 2 {
			continue
		}
		involves := false
		for _, s := range sites {
			if s != "" {
				involves = true
			}
		}
		if !involves {
			continue // not in the library
		}
		k := []string{kinds[0], kinds[1]}
		sort.Strings(k)
		out = append(out, raceReport{Kind: k[0] + "-" + k[1], Sites: sites[:2], Text: blk})
	}
	return out
}

// racePass runs the free-running -race binary for prop and records what it reports.
func racePass(c *Ctx, prop string) {
	bin := filepath.Join(verifRoot, ".bin", "check-race")
	if _, err := os.Stat(bin); err != nil {
		fmt.Println("INFRASTRUCTURE: race binary missing (run.sh builds it); no verdict")
		if c.NumViolKeys() > 0 {
			return
		}
		os.Exit(2)
	}
	logBase := filepath.Join(verifRoot, ".bin", "race-"+prop+".log")
	old, _ := filepath.Glob(logBase + "*")
	for _, f := range old {
		os.Remove(f)
	}
	ctx, cancel := context.WithTimeout(context.Background(), 15*time.Minute)
	defer cancel()
	cmd := exec.CommandContext(ctx, bin, "-prop", prop, "-tier", c.Tier, "-racebody")
	cmd.Env = append(os.Environ(), "GORACE=log_path="+logBase+" halt_on_error=0 exitcode=0")
	outb, err := cmd.CombinedOutput()
	if err != nil {
		fmt.Printf("INFRASTRUCTURE: race body failed: %v\n%s\n", err, oneLine(string(outb), 2000))
		if c.NumViolKeys() > 0 {
			return // the exhaustive part already has a verdict
		}
		os.Exit(2)
	}
	var text string
	logs, _ := filepath.Glob(logBase + "*")
	for _, f := range logs {
		b, _ := os.ReadFile(f)
		text += string(b)
	}
	reps := parseRaceLog(text)
	byKind := map[string]int{}
	sites := map[string]bool{}
	for _, r := range reps {
		byKind[r.Kind]++
		s := append([]string{}, r.Sites...)
		sort.Strings(s)
		sites[strings.Join(s, " <-> ")] = true
		key := "race:" + r.Kind
		c.Violation(key, fmt.Sprintf("data race (%s) between %s and %s\n%s", r.Kind, r.Sites[0], r.Sites[1], oneLine(r.Text, 1500)), map[string]any{"race_report": r.Text}, len(r.Text))
	}
	var sl []string
	for s := range sites {
		sl = append(sl, s)
	}
	sort.Strings(sl)
	c.Extra["race_pass"] = map[string]any{
		"note":       "free-running, non-exhaustive complement under the Go race detector; not the deciding step for interleaving semantics",
		"body":       strings.TrimSpace(lastLine(string(outb))),
		"reports":    len(reps),
		"by_kind":    byKind,
		"site_pairs": sl,
	}
}

func lastLine(s string) string {
	s = strings.TrimSpace(s)
	if i := strings.LastIndex(s, "\n"); i >= 0 {
		return s[i+1:]
	}
	return s
}
