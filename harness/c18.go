package main

import (
	"encoding/json"
	"fmt"
	"io"
	"log"
	"math/bits"
	"reflect"
	"sort"
	"strings"

	stackage "github.com/JesseCoretta/go-stackage"
)

// C18 — options are independent switches with faithful getters (Engine A).

// ---- option bits ---------------------------------------------------------------------------

type optInst struct {
	x      any // stackage.Stack or stackage.Condition
	isCond bool
	on     map[string]bool // model: canonical option name -> state
}

// optionMethods finds, by reflection, every exported method of t with signature func(...bool) T.
func optionMethods(t reflect.Type) []string {
	var out []string
	for i := 0; i < t.NumMethod(); i++ {
		m := t.Method(i)
		ft := m.Type
		if ft.NumIn() == 2 && ft.IsVariadic() && ft.In(1) == reflect.TypeOf([]bool{}) && ft.NumOut() == 1 && ft.Out(0) == t {
			out = append(out, m.Name)
		}
	}
	sort.Strings(out)
	return out
}

func callOpt(x any, method string, args ...bool) {
	var in []reflect.Value
	for _, a := range args {
		in = append(in, reflect.ValueOf(a))
	}
	reflect.ValueOf(x).MethodByName(method).Call(in)
}

func optBits(x any) uint16 { return stackage.VerifDump(x).Opt }

type optSetup struct {
	rejected bool // a validity closure that currently rejects the stack is installed
	erred    int  // 1: an error is parked on the instance (SetErr); 2: a Condition born invalid (the constructor parks the error)
	mutex    bool
	kind     string
	isCond   bool
	methods  []string          // tri-state methods
	canon    map[string]string // method -> canonical option name (the Set* form that drives the same bit)
	bit      map[string]uint16 // canonical option -> raw bit (derived empirically)
	ronly    string
}

func (su *optSetup) fresh() any {
	if su.isCond {
		switch su.erred {
		case 1:
			return stackage.Cond("kw", stackage.Eq, "val").SetErr(errCat)
		case 2:
			return stackage.Cond("", stackage.Eq, "val")
		}
		return stackage.Cond("kw", stackage.Eq, "val")
	}
	if su.erred == 1 {
		s := newStackKind(su.kind).Push("a", stackage.List().Push("b", "c"), "d")
		if su.mutex {
			s.SetMutex()
		}
		return s.SetErr(errCat) // options and their getters have no business with a pending error
	}
	s := newStackKind(su.kind).Push("a", stackage.List().Push("b", "c"), "d")
	if su.mutex {
		s.SetMutex() // the option setters then run through lock()/unlock()
	}
	if su.rejected {
		s.SetValidityPolicy(func(...any) error { return errCat }) // getters must not depend on a closure's verdict
	}
	return s
}

func newOptSetup(kind string, isCond bool, mutex ...bool) (*optSetup, string) {
	su := &optSetup{kind: kind, isCond: isCond, canon: map[string]string{}, bit: map[string]uint16{}, mutex: len(mutex) > 0 && mutex[0]}
	t := reflect.TypeOf(stackage.Stack{})
	if isCond {
		t = reflect.TypeOf(stackage.Condition{})
	}
	su.methods = optionMethods(t)
	byBit := map[uint16]string{}
	for _, m := range su.methods { // sorted: "Set..." names come after the deprecated short names
		x := su.fresh()
		callOpt(x, m, true)
		b := optBits(x)
		if bits.OnesCount16(b) != 1 {
			return nil, fmt.Sprintf("%s(true) on a fresh instance changed option bits to %#x (want exactly one bit)", m, b)
		}
		if strings.HasPrefix(m, "Set") {
			if prev, dup := byBit[b]; dup && strings.HasPrefix(prev, "Set") {
				return nil, fmt.Sprintf("%s and %s drive the same option bit %#x", prev, m, b)
			}
			byBit[b] = m
		} else if _, ok := byBit[b]; !ok {
			byBit[b] = m
		}
	}
	for _, m := range su.methods {
		x := su.fresh()
		callOpt(x, m, true)
		su.canon[m] = byBit[optBits(x)]
		su.bit[byBit[optBits(x)]] = optBits(x)
	}
	su.ronly = "SetReadOnly"
	return su, ""
}

func (su *optSetup) modelBits(on map[string]bool) uint16 {
	var b uint16
	for o, v := range on {
		if v {
			b |= su.bit[o]
		}
	}
	return b
}

func c18OptMachine(c *Ctx, su *optSetup) *Machine[*optInst] {
	type op struct {
		method string
		mode   int // 0 true, 1 false, 2 toggle, 3 (true, false), 4 (false, true): the first Boolean speaks (round 14)
	}
	var ops []op
	for _, m := range su.methods {
		for mode := 0; mode < 5; mode++ {
			ops = append(ops, op{m, mode})
		}
	}
	name := "C18 option bits " + su.kind
	if su.mutex {
		name += " mutex"
	}
	opName := func(o op) string { return o.method + []string{"(true)", "(false)", "()", "(true, false)", "(false, true)"}[o.mode] }
	direct := func(on map[string]bool) any { // differential: the same option set reached directly
		x := su.fresh()
		names := make([]string, 0, len(on))
		for o, v := range on {
			if v && o != su.ronly {
				names = append(names, o)
			}
		}
		sort.Strings(names)
		for _, o := range names {
			callOpt(x, o, true)
		}
		if on[su.ronly] {
			callOpt(x, su.ronly, true)
		}
		return x
	}
	return &Machine[*optInst]{
		Name:    name,
		New:     func() *optInst { return &optInst{x: su.fresh(), isCond: su.isCond, on: map[string]bool{}} },
		NumOps:  len(ops),
		OpName:  func(in *optInst, i int) string { return opName(ops[i]) },
		Enabled: func(*optInst, int) bool { return true },
		Apply: func(in *optInst, i int, check bool) []string {
			o := ops[i]
			var before string
			if check {
				before = contentOnlyKey(in.x)
			}
			switch o.mode {
			case 0:
				callOpt(in.x, o.method, true)
			case 1:
				callOpt(in.x, o.method, false)
			case 3:
				callOpt(in.x, o.method, true, false)
			case 4:
				callOpt(in.x, o.method, false, true)
			default:
				callOpt(in.x, o.method)
			}
			opt := su.canon[o.method]
			if !in.on[su.ronly] || opt == su.ronly {
				switch o.mode {
				case 0, 3:
					in.on[opt] = true
				case 1, 4:
					in.on[opt] = false
				default:
					in.on[opt] = !in.on[opt]
				}
			}
			if !check {
				return nil
			}
			var out []string
			bad := func(k, f string, a ...any) { out = append(out, k+"\x00"+fmt.Sprintf(f, a...)) }
			if got, want := optBits(in.x), su.modelBits(in.on); got != want {
				bad("bits:"+o.method, "%s: option bits %#x want %#x (model %v)", opName(o), got, want, onList(in.on))
			}
			if after := contentOnlyKey(in.x); after != before {
				bad("content-changed:"+o.method, "%s altered something other than the option bits:\n before %s\n after  %s", opName(o), before, after)
			}
			// public getters
			get := func(n string) bool {
				return reflect.ValueOf(in.x).MethodByName(n).Call(nil)[0].Bool()
			}
			for _, g := range []struct {
				getter, opt string
				neg         bool
			}{{"IsParen", "SetParen", false}, {"IsPadded", "SetNoPadding", true}, {"IsReadOnly", "SetReadOnly", false}, {"CanNest", "SetNoNesting", true}} {
				if _, ok := su.bit[g.opt]; !ok {
					continue
				}
				if got, want := get(g.getter), in.on[g.opt] != g.neg; got != want {
					bad("getter:"+g.getter, "%s()=%v want %v (model %v)", g.getter, got, want, onList(in.on))
				}
			}
			// behaviour of the options without a getter, and a differential against the directly built twin
			twin := direct(in.on)
			if su.rejected {
				// a rejected stack renders as "": the String-based observations do not apply
				c.Nontrivial(name + fmt.Sprint(su.modelBits(in.on)) + opName(o))
				return out
			}
			if gs, ws := fmt.Sprint(in.x), fmt.Sprint(twin); gs != ws {
				bad("string-differs:"+o.method, "String()=%q but an instance with the same options set directly renders %q (model %v)", gs, ws, onList(in.on))
			}
			if !su.isCond {
				s, tw := in.x.(stackage.Stack), twin.(stackage.Stack)
				for _, idx := range []int{-1, -3, 3, 6} {
					gv, gok := s.Index(idx)
					wv, wok := tw.Index(idx)
					if gok != wok || fmt.Sprint(gv) != fmt.Sprint(wv) {
						bad("index-differs", "Index(%d)=(%v,%v) but the directly built twin gives (%v,%v) (model %v)", idx, gv, gok, wv, wok, onList(in.on))
					}
				}
				if _, ok := s.Index(-1); ok != in.on["SetNegativeIndices"] {
					bad("behaviour:negative-indices", "Index(-1) ok=%v with negative indices %v", ok, in.on["SetNegativeIndices"])
				}
				if _, ok := s.Index(7); ok != in.on["SetForwardIndices"] {
					bad("behaviour:forward-indices", "Index(7) ok=%v with forward indices %v", ok, in.on["SetForwardIndices"])
				}
				str := s.String()
				if su.kind == "AND" || su.kind == "OR" {
					word := " " + su.kind + " "
					if in.on["SetLeadOnce"] {
						word = su.kind + " "
					}
					if in.on["SetFold"] {
						word = strings.ToLower(word)
					}
					if !strings.Contains(str, word) && !(in.on["SetLeadOnce"] && in.on["SetNoPadding"]) {
						bad("behaviour:fold", "String()=%q does not contain operator %q (model %v)", str, word, onList(in.on))
					}
				}
				if su.kind != "BASIC" {
					if par := strings.HasPrefix(str, "("); par != in.on["SetParen"] {
						bad("behaviour:paren", "String()=%q parenthetical=%v", str, in.on["SetParen"])
					}
					if in.on["SetLeadOnce"] != leadOnceShape(str, su.kind, in.on) && (su.kind == "AND" || su.kind == "OR" || su.kind == "NOT") {
						bad("behaviour:lead-once", "String()=%q lead-once=%v", str, in.on["SetLeadOnce"])
					}
				}
			}
			c.Nontrivial(name + fmt.Sprint(su.modelBits(in.on)) + opName(o))
			c.Outcome(fmt.Sprint(in.x))
			return out
		},
		Observe: func(in *optInst) { observeAll(in.x) },
		Key:     func(in *optInst) string { return stackage.VerifDump(in.x).Key(false) },
	}
}

// leadOnceShape says whether the rendering looks like the lead-once form: the operator word occurs
// exactly once in the outer stack (which holds three elements, so the infix form shows it twice).
func leadOnceShape(str, kind string, on map[string]bool) bool {
	w := kind
	if on["SetFold"] {
		w = strings.ToLower(kind)
	}
	inner := str
	return strings.Count(inner, w) == 1
}

func onList(on map[string]bool) []string {
	var out []string
	for k, v := range on {
		if v {
			out = append(out, strings.TrimPrefix(k, "Set"))
		}
	}
	sort.Strings(out)
	return out
}

// contentOnlyKey is the exact dump with the option bits blanked.
func contentOnlyKey(x any) string {
	d := stackage.VerifDump(x)
	d.Opt = 0
	return d.Key(true)
}

// ---- string-valued settings ------------------------------------------------------------------

type setInst struct {
	s                       stackage.Stack
	kind                    string
	id                      string
	cat                     string
	delim                   string
	sym                     string
	enc                     [][]string
	aux                     stackage.Auxiliary // nil = whatever the library allocated
	myAux                   stackage.Auxiliary // the caller's own map (see ownAux)
	auxOK                   bool               // model knows the identity
	fifo                    bool
	fold                    bool
	nopad, lonce, paren, ro bool
	// own: a slice the caller keeps (two characters in one backing array); by: another stack that was
	// configured from the whole of it; whatever is done with parts of the slice, both stay as they are
	own    []string
	by     stackage.Stack
	byWant string
}

type setOp struct {
	name string
	run  func(in *setInst)
}

func inUse(enc [][]string, ch string) bool {
	for _, e := range enc {
		for _, x := range e {
			if x == ch {
				return true
			}
		}
	}
	return false
}

// c18FoldBit: the raw option bit driven by SetFold, found by trying it (no internal constant is assumed)
var c18FoldBit = func() uint16 {
	a, b := stackage.And(), stackage.And().SetFold(true)
	return stackage.VerifDump(b).Opt &^ stackage.VerifDump(a).Opt
}()

var c18AuxMap = stackage.Auxiliary{"k": 1}

// ownAux is the caller's own map (one per machine instance): it is handed to SetAuxiliary, kept by the
// caller, and must hold what the caller put into it whatever is called afterwards.
func (in *setInst) ownAux() stackage.Auxiliary {
	if in.myAux == nil {
		in.myAux = stackage.Auxiliary{"k": 1}
	}
	return in.myAux
}

func (in *csetInst) ownAux() stackage.Auxiliary {
	if in.myAux == nil {
		in.myAux = stackage.Auxiliary{"k": 1}
	}
	return in.myAux
}

func auxIntact(a stackage.Auxiliary) bool {
	if a == nil {
		return true
	}
	v, ok := a["k"]
	return len(a) == 1 && ok && v == 1
}

// an allocated map without entries: it is the caller's map all the same (never written to by the harness)
var c18EmptyAux = stackage.Auxiliary{}

func c18SetOps() []setOp {
	var ops []setOp
	add := func(n string, f func(in *setInst)) {
		ops = append(ops, setOp{n, func(in *setInst) {
			before := *in
			f(in)
			if before.ro && !strings.HasPrefix(n, "SetReadOnly") {
				// read-only: the call was made and refused; the model stays as it was (the instance and the
				// caller's own values are the same objects as before)
				s, own, by, byWant, myAux := in.s, in.own, in.by, in.byWant, in.myAux
				*in = before
				in.s, in.own, in.by, in.byWant, in.myAux = s, own, by, byWant, myAux
			}
		}})
	}
	for _, on := range []bool{true, false} {
		on := on
		add(fmt.Sprintf("SetNoPadding(%v)", on), func(in *setInst) { in.s.SetNoPadding(on); in.nopad = on })
		add(fmt.Sprintf("SetLeadOnce(%v)", on), func(in *setInst) { in.s.SetLeadOnce(on); in.lonce = on })
		add(fmt.Sprintf("SetParen(%v)", on), func(in *setInst) { in.s.SetParen(on); in.paren = on })
		add(fmt.Sprintf("SetReadOnly(%v)", on), func(in *setInst) { in.s.SetReadOnly(on); in.ro = on })
	}
	add(`SetID("_random") then SetID("fixed")`, func(in *setInst) { in.s.SetID("_random"); in.s.SetID("fixed"); in.id = "fixed" })
	for _, id := range []string{"alpha", "", "beta"} {
		id := id
		add(fmt.Sprintf("SetID(%q)", id), func(in *setInst) { in.s.SetID(id); in.id = id })
		add(fmt.Sprintf("SetCategory(%q)", id), func(in *setInst) { in.s.SetCategory(id); in.cat = id })
	}
	add(`SetID("_addr")`, func(in *setInst) { in.s.SetID("_addr"); in.id = in.s.Addr() })
	for _, d := range []struct {
		n    string
		v    any
		want string
	}{{`","`, ",", ","}, {`'+'`, '+', "+"}, {`"é;"`, "é;", "é;"}, {`'é'`, 'é', "é"}, {`'∧'`, '∧', "∧"}, {"nil", nil, ""}, {"rune(0)", rune(0), ""}, {`""`, "", ""}, {"7", 7, ""},
		// white space that is neither a blank nor a tab is text like any other (one value per line)
		{`"\n"`, "\n", "\n"}} {
		d := d
		add("SetDelimiter("+d.n+")", func(in *setInst) {
			in.s.SetDelimiter(d.v)
			if in.kind == "LIST" {
				in.delim = d.want
			}
		})
	}
	for _, y := range []struct {
		n    string
		v    []any
		want string
	}{{`"&"`, []any{"&"}, "&"}, {`'|'`, []any{'|'}, "|"}, {`"&",'&'`, []any{"&", '&'}, "&&"}, {"", nil, ""}, {`""`, []any{""}, ""}, {`"vel"`, []any{"vel"}, "vel"},
		// runes on both sides of 0x7F / 0xFF / the BMP, alone and mixed with strings; a multi-byte delimiter rune too
		{`'¬'`, []any{'¬'}, "¬"}, {`'∧'`, []any{'∧'}, "∧"}, {`"a",'∧','\x7f'`, []any{"a", '∧', '\x7f'}, "a∧\x7f"}, {`'😀'`, []any{'😀'}, "😀"}, {`'\u0080'`, []any{'\u0080'}, "\u0080"},
		{`"or\u00a0\nelse"`, []any{"or\u00a0\nelse"}, "or\u00a0\nelse"}} {
		y := y
		add("SetSymbol("+y.n+")", func(in *setInst) {
			in.s.SetSymbol(y.v...)
			if in.kind != "LIST" {
				in.sym = y.want
			}
		})
	}
	for _, e := range []struct {
		n string
		v []any
	}{{`"\""`, []any{`"`}}, {`["(",")"]`, []any{[]string{"(", ")"}}}, {`["<",">"],"'"`, []any{[]string{"<", ">"}, "'"}}, {`[")","]"]`, []any{[]string{")", "]"}}}, {`["\""]`, []any{[]string{`"`}}}, {"", nil}, {`"x"`, []any{"x"}}, {`"X"`, []any{"X"}},
		// a pair whose right half may be taken while its left half is free, and that left half on its own
		{`["<",")"]`, []any{[]string{"<", ")"}}}, {`"<"`, []any{"<"}},
		// a pair whose two sides are the same character (the long way to write a single one)
		{`["'","'"]`, []any{[]string{"'", "'"}}}} {
		e := e
		add("SetEncap("+e.n+")", func(in *setInst) {
			in.s.SetEncap(e.v...)
			if len(e.v) == 0 {
				in.enc = nil
				return
			}
			for _, a := range e.v {
				var pair []string
				switch tv := a.(type) {
				case string:
					pair = []string{tv}
				case []string:
					pair = append([]string{}, tv...)
				}
				dup := false
				for _, ch := range pair {
					if inUse(in.enc, ch) {
						dup = true
					}
				}
				if !dup {
					in.enc = append(in.enc, pair)
				}
			}
		})
	}
	// parts of a slice the caller keeps, one element each, with spare room behind the first
	for _, e := range []struct {
		n     string
		parts func(own []string) []any
	}{{"own[:1]", func(o []string) []any { return []any{o[:1]} }}, {"own[1:]", func(o []string) []any { return []any{o[1:]} }}, {"own[:1],own[1:]", func(o []string) []any { return []any{o[:1], o[1:]} }}} {
		e := e
		add("SetEncap("+e.n+")", func(in *setInst) {
			args := e.parts(in.own)
			in.s.SetEncap(args...)
			for _, a := range args {
				pair := append([]string{}, a.([]string)...)
				dup := false
				for _, ch := range pair {
					if inUse(in.enc, ch) {
						dup = true
					}
				}
				if !dup {
					in.enc = append(in.enc, pair)
				}
			}
		})
	}
	add("SetAuxiliary()", func(in *setInst) { in.s.SetAuxiliary(); in.aux, in.auxOK = nil, false })
	add("SetAuxiliary(nil)", func(in *setInst) { in.s.SetAuxiliary(nil); in.aux, in.auxOK = nil, false })
	add("SetAuxiliary(map)", func(in *setInst) { in.s.SetAuxiliary(in.ownAux()); in.aux, in.auxOK = in.ownAux(), true })
	add("SetAuxiliary(empty map)", func(in *setInst) { in.s.SetAuxiliary(c18EmptyAux); in.aux, in.auxOK = c18EmptyAux, true })
	add("SetFold(true)", func(in *setInst) { in.s.SetFold(true); in.fold = true })
	add("SetFold(false)", func(in *setInst) { in.s.SetFold(false); in.fold = false })
	add("SetFIFO(true)", func(in *setInst) { in.s.SetFIFO(true); in.fifo = true })
	add("SetFIFO(false)", func(in *setInst) { in.s.SetFIFO(false) })
	return ops
}

func refEncap(enc [][]string, v string) string {
	for i := len(enc) - 1; i >= 0; i-- { // outermost pair is the first one configured
		switch len(enc[i]) {
		case 1:
			v = enc[i][0] + v + enc[i][0]
		case 2:
			v = enc[i][0] + v + enc[i][1]
		}
	}
	return v
}

func c18SetMachine(c *Ctx, kind string, maxDepth int) *Machine[*setInst] {
	ops := c18SetOps()
	name := "C18 settings " + kind
	withMutex := strings.HasSuffix(kind, " mutex")
	kind = strings.TrimSuffix(kind, " mutex")
	// "<KIND> validity-rejecting": the stack's own validity closure says no, and an error is on record, from
	// the start: settings are settings all the same (such a stack renders as the empty string)
	rejecting := strings.HasSuffix(kind, " validity-rejecting")
	kind = strings.TrimSuffix(kind, " validity-rejecting")
	// "<KIND> nested-first": the content starts with a Condition and a nested Stack (elements that bring no
	// padding of their own), the plain value comes last
	nestedFirst := strings.HasSuffix(kind, " nested-first")
	kind = strings.TrimSuffix(kind, " nested-first")
	// "<KIND> empty-element": one of the values is the empty string (it renders as nothing, or as the bare
	// encapsulation pair once one is configured)
	emptyElement := strings.HasSuffix(kind, " empty-element")
	kind = strings.TrimSuffix(kind, " empty-element")
	content := func() []any {
		if emptyElement {
			return []any{"a", "", "b"}
		}
		if nestedFirst {
			return []any{stackage.Cond("k", stackage.Eq, "v"), stackage.Or().Push("x", "y"), "b"}
		}
		return []any{"a", "b"}
	}
	kids := []gnode{{T: "leaf", V: "a"}, {T: "leaf", V: "b"}}
	if emptyElement {
		kids = []gnode{{T: "leaf", V: "a"}, {T: "leaf", V: ""}, {T: "leaf", V: "b"}}
	}
	if nestedFirst {
		kids = []gnode{{T: "cond", Kw: "k", Op: 1, Kids: []gnode{{T: "leaf", V: "v"}}}, {T: "stack", Kind: "OR", Kids: []gnode{{T: "leaf", V: "x"}, {T: "leaf", V: "y"}}}, {T: "leaf", V: "b"}}
	}
	// "<KIND> encap-prefilled-<n>": the machine starts from an instance that was given n encapsulation
	// pairs before, one call each (the long regime: every setter around a list that has grown n times)
	prefill := 0
	if i := strings.Index(kind, " encap-prefilled-"); i >= 0 {
		fmt.Sscanf(kind[i:], " encap-prefilled-%d", &prefill)
		kind = kind[:i]
	}
	type depthKey struct{}
	return &Machine[*setInst]{
		Name: name,
		New: func() *setInst {
			own := []string{"{", "}"}
			by := stackage.List().SetEncap(own).Push("by")
			in := &setInst{s: newStackKind(kind).Push(content()...), kind: kind, own: own, by: by, byWant: by.String()}
			if withMutex {
				in.s = newStackKind(kind).SetMutex().Push(content()...)
			}
			if rejecting {
				in.s.SetValidityPolicy(func(...any) error { return errCat }).SetErr(errCat)
			}
			for i := 0; i < prefill; i++ {
				ch := string(rune('0' + i%10))
				if i >= 10 {
					ch = string(rune('A' + i - 10))
				}
				in.s.SetEncap(ch)
				in.enc = append(in.enc, []string{ch})
			}
			return in
		},
		NumOps:  len(ops),
		OpName:  func(in *setInst, i int) string { return ops[i].name },
		Enabled: func(*setInst, int) bool { return true },
		Apply: func(in *setInst, i int, check bool) []string {
			var before []any
			if check {
				before = contents(in.s)
			}
			ops[i].run(in)
			if !check {
				return nil
			}
			var out []string
			cls := opClass(ops[i].name)
			bad := func(k, f string, a ...any) { out = append(out, k+"\x00"+fmt.Sprintf(f, a...)) }
			s := in.s
			if in.own[0] != "{" || in.own[1] != "}" {
				bad("caller-slice-modified:"+cls, "the caller's own slice now reads %q (it was [\"{\" \"}\"]): a setter wrote into the caller's backing array", in.own)
			}
			if got := in.by.String(); got != in.byWant {
				bad("bystander-changed:"+cls, "another Stack, configured earlier from the caller's slice, now renders %q instead of %q", got, in.byWant)
			}
			if got := s.ID(); got != in.id {
				bad("ID:"+cls, "ID()=%q want %q", got, in.id)
			}
			if got := s.Category(); got != in.cat {
				bad("Category:"+cls, "Category()=%q want %q", got, in.cat)
			}
			if got := s.Delimiter(); got != in.delim {
				bad("Delimiter:"+cls, "Delimiter()=%q want %q (kind %s)", got, in.delim, kind)
			}
			if got := s.IsEncap(); got != (len(in.enc) > 0) {
				bad("IsEncap:"+cls, "IsEncap()=%v want %v (model %q)", got, len(in.enc) > 0, in.enc)
			}
			if got := s.IsFIFO(); got != in.fifo {
				bad("IsFIFO:"+cls, "IsFIFO()=%v want %v", got, in.fifo)
			}
			d := stackage.VerifDump(s)
			if got := d.Opt&c18FoldBit != 0; got != in.fold {
				bad("fold-bit:"+cls, "the case-fold option is %v, want %v (symbol %q)", got, in.fold, in.sym)
			}
			if d.Sym != in.sym {
				bad("symbol:"+cls, "stored symbol %q want %q (kind %s)", d.Sym, in.sym, kind)
			}
			if fmt.Sprint(d.Enc) != fmt.Sprint(in.enc) && !(len(d.Enc) == 0 && len(in.enc) == 0) {
				bad("encap:"+cls, "stored encapsulation %q want %q", d.Enc, in.enc)
			}
			if !auxIntact(in.myAux) {
				bad("caller-map-modified:"+cls, "the caller's own Auxiliary map, handed to SetAuxiliary earlier, now reads %v (it held k=1)", map[string]any(in.myAux))
			}
			if in.auxOK {
				if a := s.Auxiliary(); a == nil || reflect.ValueOf(a).Pointer() != reflect.ValueOf(in.aux).Pointer() {
					bad("Auxiliary:"+cls, "Auxiliary() is not the map that was assigned")
				}
			} else if !in.ro && (ops[i].name == "SetAuxiliary()" || ops[i].name == "SetAuxiliary(nil)") {
				if a := s.Auxiliary(); a == nil || a.Len() != 0 {
					bad("Auxiliary:"+cls, "Auxiliary() after %s = %v, want a fresh empty map", ops[i].name, a)
				}
			}
			if !sameList(before, contents(s)) {
				bad("content-changed:"+cls, "%s changed the content", ops[i].name)
			}
			// reflected in String()
			if kind != "BASIC" {
				// the reference renderer of C02, fed with the model's settings
				enc := in.enc
				if enc == nil {
					enc = [][]string{}
				}
				want := gnode{T: "stack", Kind: kind, Paren: in.paren, Fold: in.fold, NoPad: in.nopad, Lonce: in.lonce, Sym: in.sym, Delim: in.delim, EncList: enc,
					Kids: kids}.ref()
				if rejecting {
					want = ""
				}
				if got := s.String(); got != want {
					bad("String:"+cls, "String()=%q want %q (delimiter %q symbol %q encapsulation %q)", got, want, in.delim, in.sym, in.enc)
				}
			}
			c.Nontrivial(name + ops[i].name + d.Key(false))
			c.Outcome(s.String() + s.ID() + s.Category())
			return out
		},
		NoopProbeDepth: 2,
		Observe:        func(in *setInst) { observeAll(in.s) },
		Key: func(in *setInst) string {
			// an ID assigned through "_addr" differs between instances; fold it into one state
			return strings.ReplaceAll(stackage.VerifDump(in.s).Key(false), in.s.Addr(), "<addr>") + fmt.Sprint(in.auxOK)
		},
	}
}

// ---- string-valued settings of a Condition ---------------------------------------------------------

type csetInst struct {
	c     stackage.Condition
	id    string
	cat   string
	enc   [][]string
	aux   stackage.Auxiliary
	myAux stackage.Auxiliary
	auxOK bool
}

func c18CondSetMachine(c *Ctx, variant ...string) *Machine[*csetInst] {
	// variant "empty-list": the expression is a Stack that renders as nothing (the encapsulation is there all the same)
	emptyList := len(variant) > 0 && variant[0] == "empty-list"
	type op struct {
		name string
		run  func(in *csetInst)
	}
	var ops []op
	add := func(n string, f func(in *csetInst)) { ops = append(ops, op{n, f}) }
	for _, v := range []string{"alpha", "", "Beta"} {
		v := v
		add(fmt.Sprintf("SetID(%q)", v), func(in *csetInst) { in.c.SetID(v); in.id = v })
		add(fmt.Sprintf("SetCategory(%q)", v), func(in *csetInst) { in.c.SetCategory(v); in.cat = v })
	}
	add(`SetID("_addr")`, func(in *csetInst) { in.c.SetID("_addr"); in.id = in.c.Addr() })
	for _, e := range []struct {
		n string
		v []any
	}{{`"\""`, []any{`"`}}, {`["(",")"]`, []any{[]string{"(", ")"}}}, {`"x"`, []any{"x"}}, {`"X"`, []any{"X"}}, {`[")","]"]`, []any{[]string{")", "]"}}}, {"", nil}} {
		e := e
		add("SetEncap("+e.n+")", func(in *csetInst) {
			in.c.SetEncap(e.v...)
			if len(e.v) == 0 {
				in.enc = nil
				return
			}
			for _, a := range e.v {
				var pair []string
				switch tv := a.(type) {
				case string:
					pair = []string{tv}
				case []string:
					pair = append([]string{}, tv...)
				}
				dup := false
				for _, ch := range pair {
					if inUse(in.enc, ch) {
						dup = true
					}
				}
				if !dup {
					in.enc = append(in.enc, pair)
				}
			}
		})
	}
	add("SetAuxiliary()", func(in *csetInst) { in.c.SetAuxiliary(); in.aux, in.auxOK = nil, false })
	add("SetAuxiliary(nil)", func(in *csetInst) { in.c.SetAuxiliary(nil); in.aux, in.auxOK = nil, false })
	add("SetAuxiliary(map)", func(in *csetInst) { in.c.SetAuxiliary(in.ownAux()); in.aux, in.auxOK = in.ownAux(), true })
	add("SetAuxiliary(empty map)", func(in *csetInst) { in.c.SetAuxiliary(c18EmptyAux); in.aux, in.auxOK = c18EmptyAux, true })
	name := "C18 settings Condition"
	exprText := "val"
	if emptyList {
		name += " over an empty LIST"
		exprText = ""
	}
	return &Machine[*csetInst]{
		Name: name,
		New: func() *csetInst {
			if emptyList {
				return &csetInst{c: stackage.Cond("kw", stackage.Le, stackage.List())}
			}
			return &csetInst{c: stackage.Cond("kw", stackage.Le, "val")}
		},
		NumOps:  len(ops),
		OpName:  func(in *csetInst, i int) string { return ops[i].name },
		Enabled: func(*csetInst, int) bool { return true },
		Apply: func(in *csetInst, i int, check bool) []string {
			ops[i].run(in)
			if !check {
				return nil
			}
			var out []string
			cls := opClass(ops[i].name)
			bad := func(k, f string, a ...any) { out = append(out, "cond-"+k+":"+cls+"\x00"+fmt.Sprintf(f, a...)) }
			cd := in.c
			if got := cd.ID(); got != in.id {
				bad("ID", "ID()=%q want %q", got, in.id)
			}
			if got := cd.Category(); got != in.cat {
				bad("Category", "Category()=%q want %q", got, in.cat)
			}
			if got := cd.IsEncap(); got != (len(in.enc) > 0) {
				bad("IsEncap", "IsEncap()=%v want %v (model %q)", got, len(in.enc) > 0, in.enc)
			}
			if !auxIntact(in.myAux) {
				bad("caller-map-modified", "the caller's own Auxiliary map, handed to SetAuxiliary earlier, now reads %v (it held k=1)", map[string]any(in.myAux))
			}
			if in.auxOK {
				if a := cd.Auxiliary(); a == nil || reflect.ValueOf(a).Pointer() != reflect.ValueOf(in.aux).Pointer() {
					bad("Auxiliary", "Auxiliary() is not the map that was assigned")
				}
			} else if strings.HasPrefix(ops[i].name, "SetAuxiliary") {
				if a := cd.Auxiliary(); a == nil || a.Len() != 0 {
					bad("Auxiliary", "Auxiliary() after %s = %v, want a fresh empty map", ops[i].name, a)
				}
			}
			exOK := cd.Expression() == "val"
			if emptyList {
				st, isStack := cd.Expression().(stackage.Stack)
				exOK = isStack && st.IsInit() && st.Len() == 0
			}
			if cd.Keyword() != "kw" || !exOK || cd.Operator() != stackage.Le {
				bad("content-changed", "%s changed keyword / operator / expression", ops[i].name)
			}
			if want, got := "kw <= "+refEncap(in.enc, exprText), cd.String(); got != want {
				bad("String", "String()=%q want %q (encapsulation %q)", got, want, in.enc)
			}
			c.Nontrivial(name + ops[i].name + stackage.VerifDump(cd).Key(false))
			c.Outcome(cd.String() + cd.ID())
			return out
		},
		NoopProbeDepth: 2,
		Observe:        func(in *csetInst) { observeAll(in.c) },
		Key: func(in *csetInst) string {
			return strings.ReplaceAll(stackage.VerifDump(in.c).Key(false), in.c.Addr(), "<addr>") + fmt.Sprint(in.auxOK)
		},
	}
}

// ---- log levels --------------------------------------------------------------------------------

type lvlInst struct {
	x    any
	mask uint16
}

var lvlArgs = []struct {
	n string
	v any
	m uint16
}{
	{"LogLevel1", stackage.LogLevel1, 1}, {"LogLevel3", stackage.LogLevel3, 4}, {`"trace"`, "trace", 32}, {`"TRACE"`, "TRACE", 32},
	{"44", 44, 44}, {"NoLogLevels", stackage.NoLogLevels, 0}, {`"none"`, "none", 0}, {"0", 0, 0},
	{"AllLogLevels", stackage.AllLogLevels, 65535}, {`"all"`, "all", 65535}, {"65535", 65535, 65535},
	{"UserLogLevel10", stackage.UserLogLevel10, 32768}, {`"user2"`, "user2", 128}, {"LogLevel(6)", stackage.LogLevel(6), 6},
}

// c18Defaults: the package-level default log levels take the same names, constants and raw integers as the
// per-instance setters (as a literal value: what is given is what is in force), report them through their
// getters. Sequential: the defaults are package state.
func c18Defaults(c *Ctx) int {
	type arg struct {
		n string
		v any
		m uint16
	}
	var args []arg
	for _, a := range lvlArgs {
		args = append(args, arg{a.n, a.v, a.m})
	}
	args = append(args, arg{"1", 1, 1}, arg{"32768", 32768, 32768}, arg{"65534", 65534, 65534}, arg{"65536 (out of range: none)", 65536, 0}, arg{"-1 (out of range: none)", -1, 0},
		arg{`"bogus" (no such level: none)`, "bogus", 0}, arg{"nil (none)", nil, 0}, arg{"LogLevel(65535)", stackage.LogLevel(65535), 65535})
	defer stackage.SetDefaultStackLogLevel(stackage.NoLogLevels)
	defer stackage.SetDefaultConditionLogLevel(stackage.NoLogLevels)
	n := 0
	for _, prev := range []any{stackage.NoLogLevels, stackage.LogLevel2} {
		for _, a := range args {
			n++
			c.Transitions.Add(1)
			stackage.SetDefaultStackLogLevel(prev)
			stackage.SetDefaultConditionLogLevel(prev)
			stackage.SetDefaultStackLogLevel(a.v)
			stackage.SetDefaultConditionLogLevel(a.v)
			if got := stackage.DefaultStackLogLevel(); got != int(a.m) {
				c.Violation("default-level:Stack", fmt.Sprintf("SetDefaultStackLogLevel(%s) after %v: DefaultStackLogLevel()=%d want %d", a.n, prev, got, a.m), nil, 0)
			}
			if got := stackage.DefaultConditionLogLevel(); got != int(a.m) {
				c.Violation("default-level:Condition", fmt.Sprintf("SetDefaultConditionLogLevel(%s) after %v: DefaultConditionLogLevel()=%d want %d", a.n, prev, got, a.m), nil, 0)
			}
			// (what instances made afterwards start with is not part of the statement: Conditions always start
			// with no level at all, whatever SetDefaultConditionLogLevel was given - DESIGN.md section 6)
		}
	}
	return n
}

var c18Logger = log.New(io.Discard, "c18 ", 0)

var lvlNames = []string{"CALLS", "POLICY", "STATE", "DEBUG", "ERROR", "TRACE", "USER1", "USER2", "USER3", "USER4", "USER5", "USER6", "USER7", "USER8", "USER9", "USER10"}

func refLevels(m uint16) string {
	if m == 0 {
		return "NONE"
	}
	if m == 65535 {
		return "ALL"
	}
	var p []string
	for i := 0; i < 16; i++ {
		if m&(1<<i) != 0 {
			p = append(p, lvlNames[i])
		}
	}
	return strings.Join(p, ",")
}

func c18LvlMachine(c *Ctx, what string, pairs bool) *Machine[*lvlInst] {
	type op struct {
		set    bool
		args   []int
		logger string // non-empty: SetLogger with this designation (the levels must not move)
	}
	var ops []op
	for _, l := range []string{"stderr", "off", "*log.Logger"} {
		ops = append(ops, op{logger: l})
	}
	for _, set := range []bool{true, false} {
		for i := range lvlArgs {
			ops = append(ops, op{set: set, args: []int{i}})
		}
		if pairs {
			for i := range lvlArgs {
				for j := range lvlArgs {
					ops = append(ops, op{set: set, args: []int{i, j}})
				}
			}
		}
		ops = append(ops, op{set: set})
	}
	name := "C18 log levels " + what
	opName := func(o op) string {
		if o.logger != "" {
			return "SetLogger(" + o.logger + ")"
		}
		var p []string
		for _, a := range o.args {
			p = append(p, lvlArgs[a].n)
		}
		if o.set {
			return "SetLogLevel(" + strings.Join(p, ",") + ")"
		}
		return "UnsetLogLevel(" + strings.Join(p, ",") + ")"
	}
	return &Machine[*lvlInst]{
		Name: name,
		New: func() *lvlInst {
			switch what {
			case "Condition":
				return &lvlInst{x: stackage.Cond("k", stackage.Eq, "v")}
			case "Condition made while a STACK default level was in force":
				// the package keeps one default level for Stacks and one for Conditions
				stackage.SetDefaultStackLogLevel(stackage.LogLevel3 | stackage.LogLevel5)
				defer stackage.SetDefaultStackLogLevel(stackage.NoLogLevels)
				var cd stackage.Condition
				cd.Init()
				return &lvlInst{x: cd.SetKeyword("k").SetOperator(stackage.Eq).SetExpression("v")}
			case "AND made while a CONDITION default level was in force":
				stackage.SetDefaultConditionLogLevel(stackage.LogLevel2 | stackage.LogLevel6)
				defer stackage.SetDefaultConditionLogLevel(stackage.NoLogLevels)
				return &lvlInst{x: stackage.And().Push("a")}
			}
			return &lvlInst{x: newStackKind(what).Push("a")}
		},
		Sequential: strings.Contains(what, "default level"),
		NumOps:  len(ops),
		OpName:  func(in *lvlInst, i int) string { return opName(ops[i]) },
		Enabled: func(*lvlInst, int) bool { return true },
		Apply: func(in *lvlInst, i int, check bool) []string {
			o := ops[i]
			var args []reflect.Value
			for _, a := range o.args {
				if lvlArgs[a].v == nil {
					args = append(args, reflect.Zero(reflect.TypeOf((*any)(nil)).Elem()))
				} else {
					args = append(args, reflect.ValueOf(lvlArgs[a].v))
				}
			}
			meth := "UnsetLogLevel"
			if o.set {
				meth = "SetLogLevel"
			}
			if o.logger != "" {
				meth = "SetLogger"
				var l any = o.logger
				if o.logger == "*log.Logger" {
					l = c18Logger
				}
				args = []reflect.Value{reflect.ValueOf(l)}
			}
			reflect.ValueOf(in.x).MethodByName(meth).Call(args)
			// reference bit-set with the 'none' and 'all' shortcuts (log.go documentation)
		loop:
			for _, a := range o.args {
				m := lvlArgs[a].m
				switch {
				case o.set && m == 0:
					in.mask = 0
					break loop
				case o.set && m == 65535:
					in.mask = 65535
					break loop
				case o.set:
					in.mask |= m
				case m == 0:
					// nothing to unset
				case m == 65535:
					in.mask = 0
					break loop
				default:
					in.mask &^= m
				}
			}
			if !check {
				return nil
			}
			var out []string
			d := stackage.VerifDump(in.x)
			if d.LogLvl != in.mask {
				out = append(out, fmt.Sprintf("loglevel-bits:%s\x00%s: level bits %d want %d", meth, opName(o), d.LogLvl, in.mask))
			}
			got := reflect.ValueOf(in.x).MethodByName("LogLevels").Call(nil)[0].String()
			if want := refLevels(in.mask); got != want {
				out = append(out, fmt.Sprintf("LogLevels:%s\x00%s: LogLevels()=%q want %q", meth, opName(o), got, want))
			}
			c.Nontrivial(name + opName(o) + fmt.Sprint(in.mask))
			c.Outcome("lvl" + got)
			return out
		},
		Observe: func(in *lvlInst) { observeAll(in.x) },
		Key: func(in *lvlInst) string {
			d := stackage.VerifDump(in.x)
			return fmt.Sprint(d.LogLvl, d.LogAddr)
		},
	}
}

func init() {
	type mk func(c *Ctx) (*Machine[*optInst], *Machine[*setInst], *Machine[*lvlInst])
	build := func(c *Ctx, tier string) (om []*Machine[*optInst], sm []*Machine[*setInst], lm []*Machine[*lvlInst], errs []string) {
		kinds := []string{"AND", "LIST"}
		if tier == "thorough" {
			kinds = kindNames
		}
		for _, k := range kinds {
			su, e := newOptSetup(k, false)
			if e != "" {
				errs = append(errs, e)
				continue
			}
			om = append(om, c18OptMachine(c, su))
			sm = append(sm, c18SetMachine(c, k, 0))
		}
		su, e := newOptSetup("CONDITION", true)
		if e != "" {
			errs = append(errs, e)
		} else {
			om = append(om, c18OptMachine(c, su))
		}
		if sm2, e2 := newOptSetup("OR", false, true); e2 == "" {
			om = append(om, c18OptMachine(c, sm2))
		}
		if sm3, e3 := newOptSetup("AND", false); e3 == "" {
			sm3.rejected = true
			m3 := c18OptMachine(c, sm3)
			m3.Name += " validity-rejecting"
			om = append(om, m3)
		}
		// an error parked on the instance: options are set, cleared, inverted and reported as ever
		for _, v := range []struct {
			kind   string
			isCond bool
			erred  int
			tag    string
		}{{"AND", false, 1, " error-pending"}, {"CONDITION", true, 1, " error-pending"}, {"CONDITION", true, 2, " born-invalid"}} {
			if se, e := newOptSetup(v.kind, v.isCond); e == "" {
				se.erred, se.rejected = v.erred, true
				m := c18OptMachine(c, se)
				m.Name += v.tag
				om = append(om, m)
			}
		}
		sm = append(sm, c18SetMachine(c, "NOT mutex", 0), c18SetMachine(c, "AND validity-rejecting", 0), c18SetMachine(c, "LIST validity-rejecting", 0), c18SetMachine(c, "AND nested-first", 0), c18SetMachine(c, "NOT nested-first", 0), c18SetMachine(c, "LIST empty-element", 0), c18SetMachine(c, "OR empty-element", 0))
		pre := []int{4, 5, 8}
		if tier == "thorough" {
			pre = []int{3, 4, 5, 7, 8, 9, 15, 16, 17, 33}
		}
		for i, n := range pre {
			sm = append(sm, c18SetMachine(c, fmt.Sprintf("%s encap-prefilled-%d", []string{"LIST", "AND", "OR"}[i%3], n), 0))
		}
		lm = append(lm, c18LvlMachine(c, "AND", true), c18LvlMachine(c, "Condition", tier == "thorough"),
			c18LvlMachine(c, "Condition made while a STACK default level was in force", false), c18LvlMachine(c, "AND made while a CONDITION default level was in force", false))
		return
	}
	register(&Check{ID: "C18", Engine: "A", Run: func(c *Ctx) {
		installLockModel()
		om, sm, lm, errs := build(c, c.Tier)
		for _, e := range errs {
			c.Violation("option-setup", e, nil, 0)
		}
		c.Exhaustive = true
		for _, m := range om {
			st := BFS(c, m)
			c.Exhaustive = c.Exhaustive && st.Complete
			c.Sample(map[string]any{"machine": m.Name, "states": st.States, "transitions": st.Transitions, "ops": m.NumOps})
		}
		for _, m := range sm {
			m.MaxDepth = 3 // every setter sequence of length <= 3 (4 in the thorough tier)
			if !c.Quick() {
				m.MaxDepth = 4
			}
			if strings.Contains(m.Name, "encap-prefilled") {
				m.MaxDepth-- // the prefilled machines: one step less (their start is n calls deep already)
			}
			st := BFS(c, m)
			c.Exhaustive = c.Exhaustive && st.Complete
			c.Sample(map[string]any{"machine": m.Name, "states": st.States, "transitions": st.Transitions, "bfs_depth": st.MaxDepth, "complete": st.Complete})
			c.Bound["settings_depth_"+m.Name] = st.MaxDepth
		}
		for _, m := range lm {
			st := BFS(c, m)
			c.Exhaustive = c.Exhaustive && st.Complete
			c.Sample(map[string]any{"machine": m.Name, "states": st.States, "transitions": st.Transitions})
		}
		c.Bound["package_default_level_settings"] = c18Defaults(c)
		cmAll := []*Machine[*csetInst]{c18CondSetMachine(c), c18CondSetMachine(c, "empty-list")}
		cm := cmAll[0]
		cmAll[1].MaxDepth = 3
		cm.MaxDepth = 3
		if !c.Quick() {
			cm.MaxDepth = 4
		}
		for _, cm := range cmAll {
			stc := BFS(c, cm)
			c.Exhaustive = c.Exhaustive && stc.Complete
			c.Sample(map[string]any{"machine": cm.Name, "states": stc.States, "transitions": stc.Transitions, "bfs_depth": stc.MaxDepth})
		}
		c.Rule = "three BFS families on the real code: (1) option bits - every tri-state method found by reflection x {true,false,toggle} from every reachable option set (complete: 2^8 sets on Stacks); (2) string-valued settings (ID, category, delimiter, symbol incl. a letter symbol, case-fold, encapsulation incl. letters, auxiliary, FIFO) - every setter sequence of length <= 3 (quick) / 4 (thorough) from every kind, with state de-duplication; (3) log levels - fix-point over reachable masks with names, constants and raw ints (pairs of arguments in the thorough tier). non-trivial = distinct (state, operation) pairs"
		c.Assumptions = append(c.Assumptions, "log-level 'none'/'all' shortcuts follow the documentation in log.go (set none = clear and stop, set all = everything and stop, unset none = skip, unset all = clear and stop)", "the settings family covers all setter sequences up to the depth reported in coverage.bound, not a fix-point")
	}, Replay: func(c *Ctx, raw json.RawMessage) {
		var hc histCase
		json.Unmarshal(raw, &hc)
		om, sm, lm, _ := build(c, "thorough")
		for _, m := range om {
			if m.Name == hc.Machine {
				replayHistory(c, m, hc.History, hc.Observed)
			}
		}
		for _, m := range sm {
			if m.Name == hc.Machine {
				replayHistory(c, m, hc.History, hc.Observed)
			}
		}
		for _, m := range lm {
			if m.Name == hc.Machine {
				replayHistory(c, m, hc.History, hc.Observed)
			}
		}
		for _, cm := range []*Machine[*csetInst]{c18CondSetMachine(c), c18CondSetMachine(c, "empty-list")} {
			if cm.Name == hc.Machine {
				replayHistory(c, cm, hc.History, hc.Observed)
			}
		}
	}})
}
