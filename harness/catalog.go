package main

import (
	"errors"
	"fmt"
	"io"
	"log"
	"math"
	"reflect"
	"sort"
	"sync"
	"unsafe"

	stackage "github.com/JesseCoretta/go-stackage"
)

// Method and argument catalogues built by reflection, shared by C08, C09, C11 and C17. The method
// sets are read from the types at run time, so a method added later is exercised automatically;
// parameter types without a catalogue entry get zero values / generated closures and are listed in
// the evidence (coverage.uncatalogued_types).

type namedValue struct {
	N string
	V reflect.Value
}

func nv(n string, v any) namedValue {
	if v == nil {
		return namedValue{n, reflect.Zero(anyType)}
	}
	return namedValue{n, reflect.ValueOf(v)}
}

var (
	anyType   = reflect.TypeOf((*any)(nil)).Elem()
	errType   = reflect.TypeOf((*error)(nil)).Elem()
	opType    = reflect.TypeOf((*stackage.Operator)(nil)).Elem()
	intType   = reflect.TypeOf(0)
	boolType  = reflect.TypeOf(false)
	strType   = reflect.TypeOf("")
	stackType = reflect.TypeOf(stackage.Stack{})
	condType  = reflect.TypeOf(stackage.Condition{})
	auxType   = reflect.TypeOf(stackage.Auxiliary{})
)

var errCat = errors.New("catalogue error")
var catLogger = log.New(io.Discard, "", 0)

var uncatalogued = map[string]bool{}

// typed nil of an interface type
func zeroOf(t reflect.Type) reflect.Value { return reflect.Zero(t) }

// basicValues returns the small per-type argument catalogue.
func basicValues(t reflect.Type) []namedValue {
	switch t {
	case boolType:
		return []namedValue{nv("true", true), nv("false", false)}
	case intType:
		return []namedValue{nv("0", 0), nv("1", 1), nv("-1", -1), nv("7", 7)}
	case strType:
		return []namedValue{nv(`"x"`, "x"), nv(`""`, ""), nv(`"_addr"`, "_addr")}
	case errType:
		return []namedValue{{"err", reflect.ValueOf(&errCat).Elem()}, {"nil-error", reflect.Zero(errType)}}
	case auxType:
		return []namedValue{{"nil-aux", reflect.Zero(auxType)}, nv("aux{k:1}", stackage.Auxiliary{"k": 1})}
	case opType:
		return []namedValue{{"Eq", reflect.ValueOf(stackage.Eq).Convert(reflect.TypeOf(stackage.Eq))}, nv("userOp", userOp{"~=", "ctx"}), {"nil-op", reflect.Zero(opType)}, nv("ComparisonOperator(0)", stackage.ComparisonOperator(0)), nv("sliceOp", sliceOp{"=~", "ctx"}), nv("(*ComparisonOperator)(nil)", (*stackage.ComparisonOperator)(nil))}
	case anyType:
		return []namedValue{nv(`"v"`, "v"), nv("7", 7), {"nil", reflect.Zero(anyType)}, nv("Stack", stackage.Or().Push("n")), nv("Condition", stackage.Cond("ck", stackage.Eq, "cv")),
			// Stacks that turn elements away themselves (as Transfer destinations, comparands, expressions)
			nv("no-nesting Stack", stackage.Or().SetNoNesting(true)), nv("capped full Stack", stackage.List(1).Push("full")), nv("Stack with rejecting push policy", stackage.And().SetPushPolicy(func(...any) error { return errCat })),
			nv("[]string{q}", []string{"q"}), nv("'r'", 'r'), nv("*log.Logger", catLogger), nv("LogLevel3", stackage.LogLevel3), nv(`"stdout-no"`, "off")}
	}
	if t.Kind() == reflect.Func {
		fn := reflect.MakeFunc(t, func(args []reflect.Value) []reflect.Value {
			out := make([]reflect.Value, t.NumOut())
			for i := range out {
				out[i] = reflect.Zero(t.Out(i))
				if t.Out(i).Kind() == reflect.String {
					out[i] = reflect.ValueOf("CLOSURE").Convert(t.Out(i))
				}
			}
			return out
		})
		return []namedValue{{"fn", fn}, {"nil-fn", reflect.Zero(t)}}
	}
	uncatalogued[t.String()] = true
	return []namedValue{{"zero(" + t.String() + ")", reflect.Zero(t)}}
}

type (
	namedStr   string
	namedBool  bool
	namedInt   int
	namedFloat float64
	namedBytes []byte
)

// struct shapes that differ only in what they embed or in the visibility of one field
type EmbPub struct{ V int }
type embPriv struct{ V int }
type holdsPub struct {
	EmbPub
	N int
}
type holdsPriv struct {
	embPriv
	N int
}
type holdsBlank struct {
	_ int
	N int
}
type holdsPtrEmb struct {
	*EmbPub
	N int
}

type privateStruct struct {
	A int
	b *int
}

// awkwardAny is the catalogue of awkward Go values used wherever a method takes `any` (C08, C17).
func awkwardAny() []namedValue {
	var nilStr *string
	var np *int
	n := 5
	pn := &n
	freedS := stackage.And().Push("x")
	freedS.Free()
	freedC := stackage.Cond("k", stackage.Eq, "v")
	freedC.Free()
	out := []namedValue{
		{"nil", reflect.Zero(anyType)},
		// values that some `any` parameter gives a meaning to (logger designations)
		nv(`"stderr"`, "stderr"), nv(`"STDOUT"`, "STDOUT"), nv("int 2", 2), nv("int -1", -1), nv("int 3", 3), nv("MinInt", math.MinInt), nv("MaxInt", math.MaxInt), nv("*log.Logger", log.New(io.Discard, "", 0)), nv("live *log.Logger", c11EnvLogger), nv("(*log.Logger)(nil)", (*log.Logger)(nil)),
		nv("(*int)(nil)", np), nv("(**string)(nil)", (**string)(nil)), nv("&(*string)(nil)", &nilStr), nv("**int", &pn),
		nv("(*Stack)(nil)", (*stackage.Stack)(nil)), nv("(*Condition)(nil)", (*stackage.Condition)(nil)), nv("(*StackAlias)(nil)", (*StackAlias)(nil)), nv("(*CondAlias)(nil)", (*CondAlias)(nil)),
		nv("Stack{}", stackage.Stack{}), nv("Condition{}", stackage.Condition{}), nv("StackAlias{}", StackAlias{}), nv("CondAlias{}", CondAlias{}), nv("&Stack{}", &stackage.Stack{}),
		nv("freed Stack", freedS), nv("freed Condition", freedC),
		nv("func(){}", func() {}), nv("(func())(nil)", (func())(nil)), nv("chan int", make(chan int)), nv("(chan int)(nil)", (chan int)(nil)),
		nv("map(nil)", map[string]int(nil)), nv("map{a:1}", map[string]int{"a": 1}), nv("map{NaN:1}", map[float64]int{math.NaN(): 1}), nv("map{1:NaN}", map[int]float64{1: math.NaN()}), nv("[]float{NaN}", []float64{math.NaN()}), nv("NaN", math.NaN()), nv("+Inf", math.Inf(1)), nv("-Inf", math.Inf(-1)),
		nv("struct with unexported fields", privateStruct{1, pn}), nv("&struct with unexported fields", &privateStruct{2, nil}), nv("struct{}", struct{}{}),
		nv("[]any{}", []any{}), nv("[]any{nil}", []any{nil}), nv("[]int(nil)", []int(nil)), nv("[0]int{}", [0]int{}), nv("reflect.Value{}", reflect.Value{}),
		nv("error", errCat), nv("(*ptrOp)(nil)", (*ptrOp)(nil)), nv("uintptr(0)", uintptr(0)), nv("unsafe.Pointer(nil)", unsafe.Pointer(nil)), nv("complex", complex(1, 2)),
		nv("int8(-1)", int8(-1)), nv("uint64 max", uint64(math.MaxUint64)), nv(`"\x00"`, "\x00"), nv(`""`, ""), nv("Auxiliary(nil)", stackage.Auxiliary(nil)),
		nv("no-nesting Stack", stackage.Or().SetNoNesting(true)), nv("capped full Stack", stackage.List(1).Push("full")), nv("Stack with rejecting push policy", stackage.And().SetPushPolicy(func(...any) error { return errCat })),
		nv("Stack", stackage.And().Push("in", nil)), nv("Condition", stackage.Cond("k", stackage.Lt, 3)), nv("StackAlias", StackAlias(stackage.List().Push("al"))), nv("*CondAlias", func() any { c := CondAlias(stackage.Cond("a", stackage.Eq, "b")); return &c }()),
		nv(`Cond("",Ne,"v")`, stackage.Cond("", stackage.Ne, "v")), nv("Init+SetOperator", func() any { var c stackage.Condition; c.Init(); c.SetOperator(stackage.Ge); return c }()),
		nv("Init+SetExpression", func() any { var c stackage.Condition; c.Init(); c.SetExpression("only-ex"); return c }()), nv("Init+SetKeyword", func() any { var c stackage.Condition; c.Init(); c.SetKeyword("only-kw"); return c }()),
		nv("&freed Stack", &freedS), nv("&freed Condition", &freedC), nv("&StackAlias{}", &StackAlias{}), nv("&Condition{}", &stackage.Condition{}),
		nv("namedStr", namedStr("role")), nv("namedBool", namedBool(true)), nv("namedInt", namedInt(5)), nv("namedFloat", namedFloat(2.5)), nv("namedBytes", namedBytes("b")),
		// comparable by type, not by value: an interface-typed field / entry that holds a slice, map or func
		nv("struct{any:[]string}", struct {
			Name string
			Tags any
		}{"n", []string{"t"}}), nv("[1]any{map}", [1]any{map[string]int{"a": 1}}), nv("struct{any:func}", struct{ F any }{func() {}}), nv("*struct{any:[]int}", &struct{ V any }{[]int{1}}),
		nv("[2]any{nil,[]any}", [2]any{nil, []any{1}}), nv("struct{error:ptr}", struct{ E error }{&ptrErr{"e"}}), nv("[]any{[]any{map}}", []any{[]any{map[string]any{"k": []int{1}}}}),
		nv("[]*int{nil}", []*int{nil}), nv("[]func(){f}", []func(){func() {}}), nv("[2]*string{nil,nil}", [2]*string{}), nv("[]any{1,nil}", []any{1, nil}),
		nv("struct embedding exported", holdsPub{EmbPub{1}, 2}), nv("struct embedding unexported", holdsPriv{embPriv{1}, 2}), nv("struct with blank field", holdsBlank{N: 2}), nv("struct embedding nil pointer", holdsPtrEmb{nil, 2}),
		// byte arrays held by value (digests, UUIDs) and inside other values; runes that are no characters
		nv("[4]byte", [4]byte{1, 2, 3, 4}), nv("[16]byte{}", [16]byte{}), nv("struct{[4]byte}", struct{ ID [4]byte }{[4]byte{9, 9, 9, 9}}), nv("map[string][2]byte", map[string][2]byte{"k": {1, 2}}), nv("*[4]byte", &[4]byte{1, 2, 3, 4}),
		nv("rune: lone high surrogate", rune(0xD83D)), nv("rune: lone low surrogate", rune(0xDFFF)), nv("rune -1", rune(-1)), nv("rune beyond Unicode", rune(0x110000)), nv("rune 0", rune(0)),
		nv("9 pointer levels above a Stack", deepPointer(stackage.And().Push("deep"), 9)), nv("12 pointer levels above an int", deepPointer(7, 12)), nv("9 pointer levels above a Condition alias", deepPointer(CondAlias(stackage.Cond("k", stackage.Eq, "v")), 9)),
		nv("declared pointer to a Stack", StackRef(func() *stackage.Stack { s := stackage.Or().Push("r"); return &s }())), nv("declared pointer to a Condition", CondRef(func() *stackage.Condition { c := stackage.Cond("k", stackage.Ne, "r"); return &c }())), nv("nil declared pointer", StackRef(nil)),
		nv("Stringer", strer{"str"}), nv("zero Stringer", strer{}), nv("[]string{}", []string{}), nv("LogLevel(0)", stackage.LogLevel(0)),
	}
	return out
}

type methodEntry struct {
	Recv string // "Stack", "Condition", "Auxiliary"
	Name string
	Type reflect.Type // without receiver
}

// methodsOf lists the exported methods in the method set of *T (value and pointer receivers).
func methodsOf(sample any, recvName string) []methodEntry {
	pv := reflect.New(reflect.TypeOf(sample)) // *T
	pt := pv.Type()
	var out []methodEntry
	for i := 0; i < pt.NumMethod(); i++ {
		m := pt.Method(i)
		out = append(out, methodEntry{recvName, m.Name, pv.Method(i).Type()})
	}
	sort.Slice(out, func(i, j int) bool { return out[i].Name < out[j].Name })
	return out
}

type argTuple struct {
	Desc string
	Args []reflect.Value
}

// argTuples enumerates argument tuples for a method type: the full product of the per-parameter
// catalogues for up to maxProduct tuples, otherwise one-parameter-at-a-time variation around the
// first value. pick lets a caller substitute the catalogue for a parameter type.
func argTuples(mt reflect.Type, pick func(t reflect.Type, pos int) []namedValue, maxProduct int) []argTuple {
	n := mt.NumIn()
	if n == 0 {
		return []argTuple{{"", nil}}
	}
	lists := make([][][]namedValue, n) // per parameter: list of value groups (a group = 0..k values for variadic)
	for i := 0; i < n; i++ {
		t := mt.In(i)
		if mt.IsVariadic() && i == n-1 {
			et := t.Elem()
			vals := pick(et, i)
			groups := [][]namedValue{{}}
			for _, v := range vals {
				groups = append(groups, []namedValue{v})
			}
			if len(vals) >= 2 && len(vals) <= 6 {
				for _, a := range vals { // every ordered pair (index paths, option pairs ...)
					for _, b := range vals {
						groups = append(groups, []namedValue{a, b})
					}
				}
			} else if len(vals) >= 2 {
				groups = append(groups, []namedValue{vals[0], vals[1]})
			}
			lists[i] = groups
		} else {
			for _, v := range pick(t, i) {
				lists[i] = append(lists[i], []namedValue{v})
			}
		}
	}
	total := 1
	for _, l := range lists {
		total *= len(l)
	}
	var out []argTuple
	emit := func(idx []int) {
		var t argTuple
		for i, l := range lists {
			g := l[idx[i]]
			if i > 0 {
				t.Desc += ", "
			}
			if len(g) == 0 {
				t.Desc += "<none>"
			}
			for k, v := range g {
				if k > 0 {
					t.Desc += ", "
				}
				t.Desc += v.N
				t.Args = append(t.Args, v.V)
			}
		}
		out = append(out, t)
	}
	if total <= maxProduct {
		idx := make([]int, n)
		for {
			emit(idx)
			k := n - 1
			for k >= 0 {
				idx[k]++
				if idx[k] < len(lists[k]) {
					break
				}
				idx[k] = 0
				k--
			}
			if k < 0 {
				break
			}
		}
		return out
	}
	base := make([]int, n)
	emit(base)
	for i := range lists {
		for j := 1; j < len(lists[i]); j++ {
			idx := append([]int{}, base...)
			idx[i] = j
			emit(idx)
		}
	}
	return out
}

// callMethod invokes recvPtr.<name>(args...) and reports a panic as text.
func callMethod(recvPtr reflect.Value, name string, args []reflect.Value) (res []reflect.Value, panicked string) {
	panicked = noPanic(func() {
		res = recvPtr.MethodByName(name).Call(args)
	})
	return
}

func describeResults(res []reflect.Value) string {
	s := ""
	for i, r := range res {
		if i > 0 {
			s += ", "
		}
		s += describeValue(r)
	}
	return s
}

func describeValue(r reflect.Value) string {
	if !r.IsValid() {
		return "<invalid>"
	}
	switch r.Kind() {
	case reflect.Interface, reflect.Ptr, reflect.Map, reflect.Slice, reflect.Func, reflect.Chan:
		if r.IsNil() {
			return "nil"
		}
	}
	if r.Type() == stackType {
		if r.Interface().(stackage.Stack).IsZero() {
			return "Stack{}"
		}
		return "Stack"
	}
	if r.Type() == condType {
		if r.Interface().(stackage.Condition).IsZero() {
			return "Condition{}"
		}
		return "Condition"
	}
	if r.Kind() == reflect.Func {
		return "func"
	}
	if r.Kind() == reflect.Ptr {
		return "ptr"
	}
	return fmt.Sprintf("%v", r.Interface())
}

// extraTuples adds hand-picked argument tuples for methods whose interesting inputs are structured
// (label-led Marshal input, multi-index paths); they complement the generic per-type catalogue.
func extraTuples(method string) []argTuple {
	mk := func(desc string, vals ...any) argTuple {
		t := argTuple{Desc: desc}
		for _, v := range vals {
			if v == nil {
				t.Args = append(t.Args, reflect.Zero(anyType))
			} else {
				t.Args = append(t.Args, reflect.ValueOf(v))
			}
		}
		return t
	}
	switch method {
	case "Marshal":
		return []argTuple{mk(`"AND","m"`, "AND", "m"), mk(`"or","m"`, "or", "m"), mk(`"NOT","m"`, "NOT", "m"), mk(`"LIST","m","n"`, "LIST", "m", "n"), mk(`"BASIC",1`, "BASIC", 1),
			mk(`"CONDITION","k",Eq,"v"`, "CONDITION", "k", stackage.Eq, "v"), mk(`["AND","x"]`, []any{"AND", "x"}), mk(`["OR",["AND","y"]]`, []any{"OR", []any{"AND", "y"}}), mk(`"junk","m"`, "junk", "m"),
			// labels in lower and mixed case at every level (what Unmarshal hands out for case-folded stacks)
			mk(`"list",["and","x"],["Not","z"]`, "list", []any{"and", "x"}, []any{"Not", "z"}), mk(`["or",["and","y"],["condition","k",Eq,["list","e"]]]`, []any{"or", []any{"and", "y"}, []any{"condition", "k", stackage.Eq, []any{"list", "e"}}}),
			mk("Unmarshal() of a case-folded tree", func() []any {
				u, _ := stackage.And().SetFold(true).Push("x", stackage.Or().SetFold(true).Push("y", stackage.Not().SetFold(true).Push("z")), stackage.Cond("k", stackage.Eq, stackage.List().SetFold(true).Push("e"))).Unmarshal()
				return u
			}()...)}
	case "Traverse":
		return []argTuple{mk("1, 1", 1, 1), mk("0, 0", 0, 0), mk("1, 0, 0", 1, 0, 0), mk("2, -1", 2, -1), mk("3, 1", 3, 1), mk("4, 0", 4, 0), mk("5, 1", 5, 1), mk("6, 0", 6, 0),
			// long paths (deep structures)
			mk("0, 0, 0, 0", 0, 0, 0, 0), mk("0, 0, 0, 1", 0, 0, 0, 1), mk("0, 0, 0, 0, 0", 0, 0, 0, 0, 0), mk("0, 0, 0, 0, 1", 0, 0, 0, 0, 1), mk("1, 0, 0, 0, 0", 1, 0, 0, 0, 0),
			mk("0 x7", 0, 0, 0, 0, 0, 0, 0), mk("0 x6, 1", 0, 0, 0, 0, 0, 0, 1), mk("0 x17", 0, 0, 0, 0, 0, 0, 0, 0, 0, 0, 0, 0, 0, 0, 0, 0, 0), mk("0 x16, 1", 0, 0, 0, 0, 0, 0, 0, 0, 0, 0, 0, 0, 0, 0, 0, 0, 1)}
	}
	return nil
}

// observeAll issues every argument-free query (methods by reflection, classified as in C11) plus a few
// argument-taking ones on a Stack or Condition and discards the answers. Engine A's "observed
// histories" use it: see Machine.Observe.
var observeCache sync.Map // reflect.Type -> []int (method indices)

func observeAll(x any) {
	if x == nil {
		return
	}
	t := reflect.TypeOf(x)
	pv := reflect.New(t)
	pv.Elem().Set(reflect.ValueOf(x))
	var idx []int
	if v, ok := observeCache.Load(t); ok {
		idx = v.([]int)
	} else {
		pt := pv.Type()
		for i := 0; i < pt.NumMethod(); i++ {
			mt := pv.Method(i).Type()
			if mt.NumIn() == 0 && mt.NumOut() > 0 && c11IsQuery(pt.Method(i).Name) {
				idx = append(idx, i)
			}
		}
		observeCache.Store(t, idx)
	}
	for _, i := range idx {
		pv.Method(i).Call(nil)
	}
	switch v := x.(type) {
	case stackage.Stack:
		v.Index(0)
		v.Index(-1)
		v.Traverse(0)
		v.Less(0, 1)
		v.IsEqual(v)
	case stackage.Condition:
		v.IsEqual(v)
	}
}
