package main

import (
	"fmt"
	"runtime/debug"
)

// Engine A: explicit-state breadth-first search over operation histories.
//
// A state is the shortest known history (operation indices) from a named initial
// configuration. Real objects cannot be cloned, so a successor is produced by replaying
// the history on a fresh instance and applying one more operation. States are
// de-duplicated by a canonical key of the implementation's raw state.

type Machine[I any] struct {
	Name string
	// New builds a fresh instance (implementation + reference model).
	New func() I
	// NumOps is the alphabet size.
	NumOps int
	// OpName names operation op in the context of instance in (before it is applied).
	OpName func(in I, op int) string
	// Enabled says whether op is part of the alphabet in this state.
	Enabled func(in I, op int) bool
	// Apply performs op on implementation and model. With check=true it compares every
	// observation and returns a non-empty list of discrepancy descriptions on failure
	// (each "key\x00detail").
	Apply func(in I, op int, check bool) []string
	// Key is the canonical implementation state.
	Key func(in I) string
	// NonTrivial optionally classifies the transition (called after Apply with check=true).
	MaxStates int
	// Observe, when set, issues every query of the check's observation vector on the instance without
	// comparing anything. Every transition is then executed a second time on a history in which the
	// queries were issued at the start and after every earlier step ("observed history"): a query
	// that leaves something behind (a memo, a lazily installed default) changes what a later call
	// does, and the raw-state key cannot see such a residue. The quick tier does this for histories of
	// up to three operations, the thorough tier up to five.
	Observe func(in I)
	// ObserveDepth: observed histories are tried for histories up to this length in the quick tier
	// (default 2; the thorough tier goes to 4)
	ObserveDepth int
	// Sequential: run one transition at a time. Needed where the oracle watches state that lives
	// outside the instance (a bystander instance, package-level state): with transitions running side
	// by side, a leak between instances would be blamed on the wrong history, or be undone by a
	// neighbour before it is seen.
	Sequential bool
	// NoopProbeDepth: the state key only shows what the dump knows about. An operation that is refused
	// (the key does not move) may still leave something behind that the dump cannot see - a field added
	// by a later change. From states up to this depth (0 = off; 1 = the initial state only, ...) a
	// successor reached through such a no-op transition is kept as a node of its own, once, so that every
	// operation is also tried right after every refused one.
	NoopProbeDepth int
	// MaxDepth, when positive, bounds the history length: states at that depth are checked but not
	// expanded, and the search then counts as complete for "all histories up to MaxDepth".
	MaxDepth int
}

type bfsStats struct {
	States, Transitions int
	NoopNodes           int
	MaxDepth            int
	Complete            bool
}

type histCase struct {
	Machine string   `json:"machine"`
	History []int    `json:"history"`
	Ops     []string `json:"ops"`
	// Observed: the queries were issued at the start and after every step of the history
	Observed bool `json:"observed_history,omitempty"`
	// ObservedAt: the queries were issued once only, after this many steps of the history
	ObservedAt int `json:"queries_issued_only_after_step,omitempty"`
}

func safeApply[I any](m *Machine[I], in I, op int, check bool) (out []string) {
	defer func() {
		if r := recover(); r != nil {
			if dp, dead := r.(deadlockPanic); dead {
				heldMutexes.Delete(dp.mutex) // only this instance's mutex: other workers run concurrently
				out = append(out, fmt.Sprintf("panic:deadlock:%s\x00%s tries to acquire a stack mutex it already holds (self-deadlock)", opClass(m.OpName(in, op)), m.OpName(in, op)))
				return
			}
			out = append(out, fmt.Sprintf("panic:%s\x00panic in %s: %v\n%s", opClass(m.OpName(in, op)), m.OpName(in, op), r, shortStack(debug.Stack())))
		}
	}()
	return m.Apply(in, op, check)
}

// opClass strips arguments: "Insert(t3,1)" -> "Insert".
func opClass(n string) string {
	for i, r := range n {
		if r == '(' {
			return n[:i]
		}
	}
	return n
}

func shortStack(b []byte) string {
	s := string(b)
	if len(s) > 1500 {
		s = s[:1500]
	}
	return s
}

// rebuild replays a history without checking.
func rebuild[I any](m *Machine[I], hist []int) (in I, names []string, ok bool) {
	in = m.New()
	ok = true
	for _, op := range hist {
		names = append(names, m.OpName(in, op))
		if r := safeApply(m, in, op, false); len(r) > 0 {
			ok = false
			return
		}
	}
	return
}

// rebuildObserved replays a history with the queries issued at the start and after every step; with
// only > 0, after that many steps and at no other time.
func rebuildObserved[I any](m *Machine[I], hist []int, only ...int) (in I, ok bool) {
	in = m.New()
	ok = true
	at := 0
	if len(only) > 0 {
		at = only[0]
	}
	obs := func() {
		defer func() {
			if r := recover(); r != nil {
				if dp, dead := r.(deadlockPanic); dead {
					heldMutexes.Delete(dp.mutex)
				}
				ok = false
			}
		}()
		m.Observe(in)
	}
	if at == 0 {
		obs()
	}
	for i, op := range hist {
		if !ok {
			return
		}
		if r := safeApply(m, in, op, false); hasPanic(r) {
			ok = false
			return
		}
		if at == 0 || at == i+1 {
			obs()
		}
	}
	return
}

// BFS explores the machine to a fix-point (or MaxStates / deadline) and reports violations.
func BFS[I any](c *Ctx, m *Machine[I]) bfsStats {
	type node struct {
		hist []int
		key  string
		noop bool     // reached through a transition that led back to a state on its own path (kept although its key was known)
		path []string // keys of the states this history went through (kept for the first NoopProbeDepth levels only)
	}
	st := bfsStats{}
	seen := map[string]struct{}{}
	root := m.New()
	seen[m.Key(root)] = struct{}{}
	frontier := []node{{key: m.Key(root), path: []string{m.Key(root)}}}
	st.States = 1
	depth := 0
	complete := true
	for len(frontier) > 0 {
		type res struct {
			keys  []string
			hists [][]int
			trans int
			from  int
		}
		results := make([]res, len(frontier))
		forEach := parallelFor
		if m.Sequential {
			forEach = func(n int, f func(i int)) {
				for i := 0; i < n; i++ {
					f(i)
				}
			}
		}
		forEach(len(frontier), func(i int) {
			if c.TimeUp() {
				return
			}
			h := frontier[i].hist
			var r res
			r.from = i
			for op := 0; op < m.NumOps; op++ {
				in, names, ok := rebuild(m, h)
				if !ok {
					break // the prefix itself panics; already reported when first explored
				}
				if !m.Enabled(in, op) {
					continue
				}
				name := m.OpName(in, op)
				r.trans++
				bad := safeApply(m, in, op, true)
				if len(bad) > 0 {
					nh := append(append([]int{}, h...), op)
					for _, b := range bad {
						key, detail := splitKD(b)
						c.Violation(key, fmt.Sprintf("[%s] after %v then %s: %s", m.Name, names, name, detail),
							histCase{Machine: m.Name, History: nh, Ops: append(append([]string{}, names...), name)}, len(nh))
					}
					// a state reached through a panicking transition is not expanded (the
					// instance may be poisoned); other violating transitions are, so that a
					// known finding does not hide the states behind it
					if hasPanic(bad) {
						continue
					}
				}
				// the successor's key is taken from an instance on which no query was ever issued: the
				// comparisons above call the library's queries, and if one of them leaves something
				// behind, the contaminated key may merge this state with a different one
				nh := append(append([]int{}, h...), op)
				if inK, _, okK := rebuild(m, nh); okK {
					r.keys = append(r.keys, m.Key(inK))
				} else {
					r.keys = append(r.keys, m.Key(in))
				}
				r.hists = append(r.hists, nh)
				if m.Observe != nil && len(bad) == 0 && (len(h) <= max(2, m.ObserveDepth) || (!c.Quick() && len(h) <= 4)) {
					if in2, ok2 := rebuildObserved(m, h); ok2 && m.Enabled(in2, op) {
						r.trans++
						for _, b := range safeApply(m, in2, op, true) {
							key, detail := splitKD(b)
							nh := append(append([]int{}, h...), op)
							c.Violation(key+":observed-history", fmt.Sprintf("[%s] after %v then %s, with every query issued at the start and after every earlier step: %s", m.Name, names, name, detail),
								histCase{Machine: m.Name, History: nh, Ops: append(append([]string{}, names...), name), Observed: true}, len(nh))
						}
					}
					// ... and with the queries issued once only, after each single step in turn: what a query
					// leaves behind may be undone by the next query, or only matter if no query follows
					for at := 1; at < len(h) && len(h) <= 3; at++ { // (histories of four steps get the every-step variant only)
						if in3, ok3 := rebuildObserved(m, h, at); ok3 && m.Enabled(in3, op) {
							r.trans++
							for _, b := range safeApply(m, in3, op, true) {
								key, detail := splitKD(b)
								nh := append(append([]int{}, h...), op)
								c.Violation(key+":observed-history", fmt.Sprintf("[%s] after %v then %s, with every query issued once, after step %d only: %s", m.Name, names, name, at, detail),
									histCase{Machine: m.Name, History: nh, Ops: append(append([]string{}, names...), name), ObservedAt: at}, len(nh))
							}
						}
					}
				}
			}
			results[i] = r
		})
		var next []node
		for _, r := range results {
			st.Transitions += r.trans
			for j, k := range r.keys {
				parent := frontier[r.from]
				var path []string
				if m.NoopProbeDepth > 0 && depth < m.NoopProbeDepth {
					path = append(append([]string{}, parent.path...), k)
				}
				if _, dup := seen[k]; dup {
					// a transition that changes nothing, or leads back to a state this very history has been in
					// (a call undone by a later one): whatever the dump cannot see may differ, so the node is
					// kept, once, and every operation is tried from it as well
					if m.NoopProbeDepth > 0 && depth < m.NoopProbeDepth && !parent.noop {
						for _, pk := range parent.path {
							if pk == k {
								next = append(next, node{hist: r.hists[j], key: k, noop: true, path: path})
								st.NoopNodes++
								break
							}
						}
					}
					continue
				}
				seen[k] = struct{}{}
				st.States++
				next = append(next, node{hist: r.hists[j], key: k, path: path})
			}
		}
		if c.TimeUp() {
			complete = false
			break
		}
		if (m.MaxStates > 0 && st.States > m.MaxStates) || st.States > 400000 {
			complete = false
			break
		}
		frontier = next
		if len(next) > 0 {
			depth++
		}
		if m.MaxDepth > 0 && depth >= m.MaxDepth {
			break // every history of length <= MaxDepth has been executed
		}
	}
	st.MaxDepth = depth
	st.Complete = complete
	c.States.Add(int64(st.States))
	c.Transitions.Add(int64(st.Transitions))
	c.Traces.Add(int64(st.Transitions))
	c.Evals.Add(int64(st.Transitions))
	return st
}

func splitKD(s string) (string, string) {
	for i := 0; i < len(s); i++ {
		if s[i] == 0 {
			return s[:i], s[i+1:]
		}
	}
	return s, s
}

// replayObservedAt is set by main from the replay file ("queries_issued_only_after_step").
var replayObservedAt int

// replayHistory re-executes one history with full checking (used by --replay).
func replayHistory[I any](c *Ctx, m *Machine[I], hist []int, observed ...bool) {
	in := m.New()
	var names []string
	obs := len(observed) > 0 && observed[0] && m.Observe != nil
	if obs && replayObservedAt == 0 {
		m.Observe(in)
	}
	for i, op := range hist {
		if m.Observe != nil && ((obs && i > 0 && replayObservedAt == 0) || (replayObservedAt > 0 && replayObservedAt == i)) {
			m.Observe(in)
		}
		name := m.OpName(in, op)
		names = append(names, name)
		bad := safeApply(m, in, op, true)
		for _, b := range bad {
			key, detail := splitKD(b)
			c.Violation(key, fmt.Sprintf("[%s] %v: %s", m.Name, names, detail), histCase{Machine: m.Name, History: hist[:i+1], Ops: names}, i+1)
		}
		if len(bad) > 0 {
			return
		}
	}
}

func hasPanic(bad []string) bool {
	for _, b := range bad {
		if len(b) >= 6 && b[:6] == "panic:" {
			return true
		}
	}
	return false
}
