package main

import (
	"encoding/json"
	"fmt"

	stackage "github.com/JesseCoretta/go-stackage"
)

// C03 — a Stack created with capacity k never holds more than k elements (Engine A).
// Same BFS as C01 with a growth-heavy alphabet: Push batches, Insert, Transfer-into and
// Marshal-into, interleaved with Pop / Remove / Reset around the boundary.

func c03Ops(maxL int) []listOp {
	base := c01Ops(maxL)
	var ops []listOp
	keep := map[string]bool{"Push(x)": true, "Push(x,y)": true, "Push(nil)": true, "Push(x,nil,y)": true, "Pop": true, "Reset": true,
		"Insert(x,0)": true, "Insert(x,Len)": true, "Insert(x,1)": true, "Insert(x,Len+1)": true, "Insert(x,-1)": true, "SetFIFO(true)": true}
	for _, o := range base {
		if keep[o.name] || opClass(o.name) == "Remove" {
			ops = append(ops, o)
		}
	}
	always := func(*listInst, int) bool { return true }
	ops = append(ops, listOp{"Push(x,y,z)", 3, always, func(in *listInst) string {
		x, y, z := in.fresh(), in.fresh(), in.fresh()
		in.s.Push(x, y, z)
		in.m.push(x, y, z)
		return ""
	}})
	// batches that mix ordinary values with Stack values (refused under no-nesting, stored otherwise)
	for _, shape := range []string{"S", "xS", "Sx", "xyS", "xSy", "Sxy", "xyzS", "SSx"} {
		shape := shape
		ops = append(ops, listOp{"Push(" + shape + ")", len(shape), always, func(in *listInst) string {
			var vals []any
			for _, ch := range shape {
				if ch == 'S' {
					vals = append(vals, stackage.Or().Push(in.fresh()))
				} else {
					vals = append(vals, in.fresh())
				}
			}
			in.s.Push(vals...)
			in.m.push(vals...)
			return ""
		}})
	}
	for n := 0; n <= 3; n++ {
		n := n
		ops = append(ops, listOp{fmt.Sprintf("src%d.Transfer(this)", n), n, always, func(in *listInst) string {
			src := stackage.Basic()
			var vals []any
			for i := 0; i < n; i++ {
				vals = append(vals, in.fresh())
			}
			src.Push(vals...)
			got := src.Transfer(in.s)
			want := true
			if in.m.capk > 0 && in.m.capk-len(in.m.items) < n {
				want = false
			} else {
				in.m.push(vals...)
			}
			if got != want {
				return fmt.Sprintf("src(len %d).Transfer(dst len %d cap %d) returned %v want %v", n, len(in.m.items), in.m.capk, got, want)
			}
			if src.Len() != n {
				return fmt.Sprintf("source length changed to %d", src.Len())
			}
			return ""
		}})
	}
	// a copy of the handle is released by whoever held it, and somebody else makes a stack of their own: the
	// instance has as many owners as there are handles, and goes on as before
	ops = append(ops, listOp{"copy.Free(); Basic(7).Push(x,y)", 0, always, func(in *listInst) string {
		h := in.s
		if err := h.Free(); err != nil {
			return fmt.Sprintf("Free on a copy of the handle failed: %v", err)
		}
		other := stackage.Basic(7).Push(in.fresh(), in.fresh())
		if other.Len() != 2 || other.Cap() != 7 {
			return fmt.Sprintf("the stack made afterwards has Len %d Cap %d, want 2 / 7", other.Len(), other.Cap())
		}
		return ""
	}})
	for _, lab := range []string{"AND", "condition"} {
		lab := lab
		ops = append(ops, listOp{"this.Marshal(" + lab + " envelope)", 1, always, func(in *listInst) string {
			var env []any
			if lab == "AND" {
				env = []any{"AND", in.fresh()}
			} else {
				env = []any{"CONDITION", "kw", stackage.Eq, in.fresh()}
			}
			hadRoom := !in.m.full() && !(in.m.nonest && lab == "AND") // a decoded Stack is refused under no-nesting like any pushed Stack
			before := in.s.Len()
			s := in.s
			err := s.Marshal(env...)
			if err != nil {
				return fmt.Sprintf("Marshal(%v) failed: %v", env, err)
			}
			if hadRoom {
				if in.s.Len() != before+1 {
					return fmt.Sprintf("Marshal-into grew Len from %d to %d, want +1", before, in.s.Len())
				}
				v, ok := in.s.Index(in.s.Len() - 1)
				if !ok {
					return "Marshal-into appended a nil element"
				}
				switch tv := v.(type) {
				case stackage.Stack:
					if lab != "AND" || tv.Kind() != "AND" || tv.Len() != 1 {
						return fmt.Sprintf("Marshal-into appended %v", v)
					}
				case stackage.Condition:
					if lab != "condition" || tv.Keyword() != "kw" {
						return fmt.Sprintf("Marshal-into appended %v", v)
					}
				default:
					return fmt.Sprintf("Marshal-into appended %T", v)
				}
				in.m.push(v)
			}
			return ""
		}})
	}
	return ops
}

type c03Cfg struct {
	listCfg
	Ctor   string // "", "0", "-1", "0,2", "-1,0,3": constructor argument for the no-capacity family; "marshal", "marshal-nested": made by Marshal
	Policy bool   // an accept-everything push policy is installed (Push then takes the policy path)
	NoNest bool   // the no-nesting option is set; batches then also offer Stack values
}

func c03Machine(c *Ctx, cfg c03Cfg) *Machine[*listInst] {
	ops := c03Ops(cfg.MaxL)
	depth := 0
	if cfg.Prefill > 0 {
		ops, depth = c03Ops(3), 2 // the long regime: see c01Configs
		if !c.Quick() {
			depth = 3
		}
	}
	name := "C03 " + cfg.String() + " ctor=" + cfg.Ctor
	if cfg.Policy {
		name += " push-policy"
	}
	if cfg.NoNest {
		name += " no-nesting"
	}
	return &Machine[*listInst]{
		Name:     name,
		MaxDepth: depth,
		New: func() *listInst {
			if cfg.Ctor == "spread-later" {
				// the capacity is handed over as a spread slice that the caller keeps and uses again:
				// the slice is the caller's, and the third stack made from it has the capacity it says
				caps := []int{cfg.Cap}
				newStackKind("LIST", caps...)
				newStackKind("AND", caps...)
				st := newStackKind(cfg.Kind, caps...)
				if caps[0] != cfg.Cap {
					st = stackage.Stack{} // reported below as a lost instance: the constructor wrote into the caller's slice
				}
				in := &listInst{s: st, m: &listModel{capk: cfg.Cap}}
				if cfg.FIFO {
					in.s.SetFIFO(true)
					in.m.fifo = true
				}
				return in
			}
			if cfg.Ctor == "" {
				in := cfg.build()
				if cfg.Policy {
					in.s.SetPushPolicy(func(...any) error { return nil })
				}
				if cfg.NoNest {
					in.s.SetNoNesting(true)
					in.m.nonest = true
				}
				return in
			}
			arg := 0
			if cfg.Ctor == "-1" {
				arg = -1
			}
			in := &listInst{s: newStackKind(cfg.Kind, arg), m: &listModel{}}
			switch cfg.Ctor {
			case "0,2": // only the first constructor argument speaks (round 14): a later positive one is not a capacity
				in = &listInst{s: newStackKind(cfg.Kind, 0, 2), m: &listModel{}}
			case "-1,0,3":
				in = &listInst{s: newStackKind(cfg.Kind, -1, 0, 3), m: &listModel{}}
			case "marshal": // brought to life by Marshal on a zero value: no capacity was ever asked for
				var z stackage.Stack
				z.Marshal(cfg.Kind, "m0")
				in = &listInst{s: z, m: &listModel{items: []any{"m0"}}}
			case "marshal-nested": // a nested stack rebuilt by the default marshaler
				var z stackage.Stack
				z.Marshal("LIST", []any{cfg.Kind, "m0"}, "tail")
				v, _ := z.Index(0)
				n, _ := v.(stackage.Stack)
				in = &listInst{s: n, m: &listModel{items: []any{"m0"}}}
			}
			if cfg.FIFO {
				in.s.SetFIFO(true)
				in.m.fifo = true
			}
			return in
		},
		NumOps: len(ops),
		OpName: func(in *listInst, op int) string { return ops[op].name },
		Enabled: func(in *listInst, op int) bool {
			if in.s.Len() > cfg.MaxL+6 {
				return false // the implementation ran away from the model; already reported
			}
			if cfg.Cap > 0 {
				return ops[op].enabled(in, cfg.Cap+3)
			}
			// no capacity: bound growth by the length limit
			return len(in.m.items)+ops[op].grow <= cfg.MaxL && ops[op].enabled(in, cfg.MaxL)
		},
		Apply: func(in *listInst, op int, check bool) []string {
			wasFull := in.m.full()
			ret := ops[op].run(in)
			if !check {
				return nil
			}
			var out []string
			cls := opClass(ops[op].name)
			if ret != "" {
				out = append(out, "return:"+cls+"\x00"+ret)
			}
			if cfg.Cap > 0 && in.s.Len() > cfg.Cap {
				out = append(out, "exceeded:"+cls+"\x00"+fmt.Sprintf("Len()=%d exceeds capacity %d", in.s.Len(), cfg.Cap))
			}
			for _, b := range compareList(in.s, in.m) {
				out = append(out, "content:"+cls+":"+obsClass(b)+"\x00"+b)
			}
			if ops[op].grow > 0 && (wasFull || in.m.full()) {
				c.Nontrivial(name + "|" + stackKey(in.s) + "|" + ops[op].name)
			}
			c.Outcome(fmt.Sprintf("%d/%d", len(in.m.items), in.m.capk))
			return out
		},
		NoopProbeDepth: 1,
		Observe:        func(in *listInst) { observeAll(in.s) },
		Key:            func(in *listInst) string { return stackKey(in.s) },
	}
}

func c03Configs(c *Ctx) []c03Cfg {
	var out []c03Cfg
	caps := []int{1, 2, 3}
	kinds := []string{"LIST", "AND", "BASIC"}
	if !c.Quick() {
		caps = []int{1, 2, 3, 4, 5}
		kinds = kindNames
	}
	for _, k := range kinds {
		for _, fifo := range []bool{false, true} {
			for _, cp := range caps {
				out = append(out, c03Cfg{listCfg{k, fifo, cp, false, false, cp, false, false, false, 0, "", false, false, 0}, "", false, false})
				if k == "LIST" || k == "AND" || !c.Quick() {
					out = append(out, c03Cfg{listCfg{k, fifo, cp, false, false, cp, false, false, false, 0, "", false, false, 0}, "", true, false})
					out = append(out, c03Cfg{listCfg{k, fifo, cp, false, false, cp, true, false, true, 0, "", false, false, 0}, "", false, false})
					out = append(out, c03Cfg{listCfg{k, fifo, cp, false, false, cp, false, false, false, 0, "", false, false, 0}, "", false, true})
				}
			}
			for _, cp := range caps[:2] {
				out = append(out, c03Cfg{listCfg{Kind: k, FIFO: fifo, Cap: cp, MaxL: cp}, "spread-later", false, false})
			}
			if k == "LIST" || k == "AND" {
				// the index options are about addressing, not about room: a position given from the far end, or
				// beyond it, removes one element at most
				for _, cp := range caps {
					out = append(out, c03Cfg{listCfg{Kind: k, FIFO: fifo, Cap: cp, Neg: true, Fwd: true, MaxL: cp}, "", false, false})
				}
			}
			if k == "LIST" {
				// capacities around and beyond any preallocation constant, almost full at the start
				for _, lc := range [][2]int{{9, 7}, {33, 31}, {1023, 1021}, {1024, 1022}, {1025, 1022}, {2000, 1998}} {
					if c.Quick() && (lc[0] == 2000 || lc[0] == 1023 || lc[0] == 1025) {
						continue
					}
					out = append(out, c03Cfg{listCfg{Kind: k, FIFO: fifo, Cap: lc[0], MaxL: lc[0], Prefill: lc[1], Mtx: fifo}, "", false, false})
				}
			}
			for _, ctor := range []string{"", "0", "-1", "0,2", "-1,0,3", "marshal", "marshal-nested"} {
				out = append(out, c03Cfg{listCfg{k, fifo, 0, false, false, 3, false, false, false, 0, "", false, false, 0}, ctor, false, false})
			}
		}
	}
	return out
}

func init() {
	register(&Check{ID: "C03", Engine: "A", Run: runC03, Replay: func(c *Ctx, raw json.RawMessage) {
		var hc histCase
		json.Unmarshal(raw, &hc)
		for _, cfg := range append(c03Configs(&Ctx{Tier: "quick"}), c03Configs(&Ctx{Tier: "thorough"})...) {
			m := c03Machine(c, cfg)
			if m.Name == hc.Machine {
				replayHistory(c, m, hc.History, hc.Observed)
				return
			}
		}
		fmt.Println("replay: unknown machine", hc.Machine)
	}})
}

// c03LongBatches: the long regime. One growth call (a Push batch, a Transfer-into) whose size is anything from
// two short of to three beyond the room left, on stacks of capacity 4..130 holding anything from nothing to
// k elements: whatever path a long batch takes, the stack never holds more than k, and keeps the earliest.
func c03LongBatches(c *Ctx) int {
	caps := []int{4, 8, 9, 16, 31, 32, 33, 40, 64, 65}
	if !c.Quick() {
		caps = []int{4, 5, 7, 8, 9, 15, 16, 17, 30, 31, 32, 33, 34, 35, 40, 63, 64, 65, 66, 100, 127, 128, 129, 130}
	}
	type job struct{ k, p, n, variant int }
	var jobs []job
	for _, k := range caps {
		for p := 0; p <= k; p++ {
			if c.Quick() && p > 3 && p < k-3 && p%5 != 0 {
				continue
			}
			seen := map[int]bool{}
			for _, n := range []int{k - p - 2, k - p - 1, k - p, k - p + 1, k - p + 2, k - p + 3, 31, 32, 33, k, k + 1} {
				if n < 1 || seen[n] {
					continue
				}
				seen[n] = true
				for variant := 0; variant < 8; variant++ {
					jobs = append(jobs, job{k, p, n, variant})
				}
			}
		}
	}
	parallelFor(len(jobs), func(i int) {
		j := jobs[i]
		fifo, pol, viaTransfer := j.variant&1 != 0, j.variant&2 != 0, j.variant&4 != 0
		kind := kindNames[(j.k+j.p+j.variant)%5]
		s := newStackKind(kind, j.k)
		m := &listModel{capk: j.k, fifo: fifo}
		if fifo {
			s.SetFIFO(true)
		}
		if pol {
			s.SetPushPolicy(func(...any) error { return nil })
		}
		for q := 0; q < j.p; q++ {
			v := fmt.Sprintf("p%d", q)
			s.Push(v)
			m.push(v)
		}
		vals := make([]any, j.n)
		for q := range vals {
			vals[q] = fmt.Sprintf("b%d", q)
		}
		desc := fmt.Sprintf("%s capacity %d holding %d (fifo=%v push-policy=%v): ", kind, j.k, j.p, fifo, pol)
		c.Transitions.Add(1)
		var p string
		if viaTransfer {
			src := stackage.List().Push(vals...)
			desc += fmt.Sprintf("Transfer of %d values into it", j.n)
			var ok bool
			p = noPanic(func() { ok = src.Transfer(s) })
			if want := j.p+j.n <= j.k; p == "" && ok != want {
				c.Violation("long-batch:transfer-verdict", fmt.Sprintf("%s returned %v want %v", desc, ok, want), nil, j.k)
			}
			if j.p+j.n <= j.k {
				m.push(vals...)
			}
		} else {
			desc += fmt.Sprintf("one Push of %d values", j.n)
			p = noPanic(func() { s.Push(vals...) })
			m.push(vals...)
		}
		if p != "" {
			c.Violation("long-batch:panic", desc+" panicked: "+p, nil, j.k)
			return
		}
		if bad := compareList(s, m); len(bad) > 0 {
			c.Violation("long-batch:"+obsClass(bad[0]), desc+": "+bad[0], nil, j.k)
		}
		if j.p+j.n >= j.k {
			c.Nontrivial(fmt.Sprint("long", j.k, j.p, j.n))
		}
		c.Outcome(fmt.Sprintf("long/%d", min(j.p+j.n, j.k)-j.k))
	})
	return len(jobs)
}

func runC03(c *Ctx) {
	installLockModel()
	cfgs := c03Configs(c)
	c.Rule = "BFS to fix-point over every state with Len<=k (and Len<=3 for the no-capacity family) x growth/shrink alphabet (Push batches 1-3, Insert, Transfer-into from sources of length 0-3, Marshal-into, Pop, Remove, Reset); non-trivial = distinct (configuration, state, growth operation) where the stack was full before or after the operation"
	c.Exhaustive = true
	for _, cfg := range cfgs {
		st := BFS(c, c03Machine(c, cfg))
		if !st.Complete {
			c.Exhaustive = false
		}
		c.Sample(map[string]any{"config": cfg.String() + " ctor=" + cfg.Ctor, "states": st.States, "transitions": st.Transitions, "bfs_depth": st.MaxDepth})
	}
	nl := c03LongBatches(c)
	c.States.Add(int64(nl))
	c.Traces.Add(int64(nl))
	c.Evals.Add(int64(nl))
	c.Bound["long_batches"] = nl
	c.Rule += "; (long batches) capacities 4..130 x every fill level x one Push batch / one Transfer-into of a size from two short of to three beyond the room left (and 31..33, k, k+1) x fifo x push policy, against the list model"
	c.Bound["configurations"] = len(cfgs)
	c.Bound["capacities"] = "1..3 quick, 1..5 thorough, plus no capacity / constructor argument 0 / -1"
	c.Assumptions = append(c.Assumptions, "Transfer is modelled all-or-nothing on free slots (the C15 wording); Marshal-into appends exactly one decoded element while room remains")
}
