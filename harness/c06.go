package main

import (
	"encoding/json"
	"errors"
	"fmt"
	"math"
	"reflect"
	"strings"

	stackage "github.com/JesseCoretta/go-stackage"
)

// C06 — a Condition holds exactly what it accepted, and validity gates its rendering (Engine A).

type condInst struct {
	pending []string           // discrepancies noticed while an operation ran (reported by Apply)
	by      stackage.Condition // a bystander that is never passed to any call
	byWant  string
	hasBy   bool
	c       stackage.Condition
	live    bool // constructed (Cond or Init)
	kw      string
	op      stackage.Operator
	ex      any
	nnest   bool
	nspad   bool
	paren   bool
	enc     [][]string
	err     error // nil, or a specific error; ctorErr marks "some error recorded by Cond"
	ctorEr  bool
}

var errUser = errors.New("user error")
var errSilent = errors.New("")

type namedVal struct {
	n string
	v any
}

func c06Keywords() []namedVal {
	return []namedVal{{`"k"`, "k"}, {`"j%d"`, "j%d"}, {`""`, ""}, {"Stringer(S)", strer{"S"}}, {"42", 42}, {"nil", nil}, {"enumKw(0)", enumKw(0)}, {"enumKw(1)", enumKw(1)}}
}

func c06Operators() []namedVal {
	all := c06AllOperators()
	if !c06QuickAlphabet {
		return all
	}
	var few []namedVal // (the quick tier keeps one operator per class)
	for _, o := range all {
		switch o.n {
		case "funcOp(nil)", "user(,ctx)", "enumOp(0)", "(*ComparisonOperator)(nil)":
			continue
		}
		few = append(few, o)
	}
	return few
}

func c06AllOperators() []namedVal {
	return []namedVal{{"Eq", stackage.Eq}, {"Ge", stackage.Ge}, {"ComparisonOperator(0)", stackage.ComparisonOperator(0)}, {"ComparisonOperator(9)", stackage.ComparisonOperator(9)},
		{"nil", nil}, {"user(~=,ctx)", userOp{"~=", "ctx"}}, {"sliceOp(=~,ctx)", sliceOp{"=~", "ctx"}}, {"(*ComparisonOperator)(nil)", (*stackage.ComparisonOperator)(nil)}, {"user(,ctx)", userOp{"", "ctx"}}, {"user(~=,)", userOp{"~=", ""}},
		{"mapOp(nil)", mapOp(nil)}, {"funcOp(nil)", funcOp(nil)}, {"zeroOp{}", zeroOp{}},
		{"enumOp(0)", enumOp(0)}, {"enumOp(7)", enumOp(7)}, {"cmpCtxOp(~=)", cmpCtxOp("~=")}}
}

// expression constructors (fresh instance per use where identity matters)
func c06Expressions() []struct {
	n  string
	mk func() any
} {
	return []struct {
		n  string
		mk func() any
	}{
		{`"v"`, func() any { return "v" }}, {`""`, func() any { return "" }}, {"nil", func() any { return nil }}, {"7", func() any { return 7 }},
		{"Stringer(E)", func() any { return strer{"E"} }}, {"Or(a)", func() any { return stackage.Or().Push("a") }},
		{"aliasS(And(a,b))", func() any { return StackAliasS(stackage.And().Push("a", "b")) }},
		{"Cond(x=y)", func() any { return stackage.Cond("x", stackage.Eq, "y") }}, {"true", func() any { return true }},
		{"CondAlias(x>y)", func() any { return CondAlias(stackage.Cond("x", stackage.Gt, "y")) }},
		{"&CondAliasS(x<y)", func() any { a := CondAliasS(stackage.Cond("x", stackage.Lt, "y")); return &a }},
		// a NOT stack as expression: rendered as the stack renders itself (the word NOT belongs to a parent STACK)
		// an empty Stack is a Stack (not "no expression"); a complex64 whose parts are no binary fractions
		{"List()", func() any { return stackage.List() }}, {"complex64(0.1+0.2i)", func() any { return complex64(complex(0.1, 0.2)) }},
		{"uint64(max)", func() any { return uint64(math.MaxUint64) }}, {"int64(min)", func() any { return int64(math.MinInt64) }}, {`"100%s"`, func() any { return "100%s" }},
		{"Not(z)", func() any { return stackage.Not().Push("z") }}, {"Not()paren(x=y)", func() any { return stackage.Not().SetParen(true).Push(stackage.Cond("x", stackage.Eq, "y")) }},
	}
}

func acceptKw(v any, prev string) string {
	switch tv := v.(type) {
	case string:
		return tv
	case fmt.Stringer:
		if reflect.ValueOf(v).IsZero() {
			return prev // a zero value has nothing to say (whatever its String method would print)
		}
		return tv.String()
	}
	return prev
}

// enumKw is a Stringer of integer kind whose zero value prints a non-empty text.
type enumKw int

func (e enumKw) String() string { return [...]string{"unset", "person", "group"}[int(e)%3] }

func acceptOp(v any) (stackage.Operator, bool) {
	if v == nil {
		return nil, false
	}
	op := v.(stackage.Operator)
	if rv := reflect.ValueOf(v); rv.Kind() == reflect.Ptr && rv.IsNil() {
		return nil, false // a typed nil pointer is no operator
	}
	if _, builtin := op.(stackage.ComparisonOperator); builtin {
		return op, true // every ComparisonOperator value has a text (the six symbols or "<invalid_operator>") and a context
	}
	if op.String() == "" || op.Context() == "" {
		return nil, false
	}
	return op, true
}

func (in *condInst) acceptEx(v any) bool {
	if v == nil {
		return false
	}
	if s, ok := v.(string); ok && s == "" {
		return false
	}
	if in.nnest && isStackLike(v) {
		return false
	}
	if in.err != nil || in.ctorEr {
		return false
	}
	return true
}

func (in *condInst) validRef() bool {
	if in.kw == "" || in.op == nil || in.ex == nil {
		return false
	}
	if co, ok := in.op.(stackage.ComparisonOperator); ok && !(co >= 1 && co <= 6) {
		return false
	}
	return true
}

func renderExpr(v any) string {
	if s, ok := refAsStack(v); ok {
		return s.String() // a Stack alias renders as the native Stack, whatever String method it declares
	}
	if c, ok := refAsCond(v); ok {
		return c.String()
	}
	switch tv := v.(type) {
	case string:
		return tv
	case fmt.Stringer:
		return tv.String()
	}
	return fmt.Sprint(v)
}

// normParen strips one pair of enclosing parentheses and the blanks directly inside them.
func normParen(s string) (core string, par bool) {
	if strings.HasPrefix(s, "(") && strings.HasSuffix(s, ")") && len(s) >= 2 {
		return strings.TrimSpace(s[1 : len(s)-1]), true
	}
	return s, false
}

type condOp struct {
	name    string
	enabled func(in *condInst) bool
	run     func(in *condInst)
}

// c06QuickAlphabet is set from the tier before any machine is built (run and replay alike).
var c06QuickAlphabet bool

func c06Ops(variant ...string) []condOp {
	var ops []condOp
	deepEnc := len(variant) > 0 && variant[0] == "encapsulation"
	live := func(in *condInst) bool { return in.live }
	blank := func(in *condInst) bool { return !in.live }
	reset := func(in *condInst) {
		*in = condInst{c: in.c, live: true, by: in.by, byWant: in.byWant, hasBy: in.hasBy}
	}
	exs := c06Expressions()
	if c06QuickAlphabet {
		// the quick tier leaves out expressions whose class is represented by another one (a second Condition alias form,
		// a second numeric extreme, a second text with a fmt verb); the thorough tier runs them all
		var few []struct {
			n  string
			mk func() any
		}
		for _, e := range exs {
			switch e.n {
			case "int64(min)", `"100%s"`, "true", "CondAlias(x>y)":
				continue
			}
			few = append(few, e)
		}
		exs = few
	}
	for _, kw := range c06Keywords() {
		for _, op := range c06Operators() {
			for _, ex := range exs {
				kw, op, ex := kw, op, ex
				ops = append(ops, condOp{fmt.Sprintf("Cond(%s,%s,%s)", kw.n, op.n, ex.n), blank, func(in *condInst) {
					var o stackage.Operator
					if op.v != nil {
						o = op.v.(stackage.Operator)
					}
					v := ex.mk()
					in.c = stackage.Cond(kw.v, o, v)
					reset(in)
					in.kw = acceptKw(kw.v, "")
					if a, ok := acceptOp(op.v); ok {
						in.op = a
					}
					if in.acceptEx(v) {
						in.ex = v
					}
					in.ctorEr = !in.validRef()
				}})
			}
		}
	}
	ops = append(ops, condOp{"Init()", func(*condInst) bool { return true }, func(in *condInst) {
		// a copy of the handle made earlier (what a Stack holds after Push, what another variable
		// holds after assignment) is a different instance from now on: Init gives the variable a new
		// one and must leave the old one alone
		earlier := in.c
		var before string
		if in.live {
			before = fmt.Sprintf("%q %v %v %v", earlier.Keyword(), earlier.Operator(), earlier.Expression() != nil, earlier.Err())
		}
		in.c.Init()
		if in.live {
			if after := fmt.Sprintf("%q %v %v %v", earlier.Keyword(), earlier.Operator(), earlier.Expression() != nil, earlier.Err()); after != before {
				in.pending = append(in.pending, "earlier-copy-changed:Init\x00Init() on the variable changed an earlier copy of the Condition (keyword, operator, has-expression, Err): before "+before+" after "+after)
			}
		}
		pend := in.pending
		reset(in)
		in.pending = pend
	}})
	for _, kw := range c06Keywords() {
		kw := kw
		ops = append(ops, condOp{"SetKeyword(" + kw.n + ")", live, func(in *condInst) {
			in.c.SetKeyword(kw.v)
			in.kw = acceptKw(kw.v, in.kw)
		}})
	}
	for _, op := range c06Operators() {
		op := op
		ops = append(ops, condOp{"SetOperator(" + op.n + ")", live, func(in *condInst) {
			var o stackage.Operator
			if op.v != nil {
				o = op.v.(stackage.Operator)
			}
			in.c.SetOperator(o)
			if a, ok := acceptOp(op.v); ok {
				in.op = a
			}
		}})
	}
	for _, ex := range exs {
		ex := ex
		ops = append(ops, condOp{"SetExpression(" + ex.n + ")", live, func(in *condInst) {
			v := ex.mk()
			in.c.SetExpression(v)
			if in.acceptEx(v) {
				in.ex = v
			}
		}})
	}
	for _, b := range []bool{true, false} {
		b := b
		ops = append(ops,
			condOp{fmt.Sprintf("SetNoNesting(%v)", b), live, func(in *condInst) { in.c.SetNoNesting(b); in.nnest = b }},
			condOp{fmt.Sprintf("SetNoPadding(%v)", b), live, func(in *condInst) { in.c.SetNoPadding(b); in.nspad = b }},
			condOp{fmt.Sprintf("SetParen(%v)", b), live, func(in *condInst) { in.c.SetParen(b); in.paren = b }})
	}
	ops = append(ops,
		condOp{`SetEncap("\"")`, live, func(in *condInst) {
			in.c.SetEncap(`"`)
			if !inUse(in.enc, `"`) {
				in.enc = append(in.enc, []string{`"`})
			}
		}},
		condOp{`SetEncap()`, live, func(in *condInst) { in.c.SetEncap(); in.enc = nil }},
		condOp{"SetErr(e)", live, func(in *condInst) { in.c.SetErr(errUser); in.err, in.ctorEr = errUser, false }},
		// an error that says nothing is an error all the same (round 14)
		condOp{"SetErr(error with empty text)", live, func(in *condInst) { in.c.SetErr(errSilent); in.err, in.ctorEr = errSilent, false }},
		condOp{"SetErr(nil)", live, func(in *condInst) { in.c.SetErr(nil); in.err, in.ctorEr = nil, false }},
	)
	if !deepEnc {
		return ops
	}
	// the encapsulation machine: a small alphabet around one valid Condition, but every scheme (single
	// characters, pairs, two schemes in one call) in every order, up to five layers deep
	var keep []condOp
	for _, o := range ops {
		switch {
		case o.name == `Cond("k",Eq,"v")`, o.name == `SetExpression(7)`, o.name == `SetExpression(Or(a))`, o.name == `SetExpression(Not()paren(x=y))`, strings.HasPrefix(o.name, "SetEncap"), strings.HasPrefix(o.name, "SetParen"), strings.HasPrefix(o.name, "SetNoPadding"):
			keep = append(keep, o)
		}
	}
	addEnc := func(name string, schemes [][]string, args ...any) {
		keep = append(keep, condOp{name, live, func(in *condInst) {
			in.c.SetEncap(args...)
			for _, sc := range schemes {
				used := false
				for _, ch := range sc {
					if inUse(in.enc, ch) {
						used = true
					}
				}
				if !used {
					in.enc = append(in.enc, sc)
				}
			}
		}})
	}
	addEnc("SetEncap(%)", [][]string{{"%"}}, "%") // (text that means something to fmt is text like any other)
	addEnc("SetEncap([< >])", [][]string{{"<", ">"}}, []string{"<", ">"})
	addEnc("SetEncap([{% %}])", [][]string{{"{%", "%}"}}, []string{"{%", "%}"})
	addEnc("SetEncap(|,[{ }])", [][]string{{"|"}, {"{", "}"}}, "|", []string{"{", "}"})
	// single characters that are also halves of the pairs above: a pair refused because ONE half is taken
	// leaves the other half free
	addEnc("SetEncap(>)", [][]string{{">"}}, ">")
	addEnc("SetEncap(<)", [][]string{{"<"}}, "<")
	return keep
}

func c06Machine(c *Ctx, variant ...string) *Machine[*condInst] {
	ops := c06Ops(variant...)
	name := "C06 condition"
	if len(variant) > 0 && variant[0] != "" {
		name += " " + variant[0]
	}
	return &Machine[*condInst]{
		Name: name,
		// the small machine runs one transition at a time and watches a bystander Condition
		Sequential:     len(variant) > 0 && variant[0] == "encapsulation",
		NoopProbeDepth: map[bool]int{true: 3, false: 1}[len(variant) > 0 && variant[0] == "encapsulation"],
		ObserveDepth:   map[bool]int{true: 3, false: 2}[len(variant) > 0 && variant[0] == "encapsulation"],
		New: func() *condInst {
			if len(variant) == 0 || variant[0] != "encapsulation" {
				return &condInst{}
			}
			// the bystander went through reset-then-set itself (it too owns "a slice that was emptied once")
			by := stackage.Cond("by", stackage.Eq, "stander").SetEncap(`"`).SetEncap().SetEncap("'")
			return &condInst{by: by, byWant: by.String(), hasBy: true}
		},
		NumOps:  len(ops),
		OpName:  func(in *condInst, i int) string { return ops[i].name },
		Enabled: func(in *condInst, i int) bool { return ops[i].enabled(in) },
		Apply: func(in *condInst, i int, check bool) []string {
			prevEx := in.ex
			ops[i].run(in)
			if !check {
				in.pending = nil
				return nil
			}
			cls := opClass(ops[i].name)
			out := in.pending
			in.pending = nil
			bad := func(k, f string, a ...any) { out = append(out, k+"\x00"+fmt.Sprintf(f, a...)) }
			cd := in.c
			if got := cd.Keyword(); got != in.kw {
				bad("Keyword:"+cls, "Keyword()=%q want %q", got, in.kw)
			}
			if got := cd.Operator(); !reflect.DeepEqual(got, in.op) {
				bad("Operator:"+cls, "Operator()=%v want %v", got, in.op)
			}
			if got := cd.Expression(); got != in.ex {
				bad("Expression:"+cls, "Expression()=%v (%T) want %v (%T)", got, got, in.ex, in.ex)
			}
			// the option getters follow the setters, whatever else was switched in between
			if in.live {
				if got := cd.CanNest(); got != !in.nnest {
					bad("CanNest:"+cls, "CanNest()=%v although no-nesting is %v", got, in.nnest)
				}
				if got := cd.IsParen(); got != in.paren {
					bad("IsParen:"+cls, "IsParen()=%v want %v", got, in.paren)
				}
				if got := cd.IsPadded(); got != !in.nspad {
					bad("IsPadded:"+cls, "IsPadded()=%v although no-padding is %v", got, in.nspad)
				}
			}
			if !in.hasBy {
				// no bystander in the parallel machine
			} else if got := in.by.String(); got != in.byWant {
				bad("bystander-changed:"+cls, "another Condition, never passed to any call, now renders %q instead of %q", got, in.byWant)
			}
			gerr := cd.Err()
			switch {
			case in.ctorEr:
				if gerr == nil {
					bad("Err:"+cls, "Err()=nil although Cond built an invalid Condition")
				}
			case gerr != in.err:
				bad("Err:"+cls, "Err()=%v want %v", gerr, in.err)
			}
			var verr error
			var str string
			if p := noPanic(func() { verr = cd.Valid() }); p != "" {
				bad("panic:Valid", "Valid panicked: %s", p)
				return out
			}
			if want := in.validRef(); (verr == nil) != want {
				bad("Valid", "Valid()=%v want valid=%v (kw %q op %v ex %v)", verr, want, in.kw, in.op, in.ex)
			}
			if p := noPanic(func() { str = cd.String() }); p != "" {
				bad("panic:String", "String panicked (kw %q op %v ex %v): %s", in.kw, in.op, in.ex, p)
				return out
			}
			if in.validRef() {
				pad := " "
				if in.nspad {
					pad = ""
				}
				want := in.kw + pad + refOpText(in.op) + pad + refEncap(in.enc, renderExpr(in.ex))
				core, par := normParen(str)
				if !in.paren {
					core, par = str, false
					if strings.HasPrefix(str, "(") && strings.HasSuffix(str, ")") && !strings.HasPrefix(want, "(") {
						par = true
					}
				}
				if par && in.paren {
					// normParen trims; an expression that renders as nothing leaves a trailing blank
					want = strings.TrimSpace(want)
				}
				if core != want || par != in.paren {
					bad("String:"+cls, "String()=%q want %q parenthesised=%v (kw %q op %v ex %v enc %q nopad %v)", str, want, in.paren, in.kw, in.op, in.ex, in.enc, in.nspad)
				}
			} else if str != "" {
				bad("String-nonempty-when-invalid", "String()=%q although the Condition is invalid", str)
			}
			if prevEx != in.ex || strings.HasPrefix(ops[i].name, "Set") {
				c.Nontrivial(ops[i].name + "|" + canonTokens(stackage.VerifDump(in.c).Key(false)))
			}
			c.Outcome(fmt.Sprintf("%v|%s", verr == nil, str))
			return out
		},
		Observe: func(in *condInst) { observeAll(in.c) },
		Key: func(in *condInst) string {
			if !in.live {
				return "blank"
			}
			return stackage.VerifDump(in.c).Key(false)
		},
	}
}

// lateOp is a user-defined Operator whose texts its owner may change after a Condition accepted it: the
// Condition holds the operator, not a copy of what it said on the day (round 14).
type lateOp struct{ sym, ctx string }

func (o *lateOp) String() string  { return o.sym }
func (o *lateOp) Context() string { return o.ctx }

// c06LateOperators: every (no-padding, parenthetical, expression, what the operator says later) combination
// around one accepted operator. Oracle: the statement itself - Valid() is nil because keyword, operator
// and expression are there, the operator held is the one accepted, String() is keyword + pad + whatever
// the operator says now + pad + expression; and when the operator says again what it said at first the
// first rendering returns.
func c06LateOperators(c *Ctx) int {
	n := 0
	for m := 0; m < 4; m++ {
		for _, ex := range []any{"val", 7, stackage.Or().Push("a", "b")} {
			for _, late := range [][2]string{{"", "approx"}, {"~=", ""}, {"", ""}, {"=~", "other"}} {
				n++
				c.Transitions.Add(1)
				c.Evals.Add(1)
				op := &lateOp{"~=", "approx"}
				cd := stackage.Cond("kw", op, ex)
				nopad, paren := m&1 != 0, m&2 != 0
				cd.SetNoPadding(nopad).SetParen(paren)
				desc := fmt.Sprintf("Cond(kw, lateOp(~=,approx), %v) nopad=%v paren=%v, then the operator says (%q,%q)", ex, nopad, paren, late[0], late[1])
				render := func() (string, error, string) {
					var str string
					var verr error
					p := noPanic(func() { verr = cd.Valid(); str = cd.String() })
					return str, verr, p
				}
				want := func() string {
					pad := " "
					if nopad {
						pad = ""
					}
					return "kw" + pad + op.sym + pad + renderExpr(ex)
				}
				check := func(stage string) bool {
					str, verr, p := render()
					if p != "" {
						c.Violation("panic:late-operator", desc+" ("+stage+"): "+p, nil, len(desc))
						return false
					}
					if verr != nil {
						c.Violation("Valid:late-operator", fmt.Sprintf("%s (%s): Valid()=%v although keyword, operator and expression are present", desc, stage, verr), nil, len(desc))
						return false
					}
					if got := cd.Operator(); got != stackage.Operator(op) {
						c.Violation("Operator:late-operator", fmt.Sprintf("%s (%s): Operator()=%v is not the operator accepted", desc, stage, got), nil, len(desc))
						return false
					}
					core, par := str, false
					if paren {
						core, par = normParen(str)
					}
					if core != want() || par != paren {
						c.Violation("String:late-operator", fmt.Sprintf("%s (%s): String()=%q want %q parenthesised=%v", desc, stage, str, want(), paren), nil, len(desc))
						return false
					}
					return true
				}
				if !check("as accepted") {
					continue
				}
				first, _, _ := render()
				op.sym, op.ctx = late[0], late[1]
				if !check("after the change") {
					continue
				}
				op.sym, op.ctx = "~=", "approx"
				if again, _, _ := render(); again != first {
					c.Violation("String:late-operator", fmt.Sprintf("%s, then (~=,approx) again: String()=%q, at first %q", desc, again, first), nil, len(desc))
				}
				c.Nontrivial(desc)
			}
		}
	}
	return n
}

func init() {
	register(&Check{ID: "C06", Engine: "A", Run: func(c *Ctx) {
		c.Bound["operators_that_change_their_text_after_acceptance"] = c06LateOperators(c)
		c06QuickAlphabet = c.Quick()
		me := c06Machine(c, "encapsulation")
		if c.Quick() {
			me.MaxDepth = 5 // eight schemes: every order of up to four of them after the constructor (the thorough tier runs to the fix-point)
		}
		ste := BFS(c, me)
		m := c06Machine(c)
		st := BFS(c, m)
		c.Exhaustive = st.Complete && ste.Complete
		c.Sample(map[string]any{"machine": me.Name, "states": ste.States, "transitions": ste.Transitions, "ops": me.NumOps, "depth": ste.MaxDepth})
		c.Rule = "BFS to fix-point: from a blank start every Cond(kw,op,ex) over 6 keywords x 8 operators x 9 expressions and Init(); from every reachable Condition state every SetKeyword/SetOperator/SetExpression over the same alphabets, set/clear of no-nesting, no-padding, parenthetical, SetEncap, SetErr(e)/SetErr(nil); a second machine around one valid Condition with six encapsulation schemes (single characters, pairs, two in one call) in every order and depth, parenthetical / no-padding, three expressions; every transition also on an observed history; a bystander Condition configured through reset-then-set keeps its rendering; non-trivial = distinct (state, setter) pairs"
		c.Bound["ops"] = m.NumOps
		c.Bound["bfs_depth"] = st.MaxDepth
		c.Sample(map[string]any{"machine": m.Name, "states": st.States, "transitions": st.Transitions, "ops": m.NumOps, "depth": st.MaxDepth})
		c.Assumptions = append(c.Assumptions, "blank placement inside a Condition's parentheses is not constrained (only 'parenthesised iff requested')", "user operators are total (no nil-receiver panics of the user's own methods)")
	}, Replay: func(c *Ctx, raw json.RawMessage) {
		var hc histCase
		json.Unmarshal(raw, &hc)
		c06QuickAlphabet = c.Quick()
		if strings.HasSuffix(hc.Machine, " encapsulation") {
			replayHistory(c, c06Machine(c, "encapsulation"), hc.History, hc.Observed)
			return
		}
		replayHistory(c, c06Machine(c), hc.History, hc.Observed)
	}})
}
