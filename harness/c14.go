package main

import (
	"encoding/json"
	"errors"
	"fmt"
	"reflect"
	"strings"

	stackage "github.com/JesseCoretta/go-stackage"
)

// C14 — user-supplied policies decide, exactly as documented (Engine A/B).

// ---- push policy --------------------------------------------------------------------------------

type c14PushCase struct {
	Kind    string `json:"kind"`
	Policy  int    `json:"policy_accept_mask"` // bit i set = value class i is approved
	Batch   []int  `json:"batch"`              // value classes offered
	Cap     int    `json:"cap"`
	Prefill int    `json:"prefill"`
	NoNest  bool   `json:"no_nesting"`
	Mutex   bool   `json:"mutex,omitempty"`
	// ErrShape: what a rejection looks like: 0 an ordinary error value, 1 a nil pointer of a pointer-receiver
	// error type (a non-nil error all the same), 2 an error of a struct type, 3 a wrapped error
	ErrShape int `json:"error_shape,omitempty"`
	// Rebuilt: the prefilled content was reached the long way round (one more value in front, removed again)
	Rebuilt bool `json:"prefill_reached_through_remove,omitempty"`
}

// ptrErr is an error type with pointer receiver: a nil *ptrErr in an error interface is a non-nil error.
type ptrErr struct{ msg string }

func (e *ptrErr) Error() string {
	if e == nil {
		return "rejected (nil *ptrErr)"
	}
	return e.msg
}

type structErr struct{ code int }

func (e structErr) Error() string { return fmt.Sprintf("rejected with code %d", e.code) }

func c14Rejection(cl, shape int) error {
	switch shape {
	case 1:
		return (*ptrErr)(nil)
	case 2:
		return structErr{cl}
	case 3:
		return fmt.Errorf("wrapped: %w", errReject[cl])
	}
	return errReject[cl]
}

var errReject = [4]error{errors.New("reject class 0"), errors.New("reject class 1"), errors.New("reject class 2"), errors.New("reject class 3")}

func c14Value(cls, i int) any {
	switch cls {
	case 0:
		return fmt.Sprintf("s%d", i)
	case 1:
		return 100 + i
	case 2:
		return stackage.Or().Push(fmt.Sprintf("n%d", i))
	}
	return nil
}

func c14Class(v any) int {
	switch v.(type) {
	case string:
		return 0
	case int:
		return 1
	case stackage.Stack:
		return 2
	}
	return 3
}

func c14PushRun(c *Ctx, cs c14PushCase, count bool) {
	var s stackage.Stack
	if cs.Cap > 0 {
		s = newStackKind(cs.Kind, cs.Cap)
	} else {
		s = newStackKind(cs.Kind)
	}
	var pre []any
	for i := 0; i < cs.Prefill; i++ {
		pre = append(pre, fmt.Sprintf("pre%d", i))
	}
	if cs.Rebuilt && cs.Prefill > 0 {
		if cs.Cap > 0 && cs.Cap < cs.Prefill+1 {
			return // no room for the value that passes through
		}
		s.Push("passing-through")
		s.Push(pre...)
		s.Remove(0) // the batch under test is the first Push after the rebuild
	} else {
		s.Push(pre...)
	}
	if s.Len() != cs.Prefill {
		return
	}
	if cs.NoNest {
		s.SetNoNesting(true)
	}
	if cs.Mutex {
		s.SetMutex()
	}
	var log []any
	s.SetPushPolicy(func(x ...any) error {
		if len(x) != 1 {
			log = append(log, fmt.Sprintf("<%d args>", len(x)))
			return nil
		}
		log = append(log, x[0])
		if cl := c14Class(x[0]); cs.Policy&(1<<cl) == 0 {
			return c14Rejection(cl, cs.ErrShape)
		}
		return nil
	})
	var batch []any
	for i, cl := range cs.Batch {
		batch = append(batch, c14Value(cl, i))
	}
	if count {
		c.Evals.Add(1)
		c.Transitions.Add(1)
		c.Traces.Add(1)
	}
	desc := fmt.Sprintf("%s cap=%d prefill=%d no-nesting=%v policy-accepts=%03b Push%v", cs.Kind, cs.Cap, cs.Prefill, cs.NoNest, cs.Policy, showTypes(batch))
	dead := false
	p := func() (msg string) {
		defer func() {
			if r := recover(); r != nil {
				if dp, ok := r.(deadlockPanic); ok {
					dead = true
					heldMutexes.Delete(dp.mutex)
					return
				}
				msg = fmt.Sprint(r)
			}
		}()
		s.Push(batch...)
		return ""
	}()
	if dead {
		c.Violation("deadlock:Push", desc+" (mutex enabled): Push tries to take the stack's lock while holding it", cs, len(cs.Batch))
		return
	}
	if p != "" {
		c.Violation("panic:Push", desc+" panicked: "+p, cs, len(cs.Batch))
		return
	}
	if cs.Mutex {
		if m := stackage.VerifDump(s).Mtx; m != 0 {
			if _, held := heldMutexes.Load(m); held {
				heldMutexes.Delete(m)
				c.Violation("lock-leaked:Push", desc+": the mutex is still held after Push returned", cs, len(cs.Batch))
				return
			}
		}
	}
	// reference
	content := append([]any{}, pre...)
	var wantLog []any
	var wantErr error
	for _, v := range batch {
		if cs.Cap > 0 && len(content) >= cs.Cap {
			continue // no room: not consulted
		}
		wantLog = append(wantLog, v)
		if cl := c14Class(v); cs.Policy&(1<<cl) == 0 {
			wantErr = c14Rejection(cl, cs.ErrShape)
			break
		}
		content = append(content, v)
	}
	if !sameList(log, wantLog) {
		c.Violation("push-policy:call-log", fmt.Sprintf("%s: the policy was consulted with %s, want %s", desc, showList(log), showList(wantLog)), cs, len(cs.Batch))
	}
	if got := contents(s); !sameList(got, content) {
		cls := "push-policy:content"
		for _, g := range got {
			if cl := c14Class(g); cl < 4 && cs.Policy&(1<<cl) == 0 && !strings.HasPrefix(fmt.Sprint(g), "pre") {
				cls = "push-policy:rejected-value-stored"
			}
		}
		c.Violation(cls, fmt.Sprintf("%s: content %s want %s", desc, showList(got), showList(content)), cs, len(cs.Batch))
	}
	if got := s.Err(); (cs.ErrShape == 0 && got != wantErr) || (cs.ErrShape != 0 && ((got == nil) != (wantErr == nil) || (got != nil && got.Error() != wantErr.Error()))) {
		c.Violation("push-policy:err", fmt.Sprintf("%s: Err()=%v want %v", desc, got, wantErr), cs, len(cs.Batch))
	}
	if count {
		if wantErr != nil || len(wantLog) != len(batch) {
			c.Nontrivial(jsonString(cs))
		}
		c.Outcome(fmt.Sprintf("%d/%d/%v", len(wantLog), len(content), wantErr != nil))
	}
}

// c14WritingPolicy: a push policy that WRITES to the stack it guards before it answers - a capped "most recent
// last" set that first takes out an older copy of the offered value, and a window that drops its oldest
// element when the offered one would otherwise fill it. Room that the policy frees while a batch runs is
// room: every value that finds room is offered, in order, and stored. (No mutex: the closure runs inside Push.)
func c14WritingPolicy(c *Ctx) int {
	n := 0
	type job struct {
		kind           string
		capk, pre, var_ int
		batch          []int
	}
	var jobs []job
	var gen func(prefix []int, left int, emit func([]int))
	gen = func(prefix []int, left int, emit func([]int)) {
		if len(prefix) > 0 {
			emit(append([]int{}, prefix...))
		}
		if left == 0 {
			return
		}
		for v := 0; v < 5; v++ {
			gen(append(prefix, v), left-1, emit)
		}
	}
	maxBatch := 3
	if !c.Quick() {
		maxBatch = 4
	}
	for ki, kind := range kindNames {
		for capk := 2; capk <= 4; capk++ {
			for pre := 0; pre <= capk; pre++ {
				for variant := 0; variant < 2; variant++ {
					if c.Quick() && (ki+capk+variant)%2 == 1 {
						continue
					}
					gen(nil, maxBatch, func(b []int) { jobs = append(jobs, job{kind, capk, pre, variant, b}) })
				}
			}
		}
	}
	parallelFor(len(jobs), func(i int) {
		j := jobs[i]
		s := newStackKind(j.kind, j.capk)
		var content []any
		for q := 0; q < j.pre; q++ {
			content = append(content, fmt.Sprintf("v%d", q))
		}
		s.Push(content...)
		var log []any
		s.SetPushPolicy(func(x ...any) error {
			log = append(log, x[0])
			if j.var_ == 0 {
				for q := 0; q < s.Len(); q++ {
					if v, _ := s.Index(q); v == x[0] {
						s.Remove(q)
						break
					}
				}
			} else if s.Len() >= j.capk-1 && s.Len() > 0 {
				s.Remove(0)
			}
			return nil
		})
		var batch []any
		for _, v := range j.batch {
			batch = append(batch, fmt.Sprintf("v%d", v))
		}
		desc := fmt.Sprintf("%s capacity %d holding %s, push policy %s: Push%s", j.kind, j.capk, showList(content), map[int]string{0: "takes out an older copy of the offered value, then approves", 1: "drops the oldest element when the offered one would fill the stack, then approves"}[j.var_], showList(batch))
		c.Transitions.Add(1)
		if p := noPanic(func() { s.Push(batch...) }); p != "" {
			c.Violation("writing-policy:panic", desc+" panicked: "+p, nil, len(batch))
			return
		}
		var wantLog []any
		for _, v := range batch {
			if len(content) >= j.capk {
				continue // no room: not consulted
			}
			wantLog = append(wantLog, v)
			if j.var_ == 0 {
				for q := range content {
					if content[q] == v {
						content = append(content[:q:q], content[q+1:]...)
						break
					}
				}
			} else if len(content) >= j.capk-1 && len(content) > 0 {
				content = content[1:]
			}
			content = append(content, v)
		}
		if !sameList(log, wantLog) {
			c.Violation("writing-policy:call-log", fmt.Sprintf("%s: the policy was consulted with %s, want %s (every value that finds room when its turn comes)", desc, showList(log), showList(wantLog)), nil, len(batch))
		} else if got := contents(s); !sameList(got, content) {
			c.Violation("writing-policy:content", fmt.Sprintf("%s: content %s want %s", desc, showList(got), showList(content)), nil, len(batch))
		}
		if len(wantLog) == len(batch) && len(batch) > j.capk-j.pre {
			c.Nontrivial(desc)
		}
	})
	n = len(jobs)
	return n
}

func c14PushCases(c *Ctx) []c14PushCase {
	var out []c14PushCase
	kinds := []string{"AND", "BASIC"}
	if !c.Quick() {
		kinds = kindNames
	}
	var batches [][]int
	var rec func(cur []int)
	rec = func(cur []int) {
		if len(cur) > 0 {
			batches = append(batches, append([]int{}, cur...))
		}
		if len(cur) == 3 {
			return
		}
		for cl := 0; cl < 4; cl++ {
			rec(append(cur, cl))
		}
	}
	rec(nil)
	for _, k := range kinds {
		for pol := 0; pol < 16; pol++ {
			for _, b := range batches {
				for _, cp := range []int{0, 1, 2, 3} {
					for pre := 0; pre <= 2; pre++ {
						if cp > 0 && pre > cp {
							continue
						}
						for _, nn := range []bool{false, true} {
							if nn && (pre != 0 || cp == 3) {
								continue
							}
							out = append(out, c14PushCase{k, pol, b, cp, pre, nn, false, 0, false})
							if pre > 0 && cp > 0 && !nn {
								out = append(out, c14PushCase{k, pol, b, cp, pre, nn, false, 0, true})
							}
							if len(b) <= 2 || cp == 2 {
								out = append(out, c14PushCase{k, pol, b, cp, pre, nn, true, 0, false})
							}
						}
					}
				}
			}
		}
	}
	// rejections of other shapes than a plain error value
	for shape := 1; shape <= 3; shape++ {
		for pol := 0; pol < 16; pol++ {
			for _, b := range batches {
				if len(b) <= 2 {
					out = append(out, c14PushCase{Kind: kindNames[(pol+shape)%5], Policy: pol, Batch: b, ErrShape: shape, Mutex: pol%4 == 1})
				}
			}
		}
	}
	// the long regime: one Push call with many values; all of class 0 except one of another class at
	// position p (the policy approves class 0 only, so p is where the first rejection falls), and a
	// second odd one later in the batch (it must never be consulted)
	for _, n := range []int{8, 9, 15, 16, 17, 18, 33, 40, 70} {
		for _, p := range []int{1, n / 2, n - 3, n - 2, n - 1} {
			if p < 0 || p >= n {
				continue
			}
			for _, odd := range []int{1, 3} {
				b := make([]int, n)
				b[p] = odd
				if p+2 < n {
					b[p+2] = 1
				}
				for _, cp := range []int{0, n - 2, n + 5} {
					out = append(out, c14PushCase{kindNames[(n+p)%5], 1, b, cp, 0, false, cp == 0 && odd == 1, 0, false}, c14PushCase{kindNames[(n+p+1)%5], 15, b, cp, 1, false, false, 0, false})
				}
			}
		}
	}
	return out
}

// ---- the other closures: install / remove histories ------------------------------------------------

var (
	errV = errors.New("validity closure says no")
	errE = errors.New("equality closure says no")
	errM = errors.New("marshal closure says no")
	errU = errors.New("unmarshal closure gave up half-way")
)

type polInst struct {
	isCond       bool
	s, tw        stackage.Stack // instance and a twin that never gets a closure
	cd, ct       stackage.Condition
	kind         string
	vpf          int // 0 none, 1 accepting, 2 rejecting
	rpf          bool
	rpfEmpty     int // what the installed presentation closure answers: 0 "PRESENTED", 1 the empty string, 2 a text with white space at both ends and runs of blanks / a TAB inside
	umfFour      bool // the installed (Condition) Unmarshaler answers in the package's own four-slot layout, the Stack expression handed back raw
	eqf          int // 0 none, 1 -> nil, 2 -> errE, 3 -> an error naming the type of the comparand it was handed
	umf          bool
	umfPartial   bool // the installed Unmarshaler answers with a partial slice AND an error
	maf          bool
	evl          bool
	basicRefused bool
	extra        int  // elements appended by the built-in Marshal
	ro           bool // read-only: installing / removing closures is refused, the installed ones still decide
}

type polOp struct {
	name string
	run  func(in *polInst)
}

// The marshal and evaluation closures answer as a function of exactly what they are handed, so that
// "Marshal / Evaluate return that closure's result" can be checked as Marshal(in...) == closure(in...).
var c14RawStack = stackage.List().Push("raw", "stack").SetReadOnly(true)

var c14Presented = []string{"PRESENTED", "", "  name  =\tvalue \n"}

func c14Marshaler(in ...any) error {
	if len(in) == 2 && in[0] == "OR" && in[1] == "m" {
		return errM
	}
	return fmt.Errorf("marshal closure saw %d argument(s): %s", len(in), describeArgs(in))
}

func c14Evaluator(x ...any) (any, error) {
	if len(x) == 2 && x[0] == 1 && x[1] == 2 {
		return "EVALUATED", nil
	}
	return "EVALUATED:" + describeArgs(x), nil
}

func describeArgs(in []any) string {
	p := make([]string, len(in))
	for i, v := range in {
		p[i] = fmt.Sprintf("%T:%v", v, v)
	}
	return "[" + strings.Join(p, " ") + "]"
}

func c14PolOps(isCond bool) []polOp {
	var ops []polOp
	add := func(n string, f func(in *polInst)) {
		ops = append(ops, polOp{n, func(in *polInst) {
			before := *in
			f(in)
			if before.ro && n != "SetErr(nil)" && !strings.HasPrefix(n, "SetReadOnly") {
				// refused: the call was made, the closures stay as they were
				in.vpf, in.rpf, in.eqf, in.umf, in.maf, in.evl, in.basicRefused, in.umfPartial, in.rpfEmpty, in.umfFour = before.vpf, before.rpf, before.eqf, before.umf, before.maf, before.evl, before.basicRefused, before.umfPartial, before.rpfEmpty, before.umfFour
			}
		}})
	}
	vAccept := func(...any) error { return nil }
	vReject := func(...any) error { return errV }
	present := func(...any) string { return "PRESENTED" }
	eqNil := func(a, b any) error { return nil }
	eqErr := func(a, b any) error { return errE }
	presentNothing := func(...any) string { return "" }
	eqTyped := c14EqTyped
	unm := func(...any) ([]any, error) { return []any{"UNMARSHALED"}, nil }
	unmPartial := func(...any) ([]any, error) { return []any{"UNMARSHALED"}, errU }
	mar := c14Marshaler
	evl := c14Evaluator
	if isCond {
		add("SetValidityPolicy(accept)", func(in *polInst) { in.cd.SetValidityPolicy(vAccept); in.vpf = 1 })
		add("SetValidityPolicy(reject)", func(in *polInst) { in.cd.SetValidityPolicy(vReject); in.vpf = 2 })
		add("SetValidityPolicy(nil)", func(in *polInst) { in.cd.SetValidityPolicy(nil); in.vpf = 0 })
		add("SetPresentationPolicy(fn)", func(in *polInst) { in.cd.SetPresentationPolicy(present); in.rpf, in.rpfEmpty = true, 0 })
		add("SetPresentationPolicy(fn answering \"\")", func(in *polInst) { in.cd.SetPresentationPolicy(presentNothing); in.rpf, in.rpfEmpty = true, 1 })
		add("SetPresentationPolicy(fn answering a text full of white space)", func(in *polInst) {
			in.cd.SetPresentationPolicy(func(...any) string { return c14Presented[2] })
			in.rpf, in.rpfEmpty = true, 2
		})
		add("SetPresentationPolicy(nil)", func(in *polInst) { in.cd.SetPresentationPolicy(nil); in.rpf, in.rpfEmpty = false, 0 })
		add("SetEqualityPolicy(nil-result)", func(in *polInst) { in.cd.SetEqualityPolicy(eqNil); in.eqf = 1 })
		add("SetEqualityPolicy(error-result)", func(in *polInst) { in.cd.SetEqualityPolicy(eqErr); in.eqf = 2 })
		add("SetEqualityPolicy(result names the comparand's type)", func(in *polInst) { in.cd.SetEqualityPolicy(eqTyped); in.eqf = 3 })
		add("SetEqualityPolicy()", func(in *polInst) { in.cd.SetEqualityPolicy(); in.eqf = 0 })
		// several closures in one call (round 14): the first one speaks, also when it is nil
		add("SetEqualityPolicy(error-result, nil)", func(in *polInst) { in.cd.SetEqualityPolicy(eqErr, nil); in.eqf = 2 })
		add("SetEqualityPolicy(nil, error-result)", func(in *polInst) { in.cd.SetEqualityPolicy(nil, eqErr); in.eqf = 0 })
		add("SetUnmarshaler(fn, nil)", func(in *polInst) { in.cd.SetUnmarshaler(unm, nil); in.umf, in.umfPartial, in.umfFour = true, false, false })
		add("SetUnmarshaler(nil, fn)", func(in *polInst) { in.cd.SetUnmarshaler(nil, unm); in.umf, in.umfPartial, in.umfFour = false, false, false })
		add("SetEqualityPolicy(nil)", func(in *polInst) { in.cd.SetEqualityPolicy(nil); in.eqf = 0 })
		add("SetUnmarshaler(fn)", func(in *polInst) { in.cd.SetUnmarshaler(unm); in.umf, in.umfPartial, in.umfFour = true, false, false })
		add("SetUnmarshaler(partial result + error)", func(in *polInst) { in.cd.SetUnmarshaler(unmPartial); in.umf, in.umfPartial, in.umfFour = true, true, false })
		add("SetUnmarshaler(four slots, Stack handed back raw)", func(in *polInst) {
			in.cd.SetUnmarshaler(func(...any) ([]any, error) { return []any{"CONDITION", "kw", stackage.Eq, c14RawStack}, nil })
			in.umf, in.umfPartial, in.umfFour = true, false, true
		})
		add("SetUnmarshaler()", func(in *polInst) { in.cd.SetUnmarshaler(); in.umf, in.umfPartial, in.umfFour = false, false, false })
		add("SetUnmarshaler(nil)", func(in *polInst) { in.cd.SetUnmarshaler(nil); in.umf, in.umfPartial, in.umfFour = false, false, false })
		add("SetEvaluator(fn)", func(in *polInst) { in.cd.SetEvaluator(evl); in.evl = true })
		add("SetEvaluator(nil)", func(in *polInst) { in.cd.SetEvaluator(nil); in.evl = false })
		add("SetReadOnly(true)", func(in *polInst) { in.cd.SetReadOnly(true); in.ro = true })
		add("SetReadOnly(false)", func(in *polInst) { in.cd.SetReadOnly(false); in.ro = false })
		return ops
	}
	add("SetValidityPolicy(accept)", func(in *polInst) { in.s.SetValidityPolicy(vAccept); in.vpf = 1 })
	add("SetValidityPolicy(reject)", func(in *polInst) { in.s.SetValidityPolicy(vReject); in.vpf = 2 })
	add("SetValidityPolicy(nil)", func(in *polInst) { in.s.SetValidityPolicy(nil); in.vpf = 0 })
	add("SetPresentationPolicy(fn)", func(in *polInst) {
		in.s.SetPresentationPolicy(present)
		if in.kind == "BASIC" {
			in.basicRefused = true
		} else {
			in.rpf, in.rpfEmpty = true, 0
		}
	})
	add("SetPresentationPolicy(fn answering \"\")", func(in *polInst) {
		in.s.SetPresentationPolicy(presentNothing)
		if in.kind == "BASIC" {
			in.basicRefused = true
		} else {
			in.rpf, in.rpfEmpty = true, 1
		}
	})
	add("SetPresentationPolicy(fn answering a text full of white space)", func(in *polInst) {
		in.s.SetPresentationPolicy(func(...any) string { return c14Presented[2] })
		if in.kind == "BASIC" {
			in.basicRefused = true
		} else {
			in.rpf, in.rpfEmpty = true, 2
		}
	})
	add("SetPresentationPolicy(nil)", func(in *polInst) {
		in.s.SetPresentationPolicy(nil)
		if in.kind == "BASIC" {
			in.basicRefused = true // a BASIC stack refuses the call as such and records an error
		} else {
			in.rpf, in.rpfEmpty = false, 0
		}
	})
	add("SetEqualityPolicy(nil-result)", func(in *polInst) { in.s.SetEqualityPolicy(eqNil); in.eqf = 1 })
	add("SetEqualityPolicy(error-result)", func(in *polInst) { in.s.SetEqualityPolicy(eqErr); in.eqf = 2 })
	add("SetEqualityPolicy(result names the comparand's type)", func(in *polInst) { in.s.SetEqualityPolicy(eqTyped); in.eqf = 3 })
	add("SetEqualityPolicy()", func(in *polInst) { in.s.SetEqualityPolicy(); in.eqf = 0 })
	// several closures in one call (round 14): the first one speaks, also when it is nil
	add("SetEqualityPolicy(error-result, nil)", func(in *polInst) { in.s.SetEqualityPolicy(eqErr, nil); in.eqf = 2 })
	add("SetEqualityPolicy(nil, error-result)", func(in *polInst) { in.s.SetEqualityPolicy(nil, eqErr); in.eqf = 0 })
	add("SetUnmarshaler(fn, nil)", func(in *polInst) { in.s.SetUnmarshaler(unm, nil); in.umf, in.umfPartial, in.umfFour = true, false, false })
	add("SetUnmarshaler(nil, fn)", func(in *polInst) { in.s.SetUnmarshaler(nil, unm); in.umf, in.umfPartial, in.umfFour = false, false, false })
	add("SetMarshaler(fn, nil)", func(in *polInst) { in.s.SetMarshaler(mar, nil); in.maf = true })
	add("SetMarshaler(nil, fn)", func(in *polInst) { in.s.SetMarshaler(nil, mar); in.maf = false })
	add("SetEqualityPolicy(nil)", func(in *polInst) { in.s.SetEqualityPolicy(nil); in.eqf = 0 })
	add("SetUnmarshaler(fn)", func(in *polInst) { in.s.SetUnmarshaler(unm); in.umf, in.umfPartial, in.umfFour = true, false, false })
	add("SetUnmarshaler(partial result + error)", func(in *polInst) { in.s.SetUnmarshaler(unmPartial); in.umf, in.umfPartial, in.umfFour = true, true, false })
	add("SetUnmarshaler()", func(in *polInst) { in.s.SetUnmarshaler(); in.umf, in.umfPartial, in.umfFour = false, false, false })
	add("SetUnmarshaler(nil)", func(in *polInst) { in.s.SetUnmarshaler(nil); in.umf, in.umfPartial, in.umfFour = false, false, false })
	add("SetMarshaler(fn)", func(in *polInst) { in.s.SetMarshaler(mar); in.maf = true })
	add("SetMarshaler()", func(in *polInst) { in.s.SetMarshaler(); in.maf = false })
	add("SetMarshaler(nil)", func(in *polInst) { in.s.SetMarshaler(nil); in.maf = false })
	add("SetErr(nil)", func(in *polInst) { in.s.SetErr(nil); in.basicRefused = false })
	add("SetReadOnly(true)", func(in *polInst) { in.s.SetReadOnly(true); in.ro = true })
	add("SetReadOnly(false)", func(in *polInst) { in.s.SetReadOnly(false); in.ro = false })
	return ops
}

func c14PolMachine(c *Ctx, kind string) *Machine[*polInst] {
	name := "C14 closures " + kind
	deco := strings.HasSuffix(kind, "+decorated")
	kind = strings.TrimSuffix(kind, "+decorated")
	isCond := strings.HasPrefix(kind, "CONDITION")
	builtinValid := !strings.HasPrefix(kind, "CONDITION-")
	ops := c14PolOps(isCond)
	// Conditions the built-in validity rules reject (an installed closure is then the sole judge): no
	// keyword, no operator, no expression, nothing at all
	mkCond := func() stackage.Condition {
		switch kind {
		case "CONDITION-invalid":
			return stackage.Cond("", stackage.Eq, "val")
		case "CONDITION-no-operator":
			return stackage.Cond("kw", nil, "val")
		case "CONDITION-no-expression":
			return stackage.Cond("kw", stackage.Eq, nil)
		case "CONDITION-init-only":
			var c stackage.Condition
			c.Init()
			return c
		}
		return stackage.Cond("kw", stackage.Eq, "val")
	}
	build := func() *polInst {
		if isCond {
			return &polInst{isCond: true, cd: mkCond(), ct: mkCond(), kind: kind}
		}
		if deco {
			mk := func() stackage.Stack {
				return decorate(newStackKind(kind)).SetMutex().Push("a", stackage.Cond("k", stackage.Eq, "v"), "b")
			}
			return &polInst{s: mk(), tw: mk(), kind: kind}
		}
		return &polInst{s: newStackKind(kind).Push("a", stackage.Cond("k", stackage.Eq, "v"), "b"), tw: newStackKind(kind).Push("a", stackage.Cond("k", stackage.Eq, "v"), "b"), kind: kind}
	}
	return &Machine[*polInst]{
		Name:    name,
		New:     build,
		NumOps:  len(ops),
		OpName:  func(in *polInst, i int) string { return ops[i].name },
		Enabled: func(*polInst, int) bool { return true },
		Apply: func(in *polInst, i int, check bool) []string {
			ops[i].run(in)
			if !check {
				return nil
			}
			var out []string
			cls := opClass(ops[i].name)
			bad := func(k, f string, a ...any) { out = append(out, k+":"+cls+"\x00"+fmt.Sprintf(f, a...)) }
			if isCond {
				verr := in.cd.Valid()
				switch {
				case in.vpf == 2:
					if verr != errV {
						bad("cond-valid", "Valid()=%v want the very error of the validity closure", verr)
					}
				case in.vpf == 1 || builtinValid:
					if verr != nil {
						bad("cond-valid", "Valid()=%v want nil (closure state %d, built-in verdict %v)", verr, in.vpf, builtinValid)
					}
				default:
					if verr == nil {
						bad("cond-valid", "Valid()=nil for a Condition without keyword and without validity closure")
					}
				}
				valid := in.vpf == 1 || (in.vpf == 0 && builtinValid)
				got := in.cd.String()
				switch {
				case !valid:
					if got != "" {
						bad("cond-string", "String()=%q although Valid() reports an error", got)
					}
				case in.rpf:
					if want := c14Presented[in.rpfEmpty]; got != want {
						bad("cond-string", "String()=%q want the presentation closure's result %q", got, want)
					}
				case builtinValid:
					if want := in.ct.String(); got != want {
						bad("cond-string", "String()=%q want %q", got, want)
					}
				default:
					if got == "" {
						bad("cond-string", "String() is empty although the validity closure accepts the Condition")
					}
				}
				eq := in.cd.IsEqual(mkCond())
				wantEq := map[int]error{0: nil, 1: nil, 2: errE}[in.eqf]
				if in.eqf == 3 {
					ca, cn := CondAlias(mkCond()), mkCond()
					if msg := c14TypedVerdicts(func(x any) error { return in.cd.IsEqual(x) }, mkCond(), ca, &ca, &cn, in.cd); msg != "" {
						bad("cond-isequal-comparand", "%s", msg)
					}
				} else if got := in.cd.IsEqual(in.cd); got != wantEq {
					bad("cond-isequal-self", "IsEqual(itself)=%v want %v (equality closure state %d)", got, wantEq, in.eqf)
				}
				if in.eqf != 3 && eq != wantEq {
					bad("cond-isequal", "IsEqual(copy)=%v want %v (equality closure state %d)", eq, wantEq, in.eqf)
				}
				if in.eqf == 0 {
					if e := in.cd.IsEqual(stackage.Cond("other!", stackage.Eq, "val")); e == nil {
						bad("cond-isequal", "built-in IsEqual accepts a different Condition after the closure was removed")
					}
				}
				if in.eqf == 0 {
					// the comparand's own closures are the comparand's business: without a closure on the receiver the
					// built-in comparison decides, whatever the other side has installed
					if e := in.cd.IsEqual(mkCond().SetEqualityPolicy(func(any, any) error { return errE })); e != nil {
						bad("cond-isequal-foreign-closure", "IsEqual(equal Condition that carries a rejecting equality closure of its own)=%v, want nil: the receiver has no closure", e)
					}
					if e := in.cd.IsEqual(stackage.Cond("other!", stackage.Eq, "val").SetEqualityPolicy(func(any, any) error { return nil })); e == nil {
						bad("cond-isequal-foreign-closure", "IsEqual(different Condition that carries an accept-everything equality closure of its own)=nil: the receiver has no closure, the built-in comparison decides")
					}
				}
				if msg := c14Nested(in.cd, mkCond(), stackage.Cond("other!", stackage.Eq, "val"), in.eqf); msg != "" {
					bad("cond-isequal-nested", "%s", msg)
				}
				u, uerr := in.cd.Unmarshal()
				tu, _ := in.ct.Unmarshal()
				if in.umf && in.umfFour {
					if uerr != nil || len(u) != 4 || u[0] != "CONDITION" || u[1] != "kw" || u[2] != any(stackage.Eq) {
						bad("cond-unmarshal", "Unmarshal()=%v,%v want the closure's own four values", u, uerr)
					} else if st, isStack := u[3].(stackage.Stack); !isStack || st.Addr() != c14RawStack.Addr() {
						bad("cond-unmarshal", "Unmarshal() hands out %T in the fourth slot, want the very Stack the closure put there (the closure's result is the result)", u[3])
					}
				} else if in.umf {
					if (uerr != nil) != in.umfPartial || (in.umfPartial && uerr != errU) || len(u) != 1 || u[0] != "UNMARSHALED" {
						bad("cond-unmarshal", "Unmarshal()=%v,%v want the closure's result (slice and error exactly as the closure hands them back; partial+error variant: %v)", u, uerr, in.umfPartial)
					}
				} else if !reflect.DeepEqual(u, tu) {
					bad("cond-unmarshal", "Unmarshal()=%v want the built-in %v", u, tu)
				}
				// the same Condition as an element of a Stack: the Stack's Unmarshal asks the Condition, and the
				// Condition asks its closure
				if pu, perr := stackage.List().Push("x", in.cd).Unmarshal(); len(pu) == 3 {
					row, _ := pu[2].([]any)
					if in.umf && in.umfFour {
						if len(row) != 4 {
							bad("cond-unmarshal-nested", "as an element of a LIST: the LIST's Unmarshal hands out %v for it, want the four values of the Condition's own closure", pu[2])
						} else if st, isStack := row[3].(stackage.Stack); !isStack || st.Addr() != c14RawStack.Addr() {
							bad("cond-unmarshal-nested", "as an element of a LIST: the fourth value of the Condition's row is %T, want the very Stack its closure put there", row[3])
						}
					} else if in.umf && !in.umfPartial && (len(row) != 1 || row[0] != "UNMARSHALED") {
						bad("cond-unmarshal-nested", "as an element of a LIST: the LIST's Unmarshal hands out %v for it (err %v), want the result of the Condition's own unmarshal closure", pu[2], perr)
					} else if !in.umf && !reflect.DeepEqual(pu[2], any(tu)) {
						bad("cond-unmarshal-nested", "as an element of a LIST: the LIST's Unmarshal hands out %v for it, want the built-in row %v", pu[2], tu)
					}
				} else if !in.umfPartial {
					bad("cond-unmarshal-nested", "as an element of a LIST: the LIST's Unmarshal gives %v (err %v), want label + two entries", pu, perr)
				}
				ev, eerr := in.cd.Evaluate(1, 2)
				if in.evl {
					if ev != "EVALUATED" || eerr != nil {
						bad("cond-evaluate", "Evaluate()=%v,%v want the evaluator's result", ev, eerr)
					}
					for _, args := range [][]any{{}, {[]any{1, 2}}, {nil}, {"x", 3.5, in.cd}} {
						got, _ := in.cd.Evaluate(args...)
						if want, _ := c14Evaluator(args...); got != want {
							bad("cond-evaluate-arguments", "Evaluate(%s)=%v want what the evaluator answers for these arguments: %v", describeArgs(args[:min(len(args), 2)]), got, want)
							break
						}
					}
				} else if eerr == nil || ev != nil {
					bad("cond-evaluate", "Evaluate()=%v,%v without evaluator, want (nil, error)", ev, eerr)
				}
				c.Nontrivial(name + ops[i].name + fmt.Sprint(in.vpf, in.rpf, in.eqf, in.umf, in.evl))
				c.Outcome(fmt.Sprint("c", in.vpf, in.rpf, in.eqf, in.umf, in.evl))
				return out
			}
			s := in.s
			verr := s.Valid()
			if (in.vpf == 2) != (verr != nil) {
				bad("valid", "Valid()=%v with validity closure state %d", verr, in.vpf)
			}
			wantStr := in.tw.String()
			if in.rpf {
				wantStr = c14Presented[in.rpfEmpty]
			}
			if in.vpf == 2 || in.kind == "BASIC" {
				wantStr = ""
			}
			if got := s.String(); got != wantStr {
				bad("string", "String()=%q want %q (presentation %v validity %d kind %s)", got, wantStr, in.rpf, in.vpf, in.kind)
			}
			if in.kind == "BASIC" {
				if in.basicRefused && s.Err() == nil {
					bad("basic-presentation", "a BASIC stack accepted SetPresentationPolicy without recording an error")
				}
				if d := stackage.VerifDump(s); d.Funcs[3] != 0 {
					bad("basic-presentation", "a BASIC stack stored a presentation policy")
				}
			}
			eq := s.IsEqual(in.tw)
			wantEq := map[int]error{0: nil, 1: nil, 2: errE}[in.eqf]
			// the closure decides for every comparand, the receiver itself (or an alias of it) included
			if in.eqf == 3 {
				ta, tn := StackAlias(in.tw), in.tw
				if msg := c14TypedVerdicts(func(x any) error { return s.IsEqual(x) }, in.tw, ta, &ta, &tn, s, StackAlias(s)); msg != "" {
					bad("isequal-comparand", "%s", msg)
				}
			}
			for what, self := range map[string]any{"itself": s, "an alias of itself": StackAlias(s), "a pointer to itself": &s} {
				if in.eqf == 3 {
					break
				}
				if got := s.IsEqual(self); got != wantEq {
					bad("isequal-self", "IsEqual(%s)=%v want %v (equality closure state %d)", what, got, wantEq, in.eqf)
				}
			}
			if in.eqf == 0 && in.extra == 0 {
				twinRej := newStackKind(in.kind).Push("a", stackage.Cond("k", stackage.Eq, "v"), "b").SetEqualityPolicy(func(any, any) error { return errE })
				if deco {
					twinRej = decorate(newStackKind(in.kind)).SetMutex().Push("a", stackage.Cond("k", stackage.Eq, "v"), "b").SetEqualityPolicy(func(any, any) error { return errE })
				}
				if e := s.IsEqual(twinRej); e != nil {
					bad("isequal-foreign-closure", "IsEqual(equal stack that carries a rejecting equality closure of its own)=%v, want nil: the receiver has no closure", e)
				}
				otherAcc := newStackKind(in.kind).Push("a", "something else").SetEqualityPolicy(func(any, any) error { return nil })
				if e := s.IsEqual(otherAcc); e == nil {
					bad("isequal-foreign-closure", "IsEqual(different stack that carries an accept-everything equality closure of its own)=nil: the receiver has no closure, the built-in comparison decides")
				}
			}
			if in.eqf == 0 && in.extra > 0 {
				if eq == nil {
					bad("isequal", "built-in IsEqual accepts a stack with %d extra elements", in.extra)
				}
			} else if in.eqf != 3 && eq != wantEq {
				bad("isequal", "IsEqual(twin)=%v want %v (equality closure state %d)", eq, wantEq, in.eqf)
			}
			if in.extra == 0 {
				if msg := c14Nested(s, in.tw, newStackKind(in.kind).Push("a", "something else"), in.eqf); msg != "" {
					bad("isequal-nested", "%s", msg)
				}
			}
			u, uerr := s.Unmarshal()
			if in.umf {
				if (uerr != nil) != in.umfPartial || (in.umfPartial && uerr != errU) || len(u) != 1 || u[0] != "UNMARSHALED" {
					bad("unmarshal", "Unmarshal()=%v,%v want the closure's result (slice and error exactly as the closure hands them back; partial+error variant: %v)", u, uerr, in.umfPartial)
				}
			} else if tu, _ := in.tw.Unmarshal(); in.extra == 0 && !reflect.DeepEqual(u, tu) {
				bad("unmarshal", "Unmarshal()=%v want the built-in %v", u, tu)
			}
			// Marshal-into: the closure's result, or the built-in behaviour (one new element)
			n := s.Len()
			st := s
			merr := st.Marshal("OR", "m")
			if in.maf {
				if merr != errM || s.Len() != n {
					bad("marshal", "Marshal()=%v Len %d->%d, want the marshal closure's error and no change", merr, n, s.Len())
				}
				// the closure's result for exactly the caller's arguments, whatever their shape
				for _, args := range [][]any{{[]any{"OR", "m"}}, {[]any{}}, {[]any{[]any{"OR", "m"}}}, {"OR"}, {nil}, {[]any{"OR", "m"}, "tail"}} {
					got, want := st.Marshal(args...), c14Marshaler(args...)
					if got == nil || got.Error() != want.Error() || s.Len() != n {
						bad("marshal-arguments", "Marshal(%s)=%v Len %d->%d, want what the closure answers for these arguments: %v", describeArgs(args), got, n, s.Len(), want)
						break
					}
				}
			} else if in.ro {
				if s.Len() != n {
					bad("marshal", "built-in Marshal() into a read-only stack: Len %d->%d", n, s.Len())
				}
			} else {
				if merr != nil || s.Len() != n+1 {
					bad("marshal", "built-in Marshal()=%v Len %d->%d, want nil and one new element", merr, n, s.Len())
				} else {
					s.Pop() // keep the state finite
				}
			}
			c.Nontrivial(name + ops[i].name + fmt.Sprint(in.vpf, in.rpf, in.eqf, in.umf, in.maf))
			c.Outcome(fmt.Sprint(kind, in.vpf, in.rpf, in.eqf, in.umf, in.maf))
			return out
		},
		Key: func(in *polInst) string {
			if isCond {
				return stackage.VerifDump(in.cd).Key(false) + fmt.Sprint("|model:", in.vpf, in.rpf, in.rpfEmpty, in.eqf, in.umf, in.umfPartial, in.umfFour, in.evl, in.ro)
			}
			return stackage.VerifDump(in.s).Key(false) + fmt.Sprint("|model:", in.vpf, in.rpf, in.rpfEmpty, in.eqf, in.umf, in.umfPartial, in.maf, in.ro, in.basicRefused)
		},
	}
}

// c14Nested: the instance carrying the equality closure is compared as PART of something else (an element
// of a Stack, a Condition's expression, an entry of a slice leaf), on the receiver's side: its closure (or,
// without one, the built-in comparison) gives the verdict there too. same is an equal instance without
// closure, other a different one.
// c14EqTyped is an equality closure whose verdict depends on what it is handed: IsEqual(x) "returns that
// closure's result" means the closure's result for the caller's x.
func c14EqTyped(a, b any) error { return fmt.Errorf("equality closure was handed a %T", b) }

func c14TypedVerdicts(isEqual func(any) error, comparands ...any) string {
	for _, x := range comparands {
		got, want := isEqual(x), c14EqTyped(nil, x)
		if got == nil || got.Error() != want.Error() {
			return fmt.Sprintf("IsEqual(%T)=%v, want the equality closure's answer for that very comparand: %v", x, got, want)
		}
	}
	return ""
}

func c14Nested(x, same, other any, eqf int) string {
	wrap := []struct {
		n string
		f func(v any) any
	}{
		{"an element of a LIST", func(v any) any { return stackage.List().Push("x", v) }},
		{"the only element of an AND", func(v any) any { return stackage.And().Push(v) }},
		{"a Condition's expression", func(v any) any { return stackage.Cond("k", stackage.Eq, v) }},
		{"an entry of a []any leaf", func(v any) any { return stackage.List().Push([]any{"x", v}) }},
	}
	for _, w := range wrap {
		for _, cmp := range []struct {
			n    string
			v    any
			same bool
		}{{"an equal instance", same, true}, {"a different instance", other, false}} {
			var err error
			switch a := w.f(x).(type) {
			case stackage.Stack:
				err = a.IsEqual(w.f(cmp.v))
			case stackage.Condition:
				err = a.IsEqual(w.f(cmp.v))
			}
			wantNil := map[int]bool{0: cmp.same, 1: true, 2: false, 3: false}[eqf]
			if (err == nil) != wantNil {
				return fmt.Sprintf("as %s, compared with %s in the same place: IsEqual=%v, want nil=%v (equality closure state %d: 0 none, 1 answers nil, 2 answers an error)", w.n, cmp.n, err, wantNil, eqf)
			}
		}
	}
	return ""
}

func init() {
	register(&Check{ID: "C14", Engine: "A/B", Run: func(c *Ctx) {
		installLockModel()
		cases := c14PushCases(c)
		parallelFor(len(cases), func(i int) { c14PushRun(c, cases[i], true) })
		c.States.Add(int64(len(cases)))
		nw := c14WritingPolicy(c)
		c.States.Add(int64(nw))
		c.Traces.Add(int64(nw))
		c.Evals.Add(int64(nw))
		c.Bound["batches_against_a_policy_that_writes_to_its_own_stack"] = nw
		c.Exhaustive = true
		kinds := append([]string{}, kindNames...)
		kinds = append(kinds, "CONDITION", "CONDITION-invalid", "CONDITION-no-operator", "CONDITION-no-expression", "CONDITION-init-only", "BASIC+decorated", "AND+decorated", "LIST+decorated")
		for _, k := range kinds {
			st := BFS(c, c14PolMachine(c, k))
			c.Exhaustive = c.Exhaustive && st.Complete
			c.Sample(map[string]any{"machine": "closures " + k, "states": st.States, "transitions": st.Transitions, "depth": st.MaxDepth})
		}
		c.Rule = "(push policy) every accept/reject predicate over 4 value classes (string, int, Stack, nil: 16 policies, each logging its calls) x every batch of length 1..3 x capacity none/1/2/3 x pre-filled 0..2 x no-nesting on/off: call log, stored content and Err() compared with the documented rule; (other closures) BFS to fix-point over install (accepting / rejecting / sentinel-returning variants) and both removal forms of validity, presentation, equality, unmarshal, marshal closures (evaluator on Conditions) on all five kinds and on Conditions, checking every dispatch point (Valid, String, IsEqual, Unmarshal, Marshal, Evaluate) in every state against the closure's sentinel or the built-in answer of a twin that never had a closure; non-trivial = push cases with a rejection or a capacity skip + distinct closure (state, operation) pairs"
		c.Bound["push_cases"] = len(cases)
		c.Sample(cases[len(cases)/2])
		c.Assumptions = append(c.Assumptions, "closures are pure and total")
	}, Replay: func(c *Ctx, raw json.RawMessage) {
		var hc histCase
		if json.Unmarshal(raw, &hc) == nil && hc.Machine != "" {
			replayHistory(c, c14PolMachine(c, strings.TrimPrefix(hc.Machine, "C14 closures ")), hc.History, hc.Observed)
			return
		}
		var cs c14PushCase
		json.Unmarshal(raw, &cs)
		c14PushRun(c, cs, false)
	}})
}
