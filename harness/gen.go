package main

import (
	"fmt"
	"log"
	"reflect"
	"runtime/debug"
	"strings"

	stackage "github.com/JesseCoretta/go-stackage"
)

// Engine B helpers: user-declared alias types, panic capture, small enumerators.

// User-declared types derived from Stack / Condition, with and without their own String.
type (
	StackAlias  stackage.Stack
	StackAliasS stackage.Stack
	CondAlias   stackage.Condition
	CondAliasS  stackage.Condition
)

// The aliases' own String methods deliberately differ from the native rendering: the library must
// treat an alias exactly like the native value it converts to, not call the user's stringer.
func (a StackAliasS) String() string { return "<StackAliasS.String>" }
func (a CondAliasS) String() string  { return "<CondAliasS.String>" }

// StackAliasF / CondAliasF wrap every method of the package's exported Interface, the way the README tells
// users to ("wrap all of the package-provided methods"): values of these types satisfy stackage.Interface
// without being a Stack or a Condition.
type (
	StackAliasF stackage.Stack
	CondAliasF  stackage.Condition
)

func (a StackAliasF) Len() int                  { return stackage.Stack(a).Len() }
func (a StackAliasF) IsInit() bool              { return stackage.Stack(a).IsInit() }
func (a StackAliasF) IsFIFO() bool              { return stackage.Stack(a).IsFIFO() }
func (a StackAliasF) IsZero() bool              { return stackage.Stack(a).IsZero() }
func (a StackAliasF) IsEqual(x any) error       { return stackage.Stack(a).IsEqual(x) }
func (a StackAliasF) IsParen() bool             { return stackage.Stack(a).IsParen() }
func (a StackAliasF) IsEncap() bool             { return stackage.Stack(a).IsEncap() }
func (a StackAliasF) IsPadded() bool            { return stackage.Stack(a).IsPadded() }
func (a StackAliasF) IsNesting() bool           { return stackage.Stack(a).IsNesting() }
func (a StackAliasF) Unmarshal() ([]any, error) { return stackage.Stack(a).Unmarshal() }
func (a StackAliasF) CanNest() bool             { return stackage.Stack(a).CanNest() }
func (a StackAliasF) ID() string                { return stackage.Stack(a).ID() }
func (a StackAliasF) Addr() string              { return stackage.Stack(a).Addr() }
func (a StackAliasF) String() string            { return stackage.Stack(a).String() }
func (a StackAliasF) Category() string          { return stackage.Stack(a).Category() }
func (a StackAliasF) Err() error                { return stackage.Stack(a).Err() }
func (a StackAliasF) Valid() error              { return stackage.Stack(a).Valid() }
func (a StackAliasF) Logger() *log.Logger       { return stackage.Stack(a).Logger() }

func (a CondAliasF) Len() int                  { return stackage.Condition(a).Len() }
func (a CondAliasF) IsInit() bool              { return stackage.Condition(a).IsInit() }
func (a CondAliasF) IsFIFO() bool              { return stackage.Condition(a).IsFIFO() }
func (a CondAliasF) IsZero() bool              { return stackage.Condition(a).IsZero() }
func (a CondAliasF) IsEqual(x any) error       { return stackage.Condition(a).IsEqual(x) }
func (a CondAliasF) IsParen() bool             { return stackage.Condition(a).IsParen() }
func (a CondAliasF) IsEncap() bool             { return stackage.Condition(a).IsEncap() }
func (a CondAliasF) IsPadded() bool            { return stackage.Condition(a).IsPadded() }
func (a CondAliasF) IsNesting() bool           { return stackage.Condition(a).IsNesting() }
func (a CondAliasF) Unmarshal() ([]any, error) { return stackage.Condition(a).Unmarshal() }
func (a CondAliasF) CanNest() bool             { return stackage.Condition(a).CanNest() }
func (a CondAliasF) ID() string                { return stackage.Condition(a).ID() }
func (a CondAliasF) Addr() string              { return stackage.Condition(a).Addr() }
func (a CondAliasF) String() string            { return stackage.Condition(a).String() }
func (a CondAliasF) Category() string          { return stackage.Condition(a).Category() }
func (a CondAliasF) Err() error                { return stackage.Condition(a).Err() }
func (a CondAliasF) Valid() error              { return stackage.Condition(a).Valid() }
func (a CondAliasF) Logger() *log.Logger       { return stackage.Condition(a).Logger() }

var (
	_ stackage.Interface = StackAliasF{}
	_ stackage.Interface = CondAliasF{}
)

// userOp is a user-defined Operator.
type userOp struct{ text, ctx string }

func (o userOp) String() string  { return o.text }
func (o userOp) Context() string { return o.ctx }

// zeroOp and enumOp are user-defined Operators whose value is the ZERO value of its type (an empty struct;
// the first constant of an enumeration): operators like any other.
type zeroOp struct{}

func (zeroOp) String() string  { return "~=" }
func (zeroOp) Context() string { return "approx" }

type enumOp int

func (e enumOp) String() string  { return [...]string{"=~", "!~"}[int(e)%2] }
func (e enumOp) Context() string { return "pattern" }

// ptrOp is a user-defined Operator with pointer receiver (a nil *ptrOp is a typed nil).
type ptrOp struct{ text string }

func (o *ptrOp) String() string  { return o.text }
func (o *ptrOp) Context() string { return "ptr" }

// mapOp and funcOp are user-defined Operators of reference kinds whose nil value is a perfectly good
// operator (their methods do not touch the value).
type mapOp map[string]string

func (o mapOp) String() string  { return "=map=" }
func (o mapOp) Context() string { return "map-operator" }

type funcOp func()

func (o funcOp) String() string  { return "=fn=" }
func (o funcOp) Context() string { return "func-operator" }

// sliceOp is a user-defined Operator of an uncomparable type (comparing two of them with == panics).
type sliceOp []string

func (o sliceOp) String() string  { return o[0] }
func (o sliceOp) Context() string { return o[1] }

// strer is a plain Stringer value.
type strer struct{ s string }

func (s strer) String() string { return s.s }

// noPanic runs f and returns a description of the panic, if any.
func noPanic(f func()) (msg string) {
	defer func() {
		if r := recover(); r != nil {
			msg = fmt.Sprintf("%v\n%s", r, shortStack(debug.Stack()))
		}
	}()
	f()
	return ""
}

// dumpKey is the exact (addresses included) raw state of a live structure.
func dumpKey(x any) string { return stackage.VerifDump(x).Key(true) }

// nilPatterns enumerates all nil/non-nil patterns of length n as bit masks (bit i set = slot i non-nil).
func patternValues(n int, mask int, prefix string) []any {
	out := make([]any, n)
	for i := 0; i < n; i++ {
		if mask&(1<<i) != 0 {
			out[i] = fmt.Sprintf("%s%d", prefix, i)
		}
	}
	return out
}

func contents(s stackage.Stack) []any {
	d := stackage.VerifDump(s)
	out := make([]any, 0, len(d.Slots))
	for _, sl := range d.Slots {
		out = append(out, sl.Raw)
	}
	return out
}

func sameList(a, b []any) bool {
	if len(a) != len(b) {
		return false
	}
	for i := range a {
		if diffAny(a[i], b[i]) {
			return false
		}
	}
	return true
}

// diffAny is != for element values, also for those Go cannot compare (slices, maps, structs holding
// one): these are compared deeply, which for values carrying fresh tokens is identity.
func diffAny(a, b any) bool {
	if a == nil || b == nil {
		return a != b
	}
	ta, tb := reflect.TypeOf(a), reflect.TypeOf(b)
	if ta != tb {
		return true
	}
	if ta.Comparable() {
		defer func() { recover() }() // a comparable struct type may still hold an interface with a slice in it
		return a != b
	}
	return !reflect.DeepEqual(a, b)
}

// decorate switches on every setting that has no bearing on content semantics (presentation options,
// identifiers, auxiliary data, log level, a comparison function): list behaviour, nesting rules,
// transfer, defragmentation and traversal must not depend on any of them.
func decorate(s stackage.Stack) stackage.Stack {
	s.SetParen(true).SetFold(true).SetLeadOnce(true).SetNoPadding(true).SetSymbol("vel").SetDelimiter(";").SetEncap(`"`, []string{"<", ">"})
	s.SetID("decorated").SetCategory("cat").SetAuxiliary(stackage.Auxiliary{"k": 1}).SetLogLevel(stackage.LogLevel3, stackage.LogLevel5).SetLogger("off")
	s.SetLessFunc(func(i, j int) bool { return i < j })
	return s
}

// fillModes is the number of construction histories fill knows.
const fillModes = 10

// fill gives s the content vals through one of several operation histories that all end in the same
// logical content (start from non-initial states: a property about a tree must not depend on how the
// tree was assembled). The stack must be empty, LIFO, without capacity pressure and not no-nesting.
func fill(s stackage.Stack, vals []any, mode int) {
	hasNil := false
	for _, v := range vals {
		if v == nil {
			hasNil = true
		}
	}
	if cp := s.Cap(); cp > 0 && cp < len(vals)+2 {
		mode = 0
	}
	switch mode % fillModes {
	case 1: // one Push per element
		for _, v := range vals {
			s.Push(v)
		}
	case 2: // Insert at the front, last element first (Insert refuses nil values)
		if hasNil {
			s.Push(vals...)
			return
		}
		for i := len(vals) - 1; i >= 0; i-- {
			s.Insert(vals[i], 0)
		}
	case 3: // junk in front, removed afterwards
		s.Push("junk-a", "junk-b")
		s.Push(vals...)
		s.Remove(0)
		s.Remove(0)
	case 4: // junk behind, popped afterwards
		s.Push(vals...)
		s.Push("junk-z", "junk-y")
		s.Pop()
		s.Pop()
	case 5: // placeholders replaced one by one (Replace refuses nil values)
		if hasNil {
			s.Push(vals...)
			return
		}
		for range vals {
			s.Push("placeholder")
		}
		for i, v := range vals {
			s.Replace(v, i)
		}
	case 6: // pushed in reverse, then reversed
		for i := len(vals) - 1; i >= 0; i-- {
			s.Push(vals[i])
		}
		s.Reverse()
	case 7: // filled, reset, filled again
		s.Push(vals...)
		s.Push("extra")
		s.Reset()
		s.Push(vals...)
	case 8, 9: // every removable closure installed and removed again (mode 9: by an explicit nil) before the content arrives
		basic := s.Kind() == "LIST"
		s.SetEqualityPolicy(func(a, b any) error { return errCat })
		s.SetValidityPolicy(func(...any) error { return errCat })
		s.SetPushPolicy(func(...any) error { return errCat })
		s.SetMarshaler(func(...any) error { return errCat })
		s.SetUnmarshaler(func(...any) ([]any, error) { return nil, errCat })
		if !basic {
			s.SetPresentationPolicy(func(...any) string { return "never" })
		}
		if mode%fillModes == 8 {
			s.SetEqualityPolicy().SetMarshaler().SetUnmarshaler()
		} else {
			s.SetEqualityPolicy(nil).SetMarshaler(nil).SetUnmarshaler(nil)
		}
		s.SetValidityPolicy(nil).SetPushPolicy(nil)
		if !basic {
			s.SetPresentationPolicy(nil)
		}
		s.Push(vals...)
	default:
		s.Push(vals...)
	}
}

// condModes is the number of construction histories condHistory knows.
const condModes = 7

// condHistory builds the Condition (kw op ex) through one of several histories that all end in the
// same logical Condition: set piecemeal, or with an earlier expression / keyword / operator replaced.
func condHistory(kw any, op stackage.Operator, ex any, mode int) stackage.Condition {
	if ex == nil || isNilPtr(ex) {
		return stackage.Cond(kw, op, ex)
	}
	if direct := stackage.Cond(kw, op, ex); direct.Expression() == nil {
		return direct // a value that no Condition accepts (e.g. ""): there is no history to vary
	}
	switch mode % condModes {
	case 1:
		var c stackage.Condition
		c.Init()
		c.SetKeyword(kw)
		c.SetOperator(op)
		c.SetExpression(ex)
		return c
	case 2:
		return stackage.Cond(kw, op, StackAlias(stackage.And().Push("old"))).SetExpression(ex)
	case 3:
		return stackage.Cond(kw, op, stackage.Or().Push("old", "older")).SetExpression(ex)
	case 4:
		return stackage.Cond(kw, op, "old").SetExpression(ex)
	case 5:
		a := StackAliasS(stackage.List().Push("old", "older", "oldest"))
		return stackage.Cond(kw, op, &a).SetExpression(ex)
	case 6:
		return stackage.Cond("other", stackage.Ne, ex).SetKeyword(kw).SetOperator(op)
	}
	return stackage.Cond(kw, op, ex)
}

func isNilPtr(x any) bool {
	v := reflect.ValueOf(x)
	return v.Kind() == reflect.Ptr && v.IsNil()
}

// refAsStack / refAsCond are the harness's own answer to "is this value a live Stack / Condition (or an
// alias of one, or a non-nil pointer to either)": plain type switches over the types the harness itself
// puts into trees. The reference walks use them instead of the library's ConvertStack /
// ConvertCondition, so that a defect in the library's converters cannot hide inside the oracle.
// peelPointers strips all but the last pointer level (***T -> *T): a pointer to a pointer to ... a Stack
// leads to that Stack, however many hops it takes; a nil hop leads nowhere.
func peelPointers(v any) any {
	if v == nil {
		return nil
	}
	rv := reflect.ValueOf(v)
	for hops := 0; rv.Kind() == reflect.Ptr && rv.Type().Elem().Kind() == reflect.Ptr; hops++ {
		if rv.IsNil() || hops > 16 { // (type P *P tied to itself leads nowhere either)
			return nil
		}
		rv = rv.Elem()
	}
	if rv.Kind() == reflect.Ptr && rv.IsNil() {
		return v
	}
	if rv.Kind() == reflect.Ptr && rv.Type().Name() != "" {
		// a declared pointer type (type StackRef *Stack) is a pointer like any other
		rv = rv.Convert(reflect.PointerTo(rv.Type().Elem()))
	}
	return rv.Interface()
}

// deepPointer puts n pointer levels above v (n >= 1).
func deepPointer(v any, n int) any {
	rv := reflect.ValueOf(v)
	for i := 0; i < n; i++ {
		p := reflect.New(rv.Type())
		p.Elem().Set(rv)
		rv = p
	}
	return rv.Interface()
}

// Declared pointer types: pointers like any other, whatever they are called.
type (
	StackRef *stackage.Stack
	AliasRef *StackAlias
	CondRef  *stackage.Condition
)

func refAsStack(v any) (stackage.Stack, bool) {
	var s stackage.Stack
	v = peelPointers(v)
	switch tv := v.(type) {
	case stackage.Stack:
		s = tv
	case *stackage.Stack:
		if tv == nil {
			return s, false
		}
		s = *tv
	case StackAlias:
		s = stackage.Stack(tv)
	case *StackAlias:
		if tv == nil {
			return s, false
		}
		s = stackage.Stack(*tv)
	case StackAliasS:
		s = stackage.Stack(tv)
	case *StackAliasS:
		if tv == nil {
			return s, false
		}
		s = stackage.Stack(*tv)
	default:
		// any other type declared over Stack (and a pointer to one)
		rv := reflect.ValueOf(v)
		if rv.Kind() == reflect.Ptr {
			if rv.IsNil() {
				return s, false
			}
			rv = rv.Elem()
		}
		if rv.Kind() != reflect.Struct || !rv.Type().ConvertibleTo(stackType) {
			return s, false
		}
		s = rv.Convert(stackType).Interface().(stackage.Stack)
	}
	if hollowHandle(s) {
		return stackage.Stack{}, false
	}
	return s, true
}

// hollowHandle: the handle's embedded pointer is nil (zero or freed instance). Read by reflection, so
// that neither the library nor a recursive dump is involved (the structure may contain itself).
func hollowHandle(h any) bool {
	v := reflect.ValueOf(h)
	return v.Kind() == reflect.Struct && v.NumField() == 1 && v.Field(0).Kind() == reflect.Ptr && v.Field(0).IsNil()
}

func refAsCond(v any) (stackage.Condition, bool) {
	var c stackage.Condition
	v = peelPointers(v)
	switch tv := v.(type) {
	case stackage.Condition:
		c = tv
	case *stackage.Condition:
		if tv == nil {
			return c, false
		}
		c = *tv
	case CondAlias:
		c = stackage.Condition(tv)
	case *CondAlias:
		if tv == nil {
			return c, false
		}
		c = stackage.Condition(*tv)
	case CondAliasS:
		c = stackage.Condition(tv)
	case *CondAliasS:
		if tv == nil {
			return c, false
		}
		c = stackage.Condition(*tv)
	default:
		rv := reflect.ValueOf(v)
		if rv.Kind() == reflect.Ptr {
			if rv.IsNil() {
				return c, false
			}
			rv = rv.Elem()
		}
		if rv.Kind() != reflect.Struct || !rv.Type().ConvertibleTo(condType) {
			return c, false
		}
		c = rv.Convert(condType).Interface().(stackage.Condition)
	}
	if hollowHandle(c) {
		return stackage.Condition{}, false
	}
	return c, true
}

// Alias types that the library first meets in hollow form (a nil pointer, a zero value) - the opposite
// order from the other alias types, whose live values are everywhere. hollowFirst must run before
// anything else in the process touches them.
type (
	StackAliasLateP stackage.Stack     // first seen as a nil pointer
	StackAliasLateZ stackage.Stack     // first seen as a zero value
	CondAliasLateP  stackage.Condition // first seen as a nil pointer
	CondAliasLateZ  stackage.Condition // first seen as a zero value
)

// envPrelude runs at the start of every check, before anything else touches the library: the package gets
// to see hollow values (zero values, nil pointers, pointers to zero values) of every handle type the
// checks use - the native ones, the harness's alias types and pointers to them - through every entry
// point that inspects an element. Whatever the package concludes from them must be a conclusion about
// those VALUES: every check then works with live values of the same types. Nothing is asserted here.
func envPrelude() {
	noPanic(func() {
		var zs stackage.Stack
		var zc stackage.Condition
		var za StackAlias
		var zas StackAliasS
		var zca CondAlias
		var zcas CondAliasS
		pzs, pza := &zs, &za
		hollow := []any{zs, zc, za, zas, zca, zcas, &zs, &zc, &za, &zas, &zca, &zcas, &pzs, &pza,
			(*stackage.Stack)(nil), (*stackage.Condition)(nil), (*StackAlias)(nil), (*StackAliasS)(nil), (*CondAlias)(nil), (*CondAliasS)(nil),
			(**stackage.Stack)(nil), (**StackAlias)(nil), (*int)(nil), (*string)(nil)}
		for _, h := range hollow {
			h := h
			noPanic(func() {
				stackage.ConvertStack(h)
				stackage.ConvertCondition(h)
				p := stackage.And().Push("a", h, "b")
				n := stackage.Or().SetNoNesting(true).Push(h)
				_ = p.String()
				p.IsNesting()
				n.IsNesting()
				p.Unmarshal()
				p.IsEqual(stackage.And().Push("a", h, "b"))
				p.Traverse(1, 0)
				p.Less(1, 0)
				p.Valid()
				p.Defrag()
				p.Reveal()
				stackage.List().Push("x").Transfer(h)
				cd := stackage.Cond("k", stackage.Eq, h)
				_ = cd.String()
				cd.IsNesting()
				cd.Len()
				cd.Unmarshal()
				cd.IsEqual(stackage.Cond("k", stackage.Eq, h))
				var m stackage.Stack
				m.Marshal("AND", h)
			})
		}
	})
}

// Same-named types: Go lets two functions declare local types with one name; both print as
// "main.item" / "main.clause", and nothing but their name is the same.
func sameNamePlainItem(v string) any           { type item string; return item(v) }
func sameNameAliasItem(s stackage.Stack) any   { type item stackage.Stack; return item(s) }
func sameNameAliasClause(s stackage.Stack) any { type clause stackage.Stack; return clause(s) }
func sameNamePlainClause(v string) any         { type clause string; return clause(v) }

// sameNamedTypes: a plain type seen first and an alias type of the same name afterwards, and the other
// way round with another name. It returns what went wrong ("" if nothing did).
func sameNamedTypes() string {
	var bad []string
	p := noPanic(func() {
		// "item": the plain one first, offered to a no-nesting stack
		a := stackage.And().SetNoNesting(true).Push(sameNamePlainItem("just text"))
		_ = a.String()
		alias := sameNameAliasItem(stackage.And().Push("x"))
		b := stackage.And().SetNoNesting(true).Push("text", alias, 42)
		if b.Len() != 2 || b.IsNesting() {
			bad = append(bad, fmt.Sprintf("a no-nesting stack stored a Stack alias whose type has the same name as a plain type seen earlier (Len %d want 2, IsNesting %v)", b.Len(), b.IsNesting()))
		}
		c := stackage.Or().Push("a", alias)
		if !c.IsNesting() {
			bad = append(bad, "IsNesting false for a stack holding a Stack alias whose type has the same name as a plain type seen earlier")
		}
		if v, ok := c.Traverse(1, 0); !ok || v != "x" {
			bad = append(bad, fmt.Sprintf("Traverse(1,0) through such an alias = (%v,%v)", v, ok))
		}
		if _, ok := stackage.ConvertStack(alias); !ok {
			bad = append(bad, "ConvertStack false for such an alias")
		}
		// "clause": the alias one first (rendered, revealed), then plain leaves of the same type name
		first := stackage.And().Push(sameNameAliasClause(stackage.Or().Push("in")), "z")
		_ = first.String()
		first.Reveal()
		tree := stackage.Or().Push(sameNamePlainClause("top"), stackage.And().Push(stackage.Or().Push(stackage.Cond("k", stackage.Eq, "v"))), sameNamePlainClause("person"))
		tree.Reveal()
		if tree.IsNesting() != true || tree.Len() != 3 {
			bad = append(bad, fmt.Sprintf("after Reveal a tree holding plain leaves (whose type shares its name with an alias type seen earlier) has Len %d", tree.Len()))
		}
		_ = tree.String()
		tree.Unmarshal()
		tree.IsEqual(tree)
		tree.Defrag()
		n := stackage.List().SetNoNesting(true).Push(sameNamePlainClause("kept"))
		if n.Len() != 1 {
			bad = append(bad, "a no-nesting stack refused a plain value whose type shares its name with an alias type seen earlier")
		}
	})
	if p != "" {
		bad = append(bad, "panic: "+p)
	}
	return strings.Join(bad, "; ")
}

// Two struct types of the same printed name (function-local declarations) and the same number of fields
// whose exported / unexported layout differs.
func sameNameRowA(seq int, note string) any {
	type Row struct {
		Seq  int
		note string
	}
	return Row{seq, note}
}

func sameNameRowB(seq int, note string) any {
	type Row struct {
		seq  int
		Note string
	}
	return Row{seq, note}
}

// sameNamedStructs: IsEqual on struct leaves of the first type, then of the second (and the first again):
// each pair gets the answer it would get if the other type did not exist - exported fields are compared,
// unexported ones skipped, whatever another type of the same name looks like.
func sameNamedStructs() string {
	var bad []string
	check := func(what string, x, y any, wantEqual bool) {
		for dir, pair := range [][2]any{{x, y}, {y, x}} {
			var err error
			if p := noPanic(func() { err = stackage.And().Push("lead", pair[0]).IsEqual(stackage.And().Push("lead", pair[1])) }); p != "" {
				bad = append(bad, fmt.Sprintf("%s (direction %d): IsEqual panicked: %s", what, dir, p))
				return
			}
			if (err == nil) != wantEqual {
				bad = append(bad, fmt.Sprintf("%s (direction %d): IsEqual=%v, want equal=%v", what, dir, err, wantEqual))
				return
			}
		}
	}
	for round := 0; round < 2; round++ {
		check("first Row type, exported field differs", sameNameRowA(1, "x"), sameNameRowA(2, "x"), false)
		check("first Row type, only the unexported field differs", sameNameRowA(1, "x"), sameNameRowA(1, "y"), true)
		check("second Row type (same name, other layout), exported field differs", sameNameRowB(1, "p"), sameNameRowB(1, "q"), false)
		check("second Row type, only the unexported field differs", sameNameRowB(1, "p"), sameNameRowB(2, "p"), true)
	}
	return strings.Join(bad, "; ")
}

// hollowFirst shows the hollow forms to every reading entry point, then checks that live values of the
// same types are recognised. It returns a description of what went wrong ("" if nothing did).
func hollowFirst() string {
	var bad []string
	p := noPanic(func() {
		h := stackage.And().Push((*StackAliasLateP)(nil), StackAliasLateZ{}, (*CondAliasLateP)(nil), CondAliasLateZ{}, "leaf")
		_ = h.String()
		h.IsNesting()
		h.Unmarshal()
		h.IsEqual(h)
		for i := 0; i < h.Len(); i++ {
			h.Traverse(i, 0)
			h.Less(i, 0)
		}
		stackage.Cond("k", stackage.Eq, (*StackAliasLateP)(nil)).IsNesting()
		stackage.Cond("k", stackage.Eq, StackAliasLateZ{}).Len()
		lp, lz := StackAliasLateP(stackage.Or().Push("in")), StackAliasLateZ(stackage.List().Push("in"))
		cp, cz := CondAliasLateP(stackage.Cond("kw", stackage.Eq, "v")), CondAliasLateZ(stackage.Cond("kw", stackage.Ne, "w"))
		for _, x := range []struct {
			n string
			v any
		}{{"pointer to an alias first seen as a nil pointer", &lp}, {"alias first seen as a nil pointer", lp}, {"alias first seen as a zero value", lz}, {"pointer to an alias first seen as a zero value", &lz}} {
			live := stackage.And().Push("a", x.v)
			if !live.IsNesting() {
				bad = append(bad, "IsNesting false for a Stack holding a live "+x.n)
			}
			if v, ok := live.Traverse(1, 0); !ok || v != "in" {
				bad = append(bad, fmt.Sprintf("Traverse(1,0) through a live %s = (%v,%v)", x.n, v, ok))
			}
			if str := live.String(); strings.Contains(str, "UNKNOWN") || !strings.Contains(str, "in") {
				bad = append(bad, fmt.Sprintf("a Stack holding a live %s renders %q", x.n, str))
			}
			if _, ok := stackage.ConvertStack(x.v); !ok {
				bad = append(bad, "ConvertStack false for a live "+x.n)
			}
		}
		for _, x := range []struct {
			n string
			v any
		}{{"pointer to a Condition alias first seen as a nil pointer", &cp}, {"Condition alias first seen as a nil pointer", cp}, {"Condition alias first seen as a zero value", cz}, {"pointer to a Condition alias first seen as a zero value", &cz}} {
			live := stackage.And().Push("a", x.v)
			if str := live.String(); strings.Contains(str, "UNKNOWN") || !strings.Contains(str, "kw") {
				bad = append(bad, fmt.Sprintf("a Stack holding a live %s renders %q", x.n, str))
			}
			if _, ok := stackage.ConvertCondition(x.v); !ok {
				bad = append(bad, "ConvertCondition false for a live "+x.n)
			}
		}
	})
	if p != "" {
		bad = append(bad, "panic: "+p)
	}
	return strings.Join(bad, "; ")
}

// fillMode derives a construction history from a description deterministically.
func fillMode(desc string) int {
	h := 0
	for _, r := range desc {
		h = h*31 + int(r)
	}
	if h < 0 {
		h = -h
	}
	return h % fillModes
}

// refOpText is the reference text of an operator: the six built-in comparison operators are fixed by
// the documentation (op.go), every other ComparisonOperator value is "<invalid_operator>"; user
// operators speak for themselves. The reference renderers use this table rather than the library's
// own ComparisonOperator.String, so that a slip there is visible.
func refOpText(op stackage.Operator) string {
	if co, ok := op.(stackage.ComparisonOperator); ok {
		switch co {
		case 1:
			return "="
		case 2:
			return "!="
		case 3:
			return "<"
		case 4:
			return ">"
		case 5:
			return "<="
		case 6:
			return ">="
		}
		return "<invalid_operator>"
	}
	return op.String()
}
