package main

import (
	"encoding/json"
	"fmt"
	"reflect"
	"sort"
	"strings"
	"sync"

	stackage "github.com/JesseCoretta/go-stackage"
)

// C17 — uninitialised and freed instances are inert, not dangerous (Engine B, reflection-driven).

type c17Case struct {
	Recv   string `json:"receiver"`
	State  string `json:"state"`
	Method string `json:"method"`
	Args   string `json:"args"`
	// Env: the package-level default loggers had been replaced by a live logger beforehand
	Env bool `json:"package_default_loggers_live,omitempty"`
}

// receivers in a given state; every call gets a fresh one
func c17Receiver(recv, state string) any {
	switch recv {
	case "Stack":
		switch state {
		case "zero":
			return stackage.Stack{}
		case "freed":
			s := stackage.And(3).SetMutex().Push("a", stackage.Or().Push("b"))
			s.Free()
			return s
		case "freed-twice":
			s := stackage.List().Push("a")
			s.Free()
			s.Free()
			return s
		}
	case "Condition":
		switch state {
		case "zero":
			return stackage.Condition{}
		case "freed":
			c := stackage.Cond("k", stackage.Eq, stackage.And().Push("v"))
			c.Free()
			return c
		case "freed-twice":
			c := stackage.Cond("k", stackage.Eq, "v")
			c.Free()
			c.Free()
			return c
		case "init-only":
			var c stackage.Condition
			c.Init()
			return c
		}
		if strings.HasPrefix(state, "init-only+") {
			// Init() and nothing but options and closures: still no keyword, operator or expression
			var c stackage.Condition
			c.Init()
			for _, opt := range strings.Split(state, "+")[1:] {
				switch opt {
				case "policy":
					c.SetValidityPolicy(func(...any) error { return nil })
				case "nopad":
					c.SetNoPadding(true)
				case "paren":
					c.SetParen(true)
				case "encap":
					c.SetEncap("'", []string{"<", ">"})
				case "nonest":
					c.SetNoNesting(true)
				case "closures":
					c.SetPresentationPolicy(nil).SetEqualityPolicy(func(any, any) error { return nil }).SetUnmarshaler(nil).SetEvaluator(func(...any) (any, error) { return nil, nil })
				}
			}
			return c
		}
	case "Auxiliary":
		switch state {
		case "nil":
			return stackage.Auxiliary(nil)
		case "empty":
			return stackage.Auxiliary{}
		}
	}
	panic(recv + "/" + state)
}

var c17TrueOnZero = map[string]bool{"IsZero": true, "IsEmpty": true, "IsPadded": true}
var c17Initialisers = map[string]bool{"Stack.Marshal": true, "Condition.Init": true}

func c17Pick(method string) func(t reflect.Type, pos int) []namedValue {
	aw := awkwardAny()
	return func(t reflect.Type, pos int) []namedValue {
		if t == anyType {
			return aw
		}
		if t == opType {
			return []namedValue{{"Eq", reflect.ValueOf(stackage.Eq)}, {"nil-op", reflect.Zero(opType)}, nv("userOp", userOp{"~", "c"}), nv("sliceOp", sliceOp{"=~", "ctx"})}
		}
		if t == intType {
			return []namedValue{nv("0", 0), nv("-1", -1), nv("5", 5)}
		}
		return basicValues(t)
	}
}

// observe renders what every argument-free query of x answers (pointers by address): the view a user
// has of an instance. Used for bystanders: a call on one instance must not be visible on another.
func observe(x any, skipIdentity bool) string {
	pv := reflect.New(reflect.TypeOf(x))
	pv.Elem().Set(reflect.ValueOf(x))
	var b strings.Builder
	name := "Stack"
	if _, ok := x.(stackage.Condition); ok {
		name = "Condition"
	}
	for _, me := range methodsOf(x, name) {
		if me.Type.NumIn() != 0 || !c11IsQuery(me.Name) || me.Type.NumOut() == 0 {
			continue
		}
		if skipIdentity && me.Name == "Addr" {
			continue
		}
		res, p := callMethod(pv, me.Name, nil)
		b.WriteString(me.Name + "=")
		if p != "" {
			b.WriteString("panic")
		}
		for _, r := range res {
			switch r.Kind() {
			case reflect.Ptr, reflect.Func, reflect.Map, reflect.Chan:
				fmt.Fprintf(&b, "%p", r.Interface())
			default:
				if r.Type() == stackType || r.Type() == condType {
					b.WriteString(describeValue(r))
				} else {
					fmt.Fprintf(&b, "%v", r.Interface())
				}
			}
			b.WriteString(",")
		}
		b.WriteString(";")
	}
	return b.String()
}

func c17WantsBystanders(cs c17Case) bool {
	return cs.Recv != "Auxiliary" && (strings.HasPrefix(cs.State, "init-only") || !c11IsQuery(cs.Method))
}

type c17Bystanders struct {
	vals   []any
	before []string
	fresh  string
}

func c17FreshInitOnly() any {
	var c stackage.Condition
	c.Init()
	return c
}

func newBystanders() *c17Bystanders {
	b := &c17Bystanders{vals: []any{c17FreshInitOnly(), stackage.Cond("by", stackage.Eq, "stander"), stackage.And().Push("by", "stander")}}
	for _, v := range b.vals {
		b.before = append(b.before, observe(v, false))
	}
	b.fresh = observe(c17FreshInitOnly(), true)
	return b
}

var c17BystanderNames = []string{"an Init()-only Condition", "an unrelated Condition", "an unrelated Stack"}

// c17Canaries: live instances of every alias form are still recognised for what they are, whatever
// hollow values (zero, freed, nil pointers) of the same types the library was shown before.
func c17Canaries() string {
	sa, ss := StackAlias(stackage.And().Push("live")), StackAliasS(stackage.Or().Push("live"))
	ca, cs := CondAlias(stackage.Cond("k", stackage.Eq, "v")), CondAliasS(stackage.Cond("k", stackage.Ne, "w"))
	ns, nc := stackage.List().Push("n"), stackage.Cond("k", stackage.Ge, 1)
	var bad []string
	for _, x := range []struct {
		n string
		v any
		s bool
	}{{"StackAlias", sa, true}, {"*StackAlias", &sa, true}, {"StackAliasS", ss, true}, {"*StackAliasS", &ss, true}, {"*Stack", &ns, true},
		{"CondAlias", ca, false}, {"*CondAlias", &ca, false}, {"CondAliasS", cs, false}, {"*CondAliasS", &cs, false}, {"*Condition", &nc, false}} {
		if x.s {
			if _, ok := stackage.ConvertStack(x.v); !ok {
				bad = append(bad, "ConvertStack(live "+x.n+") = false")
			}
			if !stackage.And().Push(x.v).IsNesting() {
				bad = append(bad, "a Stack holding a live "+x.n+" is not nesting")
			}
		} else {
			if _, ok := stackage.ConvertCondition(x.v); !ok {
				bad = append(bad, "ConvertCondition(live "+x.n+") = false")
			}
			if str := stackage.And().Push("a", x.v).String(); strings.Contains(str, "UNKNOWN") || !strings.Contains(str, "k") {
				bad = append(bad, "a Stack holding a live "+x.n+" renders "+str)
			}
		}
	}
	return strings.Join(bad, "; ")
}

func (b *c17Bystanders) check(c *Ctx, cs c17Case, desc string) {
	if msg := c17Canaries(); msg != "" {
		c.Violation("live-instances-no-longer-recognised:"+cs.Recv+"."+cs.Method, fmt.Sprintf("after %s: %s", desc, msg), cs, len(desc))
	}
	for i, v := range b.vals {
		if after := observe(v, false); after != b.before[i] {
			c.Violation("bystander-changed:"+cs.Recv+"."+cs.Method, fmt.Sprintf("%s changed what %s (never passed to the call) answers:\n before %s\n after  %s", desc, c17BystanderNames[i], b.before[i], after), cs, len(desc))
		}
	}
	if after := observe(c17FreshInitOnly(), true); after != b.fresh {
		c.Violation("defaults-changed:"+cs.Recv+"."+cs.Method, fmt.Sprintf("%s changed what a newly made Init()-only Condition answers:\n before %s\n after  %s", desc, b.fresh, after), cs, len(desc))
	}
}

type c17Diff struct {
	mu  sync.Mutex
	res map[string]map[string]string // recv|method|args -> state -> result text
}

func c17Run(c *Ctx, cs c17Case, args []reflect.Value, diff *c17Diff, count bool) {
	var x any
	if p := noPanic(func() { x = c17Receiver(cs.Recv, cs.State) }); p != "" {
		// bringing the receiver into its state (Free, Init) is itself a call the property speaks about
		c.Violation("panic:reaching-state:"+cs.Recv+":"+cs.State, fmt.Sprintf("bringing a %s into the state %q panicked: %s", cs.Recv, cs.State, p), cs, 1)
		return
	}
	pv := reflect.New(reflect.TypeOf(x))
	pv.Elem().Set(reflect.ValueOf(x))
	desc := fmt.Sprintf("%s %s.%s(%s)", cs.State, cs.Recv, cs.Method, cs.Args)
	if count {
		c.Evals.Add(1)
		c.Transitions.Add(1)
		c.Traces.Add(1)
	}
	var by *c17Bystanders
	if diff == nil && c17WantsBystanders(cs) {
		// only in the sequential pass (and in replays): with other calls running alongside, a change
		// to shared state would be blamed on the wrong call
		by = newBystanders()
	}
	// an earlier copy of an initialised handle (what a Stack holds after Push, what another variable holds):
	// Init gives the VARIABLE it is called on a new instance; the one the copy refers to stays what it was
	var earlier any
	earlierKey := ""
	if cd, ok := x.(stackage.Condition); ok && cs.Method == "Init" && cd.IsInit() {
		earlier = cd
		earlierKey = stackage.VerifDump(cd).Key(true)
	}
	res, p := callMethod(pv, cs.Method, args)
	if by != nil && p == "" {
		by.check(c, cs, desc)
	}
	if earlier != nil && p == "" {
		if now := stackage.VerifDump(earlier).Key(true); now != earlierKey {
			c.Violation("Init:earlier-copy-changed:"+cs.State, fmt.Sprintf("%s changed the instance an earlier copy of the handle refers to (Init is about the variable it is called on):\n before %s\n after  %s", desc, earlierKey, now), cs, len(desc))
		}
	}
	if p != "" {
		if strings.Contains(p, "harness/gen.go") && strings.Contains(p, "ptrOp") {
			return
		}
		c.Violation("panic:"+cs.Recv+"."+cs.Method+":"+cs.State, desc+" panicked: "+p, cs, len(desc))
		return
	}
	if cs.Recv == "Condition" && cs.Method == "Init" {
		// Init's purpose is to initialise: whatever the receiver was before (zero, freed, or set up with
		// options and closures only), afterwards it is what Init makes of a zero value
		var fresh stackage.Condition
		fresh.Init()
		if got, want := stackage.VerifDump(pv.Elem().Interface()).Key(false), stackage.VerifDump(fresh).Key(false); got != want {
			c.Violation("Init:not-a-fresh-instance:"+cs.State, fmt.Sprintf("%s left an instance that differs from a newly initialised one:\n got  %s\n want %s", desc, got, want), cs, len(desc))
		}
	}
	if cs.Recv == "Auxiliary" || strings.HasPrefix(cs.State, "init-only") {
		if count {
			c.Outcome(cs.Recv + cs.Method)
		}
		return
	}
	full := cs.Recv + "." + cs.Method
	// the handle must not have been brought to life
	alive := false
	switch h := pv.Elem().Interface().(type) {
	case stackage.Stack:
		alive = !h.IsZero() || h.IsInit()
	case stackage.Condition:
		alive = !h.IsZero() || h.IsInit()
	}
	if alive && !c17Initialisers[full] {
		c.Violation("revived:"+full, desc+" brought the instance to life (IsZero false afterwards)", cs, len(desc))
	}
	// zero results
	var texts []string
	for i, r := range res {
		t := r.Type()
		bad := ""
		switch {
		case t == boolType:
			want := c17TrueOnZero[cs.Method]
			if r.Bool() != want {
				bad = fmt.Sprintf("bool result %v want %v", r.Bool(), want)
			}
		case t == intType:
			if r.Int() != 0 {
				bad = fmt.Sprintf("int result %d want 0", r.Int())
			}
		case t == strType:
			if cs.Method == "String" && r.String() != "" {
				bad = fmt.Sprintf("String()=%q want the empty string", r.String())
			}
		case t == errType:
			if (cs.Method == "Valid" || cs.Method == "IsEqual") && r.IsNil() {
				bad = "returned a nil error; an uninitialised instance must report an error here"
			}
			if (cs.Method == "Err") && !r.IsNil() {
				bad = "Err() non-nil on an uninitialised instance"
			}
		case t == stackType:
			if !r.Interface().(stackage.Stack).IsZero() {
				bad = "returned an initialised Stack"
			}
		case t == condType:
			if !r.Interface().(stackage.Condition).IsZero() && !c17Initialisers[full] {
				bad = "returned an initialised Condition"
			}
		default:
			switch r.Kind() {
			case reflect.Ptr, reflect.Map, reflect.Slice, reflect.Func, reflect.Interface, reflect.Chan:
				if !r.IsNil() {
					bad = fmt.Sprintf("result #%d (%s) is not nil", i, t)
				}
			}
		}
		if bad != "" {
			c.Violation("non-zero-result:"+full, desc+": "+bad, cs, len(desc))
		}
		if t == errType {
			texts = append(texts, fmt.Sprint(!r.IsNil()))
		} else {
			texts = append(texts, describeValue(r))
		}
	}
	if diff != nil {
		k := full + "(" + cs.Args + ")"
		diff.mu.Lock()
		if diff.res[k] == nil {
			diff.res[k] = map[string]string{}
		}
		diff.res[k][cs.State] = strings.Join(texts, " | ")
		diff.mu.Unlock()
	}
	if count {
		c.Nontrivial(desc)
		c.Outcome(full + strings.Join(texts, "|"))
	}
}

// package-level functions: every one of them, with awkward arguments, must return normally
func c17Funcs(c *Ctx) int {
	n := 0
	names := make([]string, 0, len(packageFuncs))
	for k := range packageFuncs {
		names = append(names, k)
	}
	sort.Strings(names)
	aw := awkwardAny()
	pick := func(t reflect.Type, pos int) []namedValue {
		switch t {
		case anyType:
			return append(append([]namedValue{}, aw...), nv(`"stdout-no"`, "off"), nv(`"trace"`, "trace"), nv("-5", -5), nv("70000", 70000), nv(`"k"`, "k"))
		case opType:
			return []namedValue{{"Eq", reflect.ValueOf(stackage.Eq)}, {"nil-op", reflect.Zero(opType)}, nv("userOp{}", userOp{}), nv("ComparisonOperator(9)", stackage.ComparisonOperator(9))}
		case intType:
			return []namedValue{nv("0", 0), nv("-1", -1), nv("3", 3), nv("MinInt", -1<<63), nv("MaxInt", int(^uint(0)>>1)), nv("1<<62", 1<<62), nv("1<<40", 1<<40)}
		}
		return basicValues(t)
	}
	for _, name := range names {
		fn := packageFuncs[name]
		for _, t := range argTuples(fn.Type(), pick, 300) {
			n++
			c.Transitions.Add(1)
			c.Evals.Add(1)
			var res []reflect.Value
			p := noPanic(func() { res = fn.Call(t.Args) })
			// restore package defaults that some of these functions change
			stackage.SetDefaultStackLogger("off")
			stackage.SetDefaultConditionLogger("off")
			stackage.SetDefaultStackLogLevel(stackage.NoLogLevels)
			stackage.SetDefaultConditionLogLevel(stackage.NoLogLevels)
			if p != "" {
				if strings.Contains(p, "harness/gen.go") {
					continue
				}
				c.Violation("panic:func:"+name, fmt.Sprintf("%s(%s) panicked: %s", name, t.Desc, p), c17Case{"func", "", name, t.Desc, false}, len(t.Desc))
				continue
			}
			// an inert argument (zero, freed, nil pointer, pointer to a zero value) never converts
			if name == "ConvertStack" || name == "ConvertCondition" {
				inert := false
				for _, w := range []string{"(nil)", "Stack{}", "Condition{}", "StackAlias{}", "CondAlias{}", "freed", "nil"} {
					if strings.Contains(t.Desc, w) {
						inert = true
					}
				}
				if inert && len(res) == 2 {
					zero := true
					switch h := res[0].Interface().(type) {
					case stackage.Stack:
						zero = h.IsZero()
					case stackage.Condition:
						zero = h.IsZero()
					}
					if res[1].Bool() || !zero {
						c.Violation("inert-argument-converted:"+name, fmt.Sprintf("%s(%s) = (zero=%v, %v), want (zero, false)", name, t.Desc, zero, res[1].Bool()), c17Case{"func", "", name, t.Desc, false}, len(t.Desc))
					}
				}
			}
			// whatever a constructor returns must itself be usable
			for _, r := range res {
				if r.Type() == stackType || r.Type() == condType {
					if fnm, p := followUps(r.Interface()); p != "" {
						c.Violation("panic-after:func:"+name+":"+fnm, fmt.Sprintf("%s(%s) returned a value on which %s panicked: %s", name, t.Desc, fnm, p), c17Case{"func", "", name, t.Desc, false}, len(t.Desc))
					}
				}
			}
			if msg := c17Canaries(); msg != "" {
				c.Violation("live-instances-no-longer-recognised:func:"+name, fmt.Sprintf("after %s(%s): %s", name, t.Desc, msg), c17Case{"func", "", name, t.Desc, false}, len(t.Desc))
			}
			c.Nontrivial(name + t.Desc)
		}
	}
	return n
}

// c17PointerHeld: a Stack (or Condition) that somebody holds BY POINTER is freed through the variable the
// pointer points at, or is still a zero value when it is stored and comes to life later. Whoever holds the
// pointer - a Condition as its expression, a Stack as an element - answers for what the pointer leads to at
// the time of the question: a freed instance is inert (no nesting, nothing to descend into, no panic), a
// revived one is a Stack like any other.
func c17PointerHeld(c *Ctx) int {
	n := 0
	type holderSet struct {
		cond   stackage.Condition
		stack  stackage.Stack
		inCond stackage.Stack
	}
	hold := func(p any) holderSet {
		cd := stackage.Cond("k", stackage.Eq, p)
		return holderSet{cd, stackage.And().Push("a", p, "b"), stackage.List().Push(cd, "z")}
	}
	ask := func(h holderSet) (nesting [3]bool, condLen int, panicked string) {
		panicked = noPanic(func() {
			nesting = [3]bool{h.cond.IsNesting(), h.stack.IsNesting(), h.inCond.IsNesting()}
			condLen = h.cond.Len()
			h.cond.IsFIFO()
			_ = h.cond.String()
			_ = h.stack.String()
			h.cond.Unmarshal()
			h.stack.Unmarshal()
			h.stack.Traverse(1, 0)
			h.inCond.Traverse(0, 0)
			h.stack.IsEqual(h.stack)
			h.cond.IsEqual(h.cond)
			h.stack.Reveal()
			h.stack.Defrag()
			h.inCond.Defrag()
		})
		return
	}
	for _, form := range []string{"*Stack", "*StackAlias", "**Stack"} {
		for _, order := range []string{"freed-afterwards", "revived-afterwards", "revived-by-Marshal"} {
			n++
			c.Transitions.Add(1)
			var st stackage.Stack
			var al StackAlias
			var p any
			pst := &st
			switch form {
			case "*Stack":
				p = &st
			case "*StackAlias":
				p = &al
			default:
				p = &pst
			}
			set := func(v stackage.Stack) {
				st, al = v, StackAlias(v)
			}
			desc := fmt.Sprintf("a %s held as a Condition's expression and as a Stack element, %s", form, order)
			if order == "freed-afterwards" {
				set(stackage.Or().Push("x", "y"))
			}
			h := hold(p)
			switch order {
			case "freed-afterwards":
				if form == "*StackAlias" {
					tmp := stackage.Stack(al)
					tmp.Free()
					al = StackAlias(tmp)
				} else {
					st.Free()
				}
			case "revived-afterwards":
				set(stackage.Or().Push("x", "y"))
			case "revived-by-Marshal":
				st.Marshal("OR", "x", "y")
				al = StackAlias(st)
			}
			nesting, condLen, p2 := ask(h)
			if p2 != "" {
				c.Violation("pointer-held:panic:"+order, desc+": a query on the holder panicked: "+p2, nil, 0)
				continue
			}
			live := order != "freed-afterwards"
			if nesting[0] != live || nesting[1] != live {
				c.Violation("pointer-held:IsNesting:"+order, fmt.Sprintf("%s: IsNesting of the Condition / the Stack holding the pointer = %v / %v, want %v (the pointer now leads to %s)", desc, nesting[0], nesting[1], live, map[bool]string{true: "a live Stack of two elements", false: "a freed, zero Stack"}[live]), nil, 0)
			}
			if want := map[bool]int{true: 2, false: 1}[live]; condLen != want {
				c.Violation("pointer-held:Len:"+order, fmt.Sprintf("%s: Condition.Len()=%d want %d", desc, condLen, want), nil, 0)
			}
			c.Outcome("pointer-held/" + order)
		}
	}
	return n
}

// Free and Reset clauses on live instances
func c17FreeReset(c *Ctx) int {
	n := 0
	pp := func(...any) error { return nil }
	for _, kind := range kindNames {
		for ln := 0; ln <= 4; ln++ {
			for mask := 0; mask < 1<<ln; mask++ {
				for _, capk := range []int{0, ln + 1} {
					for variant := 0; variant < 3; variant++ {
						n++
						c.Transitions.Add(1)
						var s stackage.Stack
						if capk > 0 {
							s = newStackKind(kind, capk)
						} else {
							s = newStackKind(kind)
						}
						switch variant {
						case 1:
							s.SetFIFO(true).SetParen(true).SetNoNesting(true).SetID("id").SetCategory("cat").SetPushPolicy(pp).SetValidityPolicy(pp)
						case 2:
							s.SetMutex().SetNegativeIndices(true).SetFold(true).SetAuxiliary(stackage.Auxiliary{"a": 1}).SetLogLevel(stackage.LogLevel3)
						}
						s.Push(patternValues(ln, mask, "r")...)
						if s.Len() != ln {
							continue
						}
						d := stackage.VerifDump(s)
						d.Slots, d.SliceLen = nil, 1
						before := d.Key(false)
						desc := fmt.Sprintf("Reset on %s len %d non-nil mask %b cap %d variant %d", kind, ln, mask, capk, variant)
						if p := noPanic(func() { s.Reset() }); p != "" {
							c.Violation("panic:Reset", desc+" panicked: "+p, nil, ln)
							continue
						}
						if s.Len() != 0 || !s.IsEmpty() {
							c.Violation("Reset:not-empty", fmt.Sprintf("%s: Len()=%d afterwards (content %s)", desc, s.Len(), showList(contents(s))), nil, ln)
						}
						if held := stackage.VerifDump(s).Spare; held > d.Spare {
							c.Violation("Reset:element-still-held", fmt.Sprintf("%s: %d of the removed values are still referenced by the stack (beyond its length) afterwards", desc, held-d.Spare), nil, ln)
						}
						if after := stackage.VerifDump(s).Key(false); after != before {
							c.Violation("Reset:configuration-changed", fmt.Sprintf("%s changed the configuration:\n before %s\n after  %s", desc, before, after), nil, ln)
						}
						if capk > 0 && (s.Cap() != capk || s.Avail() != capk) {
							c.Violation("Reset:capacity", fmt.Sprintf("%s: Cap()=%d Avail()=%d want %d", desc, s.Cap(), s.Avail(), capk), nil, ln)
						}
						// Free: zeroes the handle unless read-only
						ro := s
						ro.SetReadOnly(true)
						var err error
						roBefore := dumpKey(ro)
						if p := noPanic(func() { err = ro.Free() }); p != "" {
							c.Violation("panic:Free", fmt.Sprintf("Free on a read-only %s (variant %d) panicked: %s", kind, variant, p), nil, ln)
							continue
						}
						if err == nil || !ro.IsInit() {
							c.Violation("Free:read-only", fmt.Sprintf("Free on a read-only %s returned %v, IsInit=%v", kind, err, ro.IsInit()), nil, ln)
						} else if roAfter := dumpKey(ro); roAfter != roBefore {
							c.Violation("Free:read-only-instance-changed", fmt.Sprintf("the refused Free on a read-only %s (variant %d) left its mark on the instance:\n before %s\n after  %s", kind, variant, roBefore, roAfter), nil, ln)
						}
						ro.SetReadOnly(false)
						if p := noPanic(func() { err = ro.Free() }); p != "" {
							c.Violation("panic:Free", fmt.Sprintf("Free on %s (variant %d: 1 = fully configured, 2 = mutex and further settings) panicked: %s", kind, variant, p), nil, ln)
							continue
						}
						if err != nil || !ro.IsZero() || ro.IsInit() {
							c.Violation("Free:not-zero", fmt.Sprintf("Free on %s returned %v, IsZero=%v IsInit=%v", kind, err, ro.IsZero(), ro.IsInit()), nil, ln)
						}
					}
				}
			}
		}
	}
	// long stacks (beyond any preallocation constant), also ones that have shrunk again, fully configured
	for _, kind := range kindNames {
		for _, ln := range []int{1023, 1024, 1025, 1500, 2500} {
			for _, shrink := range []bool{false, true} {
				for variant := 0; variant < 3; variant++ {
					n++
					c.Transitions.Add(1)
					s := newStackKind(kind)
					if variant == 2 {
						s = newStackKind(kind, ln+10)
					}
					if variant > 0 {
						decorate(s).SetMutex().SetNegativeIndices(true).SetForwardIndices(true).SetPushPolicy(pp).SetValidityPolicy(pp)
					}
					vals := make([]any, ln)
					for i := range vals {
						if i%7 != 3 {
							vals[i] = i
						}
					}
					s.Push(vals...)
					if shrink {
						for s.Len() > 3 {
							if _, ok := s.Pop(); !ok {
								break
							}
						}
					}
					d := stackage.VerifDump(s)
					d.Slots, d.SliceLen, d.SliceCap = nil, 1, 0
					before := d.Key(false)
					desc := fmt.Sprintf("Reset on %s after %d pushes (shrunk again: %v) variant %d", kind, ln, shrink, variant)
					if p := noPanic(func() { s.Reset() }); p != "" {
						c.Violation("panic:Reset", desc+" panicked: "+p, nil, ln)
						continue
					}
					if s.Len() != 0 || !s.IsEmpty() {
						c.Violation("Reset:not-empty", fmt.Sprintf("%s: Len()=%d afterwards", desc, s.Len()), nil, ln)
					}
					if held := stackage.VerifDump(s).Spare; held > d.Spare {
						c.Violation("Reset:element-still-held", fmt.Sprintf("%s: %d of the removed values are still referenced by the stack (beyond its length) afterwards", desc, held-d.Spare), nil, ln)
					}
					a := stackage.VerifDump(s)
					a.SliceCap = 0
					if after := a.Key(false); after != before {
						c.Violation("Reset:configuration-changed", fmt.Sprintf("%s changed the configuration:\n before %s\n after  %s", desc, before, after), nil, ln)
					}
				}
			}
		}
	}
	// Free at every length (a few elements, past eight, past sixteen ... past the constructor's reservation):
	// the handle is zero afterwards, an earlier copy of it still holds everything
	for ki, kind := range kindNames {
		for _, ln := range []int{0, 1, 5, 8, 9, 10, 16, 17, 33, 64, 65, 130, 1023, 1024, 1500} {
			for variant := 0; variant < 4; variant++ {
				n++
				c.Transitions.Add(1)
				s := newStackKind(kind)
				if variant == 2 {
					s = newStackKind(kind, ln+10)
				}
				if variant == 1 || variant == 2 {
					decorate(s).SetMutex().SetPushPolicy(pp)
				}
				if variant == 3 {
					// closures that currently say no: releasing a handle is none of their business
					s.SetValidityPolicy(func(...any) error { return errCat }).SetEqualityPolicy(func(any, any) error { return errCat }).SetErr(errCat)
				}
				vals := make([]any, ln)
				for i := range vals {
					if i%7 != 3 {
						vals[i] = i + ki
					}
				}
				s.Push(vals...)
				cp := s
				var err error
				desc := fmt.Sprintf("Free on %s holding %d elements (variant %d: 1 = configured, 2 = with capacity, 3 = rejecting validity policy and a pending error)", kind, ln, variant)
				if p := noPanic(func() { err = s.Free() }); p != "" {
					c.Violation("panic:Free", desc+" panicked: "+p, nil, ln)
					continue
				}
				if err != nil || !s.IsZero() || s.IsInit() {
					c.Violation("Free:not-zero", fmt.Sprintf("%s returned %v, IsZero=%v IsInit=%v Len=%d", desc, err, s.IsZero(), s.IsInit(), s.Len()), nil, ln)
				}
				if cp.Len() != ln || !cp.IsInit() {
					c.Violation("Free:earlier-copy-changed", fmt.Sprintf("%s: an earlier copy of the handle now has Len %d (IsInit %v), want %d", desc, cp.Len(), cp.IsInit(), ln), nil, ln)
				}
			}
		}
	}
	// Free drops the handle it is called on - nothing else: an earlier copy of the handle (another
	// variable, the element stored in a Stack, a Condition's expression) is a live instance as before
	for _, mk := range []func() (free func() error, copyOf any, holder stackage.Stack, what string){
		func() (func() error, any, stackage.Stack, string) {
			x := stackage.Cond("k", stackage.Eq, stackage.Or().Push("v")).SetID("kept").SetEncap(`"`)
			cp := x
			return x.Free, cp, stackage.And().Push("a", cp, stackage.Cond("outer", stackage.Ne, cp)), "Condition"
		},
		func() (func() error, any, stackage.Stack, string) {
			x := stackage.List().SetMutex().SetID("kept").Push("a", nil, stackage.Cond("k", stackage.Eq, "v"))
			cp := x
			return x.Free, cp, stackage.And().Push("a", cp, stackage.Cond("outer", stackage.Ne, cp)), "Stack"
		},
	} {
		n++
		c.Transitions.Add(1)
		free, cp, holder, what := mk()
		var before, hb string
		if p := noPanic(func() { before, hb = observe(cp, false), holder.String() }); p != "" {
			c.Violation("panic:before-Free", what+": "+p, nil, 0)
			continue
		}
		var err error
		if p := noPanic(func() { err = free() }); p != "" || err != nil {
			c.Violation("Free:failed", fmt.Sprintf("Free on a writable %s: error %v panic %q", what, err, p), nil, 0)
			continue
		}
		// life goes on: other instances are made (constructors, Init, Marshal decoding a CONDITION row) and
		// written to; they have nothing to do with the surviving copy, nor it with them
		var fresh []any
		var freshBefore []string
		if p := noPanic(func() {
			nc := stackage.Cond("fresh", stackage.Gt, "other").SetID("new").SetParen(true)
			var zi stackage.Condition
			zi.Init()
			zi.SetKeyword("zz").SetOperator(stackage.Le).SetExpression(3)
			var mz stackage.Stack
			mz.Marshal("AND", []any{"CONDITION", "mk", stackage.Eq, "mv"}, "tail")
			ns := stackage.Basic(4).SetID("new-stack").Push("n1")
			fresh = []any{nc, zi, mz, ns}
			for _, f := range fresh {
				freshBefore = append(freshBefore, observe(f, false))
			}
		}); p != "" {
			c.Violation("panic:after-Free", fmt.Sprintf("making new instances after Free on a %s panicked: %s", what, p), nil, 0)
			continue
		}
		var after, ha string
		if p := noPanic(func() { after, ha = observe(cp, false), holder.String() }); p != "" {
			c.Violation("Free:earlier-copy-unusable", fmt.Sprintf("after Free on one handle of a %s, an earlier copy of that handle (held by a variable and by a Stack) panics: %s", what, p), nil, 0)
			continue
		}
		if after != before || ha != hb {
			c.Violation("Free:earlier-copy-changed", fmt.Sprintf("after Free on one handle of a %s, an earlier copy of that handle answers differently:\n before %s | %s\n after  %s | %s", what, before, hb, after, ha), nil, 0)
		}
		// ... and a write through the surviving copy reaches none of the instances made since
		switch x := cp.(type) {
		case stackage.Condition:
			x.SetKeyword("rewritten").SetID("rewritten").SetReadOnly(true)
		case stackage.Stack:
			x.SetID("rewritten").Push("more").SetReadOnly(true)
		}
		for i, f := range fresh {
			if now := observe(f, false); now != freshBefore[i] {
				c.Violation("Free:new-instance-tied-to-freed-one", fmt.Sprintf("after Free on one handle of a %s, a write through an earlier copy of that handle changed an instance made afterwards:\n before %s\n after  %s", what, freshBefore[i], now), nil, 0)
				break
			}
		}
	}
	cd := stackage.Cond("k", stackage.Eq, "v").SetReadOnly(true)
	cdBefore := dumpKey(cd)
	if err := cd.Free(); err == nil || !cd.IsInit() {
		c.Violation("Free:read-only", fmt.Sprintf("Free on a read-only Condition returned %v, IsInit=%v", err, cd.IsInit()), nil, 0)
	} else if cdAfter := dumpKey(cd); cdAfter != cdBefore {
		c.Violation("Free:read-only-instance-changed", fmt.Sprintf("the refused Free on a read-only Condition left its mark on the instance:\n before %s\n after  %s", cdBefore, cdAfter), nil, 0)
	}
	cd.SetReadOnly(false)
	if cd.SetExpression("w"); cd.Expression() != "w" {
		c.Violation("Free:read-only-instance-changed", fmt.Sprintf("after SetReadOnly(true), a refused Free and SetReadOnly(false) the Condition no longer takes an expression (Err %v)", cd.Err()), nil, 0)
	}
	if err := cd.Free(); err != nil || !cd.IsZero() {
		c.Violation("Free:not-zero", fmt.Sprintf("Free on a Condition returned %v, IsZero=%v", err, cd.IsZero()), nil, 0)
	}
	return n
}

func init() {
	register(&Check{ID: "C17", Engine: "B", Run: func(c *Ctx) {
		if msg := hollowFirst(); msg != "" {
			// alias types first met in hollow form: the order in which values of a type arrive must not matter
			c.Violation("hollow-value-seen-first", "after nil pointers / zero values of an alias type had been the first values of that type the library saw: "+msg, nil, 0)
		}
		type job struct {
			cs   c17Case
			args []reflect.Value
		}
		var jobs []job
		for _, rv := range []struct {
			name   string
			sample any
			states []string
		}{{"Stack", stackage.Stack{}, []string{"zero", "freed", "freed-twice"}}, {"Condition", stackage.Condition{}, []string{"zero", "freed", "freed-twice", "init-only", "init-only+policy", "init-only+policy+nopad", "init-only+policy+paren", "init-only+policy+nopad+paren+encap+nonest", "init-only+nopad+paren+encap", "init-only+policy+closures+nopad"}}, {"Auxiliary", stackage.Auxiliary{}, []string{"nil", "empty"}}} {
			for _, me := range methodsOf(rv.sample, rv.name) {
				tuples := argTuples(me.Type, c17Pick(me.Name), 300)
				if rv.name != "Auxiliary" {
					tuples = append(tuples, extraTuples(me.Name)...) // structured inputs (label envelopes in every case, long paths)
				}
				for _, t := range tuples {
					for _, st := range rv.states {
						jobs = append(jobs, job{c17Case{rv.name, st, me.Name, t.Desc, false}, t.Args})
					}
				}
			}
		}
		diff := &c17Diff{res: map[string]map[string]string{}}
		nb := 0
		for i := range jobs { // one call at a time, each watched by bystander instances and canaries; before the parallel pass, so that whatever a call leaves behind in the package is blamed on that call
			if c17WantsBystanders(jobs[i].cs) {
				nb++
				c17Run(c, jobs[i].cs, jobs[i].args, nil, false)
			}
		}
		parallelFor(len(jobs), func(i int) { c17Run(c, jobs[i].cs, jobs[i].args, diff, true) })
		c.Bound["calls_watched_by_bystanders"] = nb
		// the same calls once more in another environment: somebody has replaced the package's default
		// loggers by a live one in the meantime (a zero value has no logger of its own, whatever the defaults)
		c11Env(true)
		parallelFor(len(jobs), func(i int) {
			cs := jobs[i].cs
			cs.Env = true
			c17Run(c, cs, jobs[i].args, nil, false)
		})
		c11Env(false)
		c.Bound["calls_repeated_with_live_package_default_loggers"] = len(jobs)
		// differential: zero-valued and freed instances answer identically
		for k, m := range diff.res {
			z, okz := m["zero"]
			for _, st := range []string{"freed", "freed-twice"} {
				if f, ok := m[st]; ok && okz && f != z {
					c.Violation("zero-vs-freed-differ:"+opClass(k), fmt.Sprintf("%s answers %q on a zero value but %q on a %s instance", k, z, f, st), nil, len(k))
				}
			}
		}
		nf := c17Funcs(c)
		nr := c17FreeReset(c) + c17PointerHeld(c)
		c.States.Store(int64(len(jobs) + nf + nr))
		c.Exhaustive = true
		c.Rule = "every exported method in the method sets of *Stack, *Condition and Auxiliary (reflection) x argument tuples from the typed catalogue (awkward values wherever `any` is taken) x receiver states {zero value, freed, freed twice; Init()-only Condition; nil / empty Auxiliary}; every exported package-level function (table generated from /repo's sources at build time) x awkward arguments; Reset on every nil pattern of length 0..4 x kinds x capacity x three configuration variants, and on stacks that held 1023..2500 elements (also shrunk again); for calls on an Init()-only Condition and for every non-query call: three bystander instances and a newly made Init()-only Condition answer every argument-free query as before; Free on read-only and writable instances. Oracle: no panic, handle still zero (except Marshal / Condition.Init), zero results (bool false except IsZero/IsEmpty/IsPadded, 0, nil, String()==\"\", error from Valid/IsEqual), zero and freed instances answer identically. non-trivial = distinct calls that returned"
		c.Bound["method_calls"] = len(jobs)
		c.Bound["function_calls"] = nf
		c.Bound["reset_free_cases"] = nr
		var unc []string
		for t := range uncatalogued {
			unc = append(unc, t)
		}
		c.Extra["uncatalogued_types"] = unc
		c.Sample(jobs[0].cs)
		c.Sample(jobs[len(jobs)/2].cs)
		c.Sample(jobs[len(jobs)-1].cs)
		c.Assumptions = append(c.Assumptions, "sentinel strings of an uninitialised instance (Kind, ID, Addr ...) are not hard-coded: zero and freed instances must agree; only String() must be empty")
	}, Replay: func(c *Ctx, raw json.RawMessage) {
		var cs c17Case
		json.Unmarshal(raw, &cs)
		if cs.Env {
			c11Env(true)
			defer c11Env(false)
		}
		var sample any = stackage.Stack{}
		if cs.Recv == "Condition" {
			sample = stackage.Condition{}
		} else if cs.Recv == "Auxiliary" {
			sample = stackage.Auxiliary{}
		}
		for _, me := range methodsOf(sample, cs.Recv) {
			if me.Name == cs.Method {
				for _, t := range append(argTuples(me.Type, c17Pick(me.Name), 300), extraTuples(me.Name)...) {
					if t.Desc == cs.Args {
						c17Run(c, cs, t.Args, nil, false)
					}
				}
			}
		}
	}})
}
