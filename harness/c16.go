package main

import (
	"encoding/json"
	"fmt"
	"runtime/debug"
	"strings"

	stackage "github.com/JesseCoretta/go-stackage"
)

// C16 — Marshal accepts or rejects any input without panicking (Engine B).

// jnode describes one entry of a []any input.
type jnode struct {
	T    string  `json:"t"` // str int nil tnil-stack tnil-cond tnil-int op op0 uop uop-empty stack stack0 cond cond0 list float bool
	S    string  `json:"s,omitempty"`
	Kids []jnode `json:"kids,omitempty"`
}

func (n jnode) String() string {
	switch n.T {
	case "str":
		return fmt.Sprintf("%q", n.S)
	case "list":
		p := make([]string, len(n.Kids))
		for i, k := range n.Kids {
			p[i] = k.String()
		}
		return "[" + strings.Join(p, " ") + "]"
	}
	return "<" + n.T + ">"
}

func (n jnode) build() any {
	switch n.T {
	case "str":
		return n.S
	case "int":
		return 7
	case "float":
		return 2.5
	case "bool":
		return true
	case "nil":
		return nil
	case "tnil-stack":
		return (*stackage.Stack)(nil)
	case "tnil-cond":
		return (*stackage.Condition)(nil)
	case "tnil-int":
		return (*int)(nil)
	case "bytes":
		return []byte("bt")
	case "bytes2":
		return []byte("bu")
	case "map":
		return map[string]int{"a": 1, "b": 2}
	case "map2": // same type, same size, one key renamed
		return map[string]int{"a": 1, "c": 2}
	case "float2":
		return 2.75
	case "anys": // a []any that is no envelope, and values of other slice types with the same length
		return []any{nil}
	case "strs1":
		return []string{"p"}
	case "ifaces": // a slice of a non-empty interface type (the package's own holder for mixed Stacks and Conditions)
		return []stackage.Interface{stackage.And().Push("i")}
	case "errs":
		return []error{nil}
	case "nil-bytes":
		return []byte(nil)
	case "tnil-pp": // typed nils more than one pointer level deep
		return (**int)(nil)
	case "tnil-ppp":
		var mid **string
		return &mid
	case "tnil-op":
		return (*ptrOp)(nil)
	case "tnil-cop": // a nil pointer to the library's own operator type
		return (*stackage.ComparisonOperator)(nil)
	case "op":
		return stackage.Eq
	case "op0":
		return stackage.ComparisonOperator(0)
	case "uop": // a user-defined operator of string kind that files itself under the package's own context name
		return cmpCtxOp("~=")
	case "uop-empty":
		return userOp{"", ""}
	case "stack":
		return stackage.Or().Push("in")
	case "stack0":
		return stackage.Stack{}
	case "cond":
		return stackage.Cond("rk", stackage.Ne, "rv")
	case "cond0":
		return stackage.Condition{}
	case "list":
		out := make([]any, len(n.Kids))
		for i, k := range n.Kids {
			out[i] = k.build()
		}
		return out
	}
	panic(n.T)
}

var c16Labels = map[string]string{"AND": "AND", "OR": "OR", "NOT": "NOT", "LIST": "LIST", "BASIC": "BASIC"}

type c16Case struct {
	In   jnode  `json:"input"` // a list: the arguments
	Recv string `json:"receiver"`
	Form string `json:"form"` // spread: Marshal(in...), envelope: Marshal(in)
}

// swapOperators returns a copy of n in which every operator-position entry (an Operator value, or the
// third entry of a CONDITION row) is replaced by repl.
// siblingValues: the same input with every multi-valued entry (bytes, maps) and every float replaced by a
// value of the same type and size that differs inside.
type cmpCtxOp string

func (o cmpCtxOp) String() string  { return string(o) }
func (o cmpCtxOp) Context() string { return stackage.Eq.Context() }

func siblingValues(n jnode) (jnode, bool) {
	if to, ok := map[string]string{"bytes": "bytes2", "map": "map2", "float": "float2", "anys": "strs1", "ifaces": "errs"}[n.T]; ok {
		return jnode{T: to}, true
	}
	changed := false
	out := n
	if n.T == "list" {
		out.Kids = make([]jnode, len(n.Kids))
		for i, k := range n.Kids {
			nk, ch := siblingValues(k)
			out.Kids[i] = nk
			changed = changed || ch
		}
	}
	return out, changed
}

func swapOperators(n jnode, repl jnode) (jnode, bool) {
	changed := false
	out := n
	if n.T == "list" {
		out.Kids = make([]jnode, len(n.Kids))
		isRow := len(n.Kids) >= 3 && n.Kids[0].T == "str" && strings.EqualFold(n.Kids[0].S, "CONDITION")
		for i, k := range n.Kids {
			if isRow && i == 2 && k.T != repl.T {
				out.Kids[i] = repl
				changed = true
				continue
			}
			nk, ch := swapOperators(k, repl)
			out.Kids[i] = nk
			changed = changed || ch
		}
	}
	return out, changed
}

// undecodedEnvelope looks for a raw []any element whose first entry is a recognised stack label.
// c16WellFormedRow: a CONDITION row that leaves Marshal no excuse: keyword text, a usable operator, and an
// expression that is a non-empty text, a number, a stack envelope with a recognised label or another
// well-formed CONDITION row.
func c16WellFormedRow(sl []any) bool {
	if len(sl) != 4 {
		return false
	}
	lab, isStr := sl[0].(string)
	if !isStr || !strings.EqualFold(lab, "CONDITION") {
		return false
	}
	kw, kwOK := sl[1].(string)
	op, opOK := sl[2].(stackage.Operator)
	if !kwOK || kw == "" || !opOK || op == nil || isNilPtr(op) {
		return false
	}
	txt := ""
	if noPanic(func() { txt = op.String() }) != "" || txt == "" || strings.Contains(txt, "invalid") {
		return false
	}
	switch ex := sl[3].(type) {
	case string:
		return ex != ""
	case int:
		return true
	case []any:
		if len(ex) >= 2 {
			if el, isStr := ex[0].(string); isStr {
				if _, known := c16Labels[strings.ToUpper(el)]; known {
					return true
				}
				return c16WellFormedRow(ex)
			}
		}
	}
	return false
}

// c16Shape describes an input as the caller sees it: lists by their entries (recursively), everything else
// by its type. Marshal reads its input; it does not rewrite it.
func c16Shape(v any, depth int) string {
	if sl, ok := v.([]any); ok && depth < 64 {
		p := make([]string, len(sl))
		for i, e := range sl {
			p[i] = c16Shape(e, depth+1)
		}
		return "[" + strings.Join(p, " ") + "]"
	}
	return fmt.Sprintf("%T", v)
}

// c16ZeroHandles counts the zero-valued Stacks and Conditions found as entries / elements anywhere in v.
func c16ZeroHandles(v any, depth int) int {
	if depth > 64 {
		return 0
	}
	n := 0
	switch tv := v.(type) {
	case []any:
		for _, e := range tv {
			n += c16ZeroHandles(e, depth+1)
		}
		return n
	case stackage.Stack:
		if !tv.IsInit() {
			return 1
		}
		for _, e := range contents(tv) {
			n += c16ZeroHandles(e, depth+1)
		}
	case stackage.Condition:
		if !tv.IsInit() {
			return 1
		}
		n += c16ZeroHandles(tv.Expression(), depth+1)
	}
	return n
}

func undecodedEnvelope(v any, depth int) string {
	if depth > 48 {
		return ""
	}
	if s, ok := refAsStack(v); ok && s.IsInit() {
		for _, e := range contents(s) {
			if sl, isSl := e.([]any); isSl && len(sl) > 0 {
				if lab, isStr := sl[0].(string); isStr {
					if _, known := c16Labels[strings.ToUpper(lab)]; known {
						return fmt.Sprint(sl)
					}
					if c16WellFormedRow(sl) {
						return fmt.Sprint(sl)
					}
				}
			}
			if r := undecodedEnvelope(e, depth+1); r != "" {
				return r
			}
		}
	}
	if cd, ok := refAsCond(v); ok && cd.IsInit() {
		return undecodedEnvelope(cd.Expression(), depth+1)
	}
	return ""
}

func c16Run(c *Ctx, cs c16Case, count bool, neighbours ...jnode) {
	in := cs.In.build().([]any)
	var recv stackage.Stack
	switch cs.Recv {
	case "zero":
	case "and":
		recv = stackage.And().Push("pre")
	case "full":
		recv = stackage.List(1).Push("pre")
	case "read-only":
		recv = stackage.And().Push("pre").SetReadOnly(true)
	case "and-mutex":
		recv = stackage.And().SetMutex().Push("pre")
	case "and-mutex-policy": // locking and a push policy together: the appended element goes through both
		recv = stackage.And().SetMutex().SetPushPolicy(func(...any) error { return nil }).Push("pre")
	case "and-mutex-marshaler": // locking and a marshal closure of the user's own that writes to the receiver, as the package's example does
		recv = stackage.And().SetMutex().Push("pre")
		r := recv
		recv.SetMarshaler(func(x ...any) error {
			r.Push(fmt.Sprintf("marshaled %d value(s)", len(x)))
			r.SetID("seen")
			return nil
		})
	}
	wasInit := recv.IsInit()
	var before string
	var lenBefore int
	if wasInit {
		lenBefore = recv.Len()
		before = dumpKey(recv)
	}
	size := len(cs.In.String())
	var err error
	if count {
		c.Evals.Add(1)
		c.Transitions.Add(1)
		c.Traces.Add(1)
	}
	dead := false
	shapeBefore, zerosBefore := c16Shape(in, 0), c16ZeroHandles(in, 0)
	p := func() (msg string) {
		defer func() {
			if r := recover(); r != nil {
				if dp, ok := r.(deadlockPanic); ok {
					dead = true
					heldMutexes.Delete(dp.mutex)
					return
				}
				msg = fmt.Sprintf("%v\n%s", r, shortStack(debug.Stack()))
			}
		}()
		if cs.Form == "spread" {
			err = recv.Marshal(in...)
		} else {
			err = recv.Marshal(in)
		}
		return ""
	}()
	desc := fmt.Sprintf("Marshal(%s %s) on %s receiver", cs.Form, cs.In, cs.Recv)
	if dead {
		c.Violation("deadlock:Marshal", desc+": Marshal tries to take the receiver's lock while already holding it", cs, size)
		return
	}
	if p != "" {
		c.Violation("panic:Marshal:"+panicSite(p), desc+" panicked: "+p, cs, size)
		return
	}
	if wasInit {
		if m := stackage.VerifDump(recv).Mtx; m != 0 {
			if _, held := heldMutexes.Load(m); held {
				heldMutexes.Delete(m)
				c.Violation("lock-leaked:Marshal", desc+": the receiver's mutex is still held after Marshal returned (the next locking call blocks forever)", cs, size)
				return
			}
		}
	}
	if after := c16Shape(in, 0); after != shapeBefore {
		c.Violation("input-rewritten", fmt.Sprintf("%s rewrote the caller's input (decoding it a second time would decode something else): it was %s and now is %s", desc, shapeBefore, after), cs, size)
	}
	if cs.Recv == "and-mutex-marshaler" {
		// the user's closure decides what Marshal does: what is asked here is that it returns at all, and
		// leaves the lock as it found it
		if cs.Form == "spread" && len(in) == 0 {
			c.Outcome("custom-marshaler:empty-input") // no arguments at all: refused before anybody is asked
			return
		}
		if err != nil || recv.Len() != lenBefore+1 || recv.ID() != "seen" {
			c.Violation("custom-marshaler-not-honoured", fmt.Sprintf("%s: err=%v Len %d->%d ID %q, want what the closure does (nil, one value pushed, the ID set)", desc, err, lenBefore, recv.Len(), recv.ID()), cs, size)
		}
		c.Outcome("custom-marshaler")
		return
	}
	if err != nil {
		c.Outcome("error:" + err.Error())
		if wasInit && dumpKey(recv) != before {
			// an error with a modified receiver is tolerated only if the receiver stays usable
		}
		return
	}
	if !wasInit && !recv.IsInit() {
		// nil error yet nothing built: only acceptable if the input held nothing to build
		c.Outcome("nil-error-no-init")
		c.Violation("no-error-no-stack", desc+" returned nil but the receiver is not initialised", cs, size)
		return
	}
	// the receiver is an initialised Stack: the follow-up calls must return normally
	for _, f := range []struct {
		n string
		f func()
	}{{"String", func() { _ = recv.String() }}, {"Unmarshal", func() { recv.Unmarshal() }}, {"IsEqual", func() { recv.IsEqual(recv) }},
		{"Valid", func() { recv.Valid() }}, {"Len", func() { recv.Len() }}, {"Kind", func() { recv.Kind() }}} {
		if p := noPanic(f.f); p != "" {
			c.Violation("panic-after:"+f.n, desc+" succeeded but "+f.n+" then panicked: "+p, cs, size)
			return
		}
	}
	// a twin marshalled from the very same input: comparing the two (both directions) returns normally
	if !wasInit {
		var twin stackage.Stack
		if noPanic(func() {
			if cs.Form == "spread" {
				twin.Marshal(cs.In.build().([]any)...)
			} else {
				twin.Marshal(cs.In.build())
			}
		}) == "" && twin.IsInit() {
			for dir, pair := range [][2]stackage.Stack{{recv, twin}, {twin, recv}} {
				if p := noPanic(func() { pair[0].IsEqual(pair[1]) }); p != "" {
					c.Violation("panic-after:IsEqual(twin)", fmt.Sprintf("%s succeeded; IsEqual (direction %d) against a twin marshalled from the same input panicked: %s", desc, dir, p), cs, size)
					return
				}
			}
		}
	}
	// comparing with other marshalled stacks (both directions) must return normally as well; besides the
	// neighbours in the enumeration, the same input with every operator slot filled by a non-operator
	// (and vice versa) gives a stack of identical shape that differs only there
	for _, repl := range []jnode{{T: "str", S: "="}, {T: "nil"}, {T: "op"}, {T: "uop-empty"}} {
		if v, changed := swapOperators(cs.In, repl); changed {
			neighbours = append(neighbours, v)
		}
	}
	if v, changed := siblingValues(cs.In); changed {
		neighbours = append(neighbours, v)
	}
	for _, other := range neighbours {
		var o stackage.Stack
		if noPanic(func() { o.Marshal(other.build().([]any)...) }) != "" || !o.IsInit() {
			continue
		}
		for dir, pair := range [][2]stackage.Stack{{recv, o}, {o, recv}} {
			if p := noPanic(func() { pair[0].IsEqual(pair[1]) }); p != "" {
				c.Violation("panic-after:IsEqual(other)", fmt.Sprintf("%s succeeded; IsEqual (direction %d) against the stack marshalled from %s panicked: %s", desc, dir, other, p), cs, size)
				return
			}
		}
	}
	// nothing that was an entry of the input has turned into a zero-valued Stack or Condition
	if err == nil && recv.IsInit() {
		if zerosAfter := c16ZeroHandles(recv, 0); zerosAfter > zerosBefore {
			c.Violation("entry-replaced-by-zero-value", fmt.Sprintf("%s: the result holds %d zero-valued Stack / Condition element(s), the input held %d: an entry that could not be decoded was replaced instead of kept", desc, zerosAfter, zerosBefore), cs, size)
		}
	}
	// every nested envelope that starts with a recognised stack label must have been decoded
	if raw := undecodedEnvelope(recv, 0); raw != "" {
		c.Violation("nested-envelope-not-decoded", desc+": a nested envelope with a recognised label (a stack, or a well-formed CONDITION row) was left as a raw slice: "+raw, cs, size)
	}
	// effective input after stripping single-element envelopes
	eff := in
	if cs.Form == "envelope" {
		eff = []any{in}
	}
	for len(eff) == 1 {
		inner, ok := eff[0].([]any)
		if !ok {
			break
		}
		eff = inner
	}
	if len(eff) == 0 {
		c.Violation("no-error-on-empty", desc+" returned nil for an input that holds nothing", cs, size)
		return
	}
	lab, isStr := eff[0].(string)
	if !wasInit {
		if isStr {
			if want, known := c16Labels[strings.ToUpper(lab)]; known {
				if recv.Kind() != want {
					c.Violation("label-not-honoured", fmt.Sprintf("%s: Kind()=%s want %s", desc, recv.Kind(), want), cs, size)
				}
				if recv.Len() != len(eff)-1 {
					c.Violation("element-count", fmt.Sprintf("%s: Len()=%d want %d", desc, recv.Len(), len(eff)-1), cs, size)
				}
				if count {
					c.Nontrivial(cs.In.String() + cs.Form)
				}
			} else if !strings.EqualFold(lab, "CONDITION") {
				if recv.Kind() != "BASIC" || recv.Len() != len(eff) {
					c.Violation("unknown-label-not-basic", fmt.Sprintf("%s: got %s with %d elements, want BASIC holding all %d entries", desc, recv.Kind(), recv.Len(), len(eff)), cs, size)
				}
			}
		}
		// the stack Marshal has just built is an initialised receiver like any other: a further Marshal
		// gives it one more element (nobody asked for a capacity)
		lenBuilt := recv.Len()
		var err2 error
		if p := noPanic(func() { err2 = recv.Marshal("AND", "later") }); p != "" {
			c.Violation("panic:Marshal-again", desc+": a second Marshal into the stack just built panicked: "+p, cs, size)
		} else if err2 != nil || recv.Len() != lenBuilt+1 {
			c.Violation("into-built:len", fmt.Sprintf("%s: a second Marshal(\"AND\",\"later\") into the stack just built returned %v and Len went from %d to %d, want nil and +1 (Cap %d)", desc, err2, lenBuilt, recv.Len(), recv.Cap()), cs, size)
		}
		c.Outcome("built:" + recv.Kind())
		return
	}
	// initialised receiver: gains the decoded Stack or Condition as one new element (unless full / read-only)
	grow := 1
	if cs.Recv == "full" || cs.Recv == "read-only" {
		grow = 0
	}
	if !isStr {
		grow = -1 // not decodable: must have been an error; tolerated if nothing changed
	}
	switch {
	case grow == -1:
		// no label after stripping single-element envelopes: the statement does not say how far
		// stripping goes, so either an error or one decoded element is accepted
		if recv.Len() != lenBefore && recv.Len() != lenBefore+1 {
			c.Violation("grew-without-label", fmt.Sprintf("%s: Len went from %d to %d", desc, lenBefore, recv.Len()), cs, size)
		}
	case recv.Len() != lenBefore+grow:
		c.Violation("into-initialised:len", fmt.Sprintf("%s: Len went from %d to %d, want %+d", desc, lenBefore, recv.Len(), grow), cs, size)
	case grow == 1:
		v, _ := recv.Index(recv.Len() - 1)
		vs, isS := v.(stackage.Stack)
		_, isC := v.(stackage.Condition)
		if !isS && !isC {
			c.Violation("into-initialised:type", fmt.Sprintf("%s: appended %T, want a Stack or Condition", desc, v), cs, size)
		}
		if _, known := c16Labels[strings.ToUpper(lab)]; known && isS && vs.Len() != len(eff)-1 {
			c.Violation("element-count", fmt.Sprintf("%s: the appended Stack holds %d elements, want %d", desc, vs.Len(), len(eff)-1), cs, size)
		}
		if count {
			c.Nontrivial(cs.In.String() + cs.Form + cs.Recv)
		}
	case cs.Recv == "read-only" && dumpKey(recv) != before:
		c.Violation("read-only-changed", desc+": read-only receiver changed", cs, size)
	}
	c.Outcome("into:" + cs.Recv)
}

func panicSite(p string) string {
	for _, fn := range []string{"deenvelopeSingleStack", "extractConditionValues", "setOperator", "marshalDefault", "derefPtr", "stackTypeAliasConverter"} {
		if strings.Contains(p, fn) {
			return fn
		}
	}
	return "other"
}

func c16Inputs(c *Ctx) []jnode {
	s := func(x string) jnode { return jnode{T: "str", S: x} }
	l := func(k ...jnode) jnode { return jnode{T: "list", Kids: k} }
	labels := []jnode{s("AND"), s("or"), s("Not"), s("LIST"), s("basic"), s("CONDITION"), s("condition")}
	atoms := []jnode{s("junk"), s("<invalid_stack>"), s(""), {T: "int"}, {T: "nil"}, {T: "tnil-stack"}, {T: "tnil-cond"}, {T: "tnil-int"}, {T: "tnil-pp"}, {T: "tnil-ppp"}, {T: "bytes"}, {T: "nil-bytes"}, {T: "map"}, {T: "anys"}, {T: "ifaces"}, {T: "op"}, {T: "op0"}, {T: "uop"}, {T: "uop-empty"},
		{T: "stack"}, {T: "stack0"}, {T: "cond"}, {T: "cond0"}, {T: "float"}, {T: "bool"}}
	// depth-1 nested lists: every label followed by 0..2 atoms, condition rows of length 1..6, and junk lists
	var nested []jnode
	nested = append(nested, l(), l(l()), l(l(l())))
	small := []jnode{s("x"), {T: "nil"}, {T: "op"}, {T: "int"}, {T: "stack"}, {T: "cond0"}, s("AND")}
	for _, lb := range labels {
		nested = append(nested, l(lb))
		for _, a := range small {
			nested = append(nested, l(lb, a))
			if !c.Quick() {
				for _, b := range small {
					nested = append(nested, l(lb, a, b))
				}
			}
		}
	}
	opPos := []jnode{{T: "op"}, {T: "op0"}, {T: "uop"}, {T: "uop-empty"}, s("="), {T: "nil"}, {T: "int"}, {T: "tnil-cop"}}
	for _, lb := range []jnode{s("CONDITION"), s("condition")} {
		for _, kw := range []jnode{s("kw"), {T: "int"}, {T: "nil"}, s("")} {
			for _, op := range opPos {
				for _, ex := range []jnode{s("v"), {T: "nil"}, l(s("OR"), s("a")), l(s("CONDITION"), s("k"), jnode{T: "op"}, s("v")), l(), {T: "stack0"}, s(""), {T: "tnil-pp"}, {T: "tnil-ppp"}, {T: "bytes"}, {T: "nil-bytes"}, {T: "map"}} {
					nested = append(nested, l(lb, kw, op, ex))
				}
			}
			nested = append(nested, l(lb, kw), l(lb, kw, jnode{T: "op"}), l(lb, kw, jnode{T: "op"}, s("v"), s("surplus")), l(lb, kw, jnode{T: "op"}, s("v"), s("s1"), s("s2")))
		}
	}
	for _, a := range atoms {
		nested = append(nested, l(a), l(a, s("AND")), l(s("junk"), a))
	}
	// top-level inputs
	var out []jnode
	out = append(out, nested...)
	entries := append(append([]jnode{}, labels...), atoms...)
	pick := nested
	if c.Quick() {
		pick = nil
		for i := 0; i < len(nested); i += 5 {
			pick = append(pick, nested[i])
		}
	}
	for _, first := range entries {
		out = append(out, l(first))
		for _, second := range entries {
			out = append(out, l(first, second))
		}
		for _, n := range pick {
			out = append(out, l(first, n), l(first, n, s("tail")))
			if !c.Quick() {
				out = append(out, l(first, s("head"), n, n))
			}
		}
	}
	// depth 3: nested inside nested
	for i, n := range pick {
		out = append(out, l(s("AND"), l(s("or"), n)), l(s("LIST"), l(s("CONDITION"), s("k"), jnode{T: "op"}, n)), l(l(l(n))), l(s("junk"), l(n, n)))
		if !c.Quick() || i%3 == 0 {
			out = append(out, l(s("NOT"), n, l(s("AND"), n, l(s("OR"), n))), l(n, n, n, n))
		}
	}
	// a nil (or other non-envelope) entry in front of nested envelopes at the same level
	for _, lead := range []jnode{{T: "nil"}, {T: "tnil-int"}, s(""), {T: "stack0"}} {
		out = append(out, l(s("AND"), l(s("LIST"), s("a")), lead, s("v"), l(s("OR"), s("b")), l(s("CONDITION"), s("k"), jnode{T: "op"}, s("v"))),
			l(s("or"), lead, l(s("NOT"), lead, l(s("and"), s("z")))), l(s("LIST"), lead, lead, l(s("CONDITION"), s("k"), jnode{T: "uop"}, l(s("AND"), lead, l(s("OR"), s("q"))))))
	}
	// the long regime: one level holding many entries (label + n, unknown label + n, nested)
	for _, n := range []int{14, 15, 16, 17, 32, 33, 70} {
		var es []jnode
		for i := 0; i < n; i++ {
			switch i % 5 {
			case 3:
				es = append(es, jnode{T: "int"})
			case 4:
				es = append(es, jnode{T: "nil"})
			default:
				es = append(es, s(fmt.Sprintf("e%d", i)))
			}
		}
		es[n-1] = s("last") // the final entry is a plain value, so that its loss shows in the count
		out = append(out, l(append([]jnode{s("LIST")}, es...)...), l(append([]jnode{s("junk")}, es...)...), l(append([]jnode{s("and")}, es...)...),
			l(s("OR"), l(append([]jnode{s("AND")}, es...)...), s("tail")), l(s("CONDITION"), s("k"), jnode{T: "op"}, l(append([]jnode{s("NOT")}, es...)...)))
	}
	// ... many rows that are envelopes themselves (CONDITION rows whose expression is an envelope, stack
	// envelopes), and envelopes nested many levels deep (stacks in stacks, Conditions in Conditions, alternating)
	for _, n := range []int{14, 15, 16, 17, 18, 32, 33, 65, 70} {
		var rows, stacks, mixed []jnode
		for i := 0; i < n; i++ {
			row := l(s("CONDITION"), s(fmt.Sprintf("k%d", i)), jnode{T: "op"}, l(s("OR"), s(fmt.Sprintf("a%d", i))))
			st := l(s([]string{"AND", "or", "Not", "LIST"}[i%4]), s(fmt.Sprintf("s%d", i)))
			rows, stacks = append(rows, row), append(stacks, st)
			mixed = append(mixed, []jnode{row, st, s(fmt.Sprintf("m%d", i)), l(s("CONDITION"), s("p"), jnode{T: "uop"}, s("plain"))}[i%4])
		}
		out = append(out, l(append([]jnode{s("AND")}, rows...)...), l(append([]jnode{s("LIST")}, stacks...)...), l(append([]jnode{s("or")}, mixed...)...),
			l(s("NOT"), l(append([]jnode{s("AND")}, rows...)...), s("tail")))
	}
	for _, d := range []int{5, 6, 9, 15, 16, 17, 18, 33, 40} {
		sc, cc, alt := l(s("BASIC"), s("bottom")), l(s("CONDITION"), s("k0"), jnode{T: "op"}, s("bottom")), l(s("OR"), s("bottom"))
		for lvl := 1; lvl < d; lvl++ {
			sc = l(s([]string{"AND", "or", "Not", "LIST"}[lvl%4]), s(fmt.Sprintf("l%d", lvl)), sc)
			cc = l(s("CONDITION"), s(fmt.Sprintf("k%d", lvl)), jnode{T: "op"}, cc)
			if lvl%2 == 0 {
				alt = l(s("AND"), alt, s(fmt.Sprintf("r%d", lvl)))
			} else {
				alt = l(s("CONDITION"), s(fmt.Sprintf("c%d", lvl)), jnode{T: "uop"}, alt)
			}
		}
		out = append(out, sc, l(s("LIST"), cc), l(s("AND"), alt), alt)
	}
	// envelopes that hold something Marshal cannot convert (an unlabelled list) as their last list-valued
	// entry, as a CONDITION row's expression and as a nested stack: the envelope itself is decoded all the same
	for _, junk := range []jnode{l(jnode{T: "int"}, jnode{T: "int"}), l(), l(jnode{T: "nil"})} {
		for _, lab := range []string{"LIST", "and", "Or"} {
			env := l(s(lab), s("a"), junk)
			env2 := l(s(lab), l(s("OR"), s("fine")), junk, s("after"))
			row := l(s("CONDITION"), s("kw"), jnode{T: "op"}, env)
			out = append(out, row, l(s("AND"), row), l(s("AND"), row, s("tail")), l(s("OR"), env, s("tail")), l(s("LIST"), env2), l(s("NOT"), l(s("CONDITION"), s("k2"), jnode{T: "uop"}, env2)),
				l(s("AND"), l(s("OR"), row, env)), l(s("BASIC"), env, row))
		}
	}
	// width up to 4/5 over a small alphabet
	w := []jnode{s("AND"), s("x"), {T: "nil"}, l(), l(s("CONDITION"), s("k"), s("="), s("v")), {T: "cond0"}}
	maxW := 4
	if !c.Quick() {
		maxW = 5
	}
	var rec func(cur []jnode)
	rec = func(cur []jnode) {
		if len(cur) >= 3 {
			out = append(out, l(cur...))
		}
		if len(cur) == maxW {
			return
		}
		for _, e := range w {
			rec(append(append([]jnode{}, cur...), e))
		}
	}
	rec(nil)
	return out
}

func init() {
	register(&Check{ID: "C16", Engine: "B", Run: func(c *Ctx) {
		inputs := c16Inputs(c)
		installLockModel()
		recvs := []string{"zero", "and", "full", "read-only", "and-mutex", "and-mutex-policy", "and-mutex-marshaler"}
		forms := []string{"spread", "envelope"}
		c.Rule = "every []any input of the bounded family (labels in any case, junk and empty strings, numbers, nil, typed nil pointers, valid / zero / user / empty operators and non-operators in the operator position, ready-made and zero Stacks and Conditions, empty and nested envelopes, CONDITION rows of length 1..6, nesting depth up to 3, width up to 4/5) x receiver {zero, initialised, full, read-only} x {Marshal(in...), Marshal(in)}; oracle: no panic; error, or an initialised receiver on which String/Unmarshal/IsEqual/Valid/Len/Kind return; label honoured case-insensitively; unknown leading string gives BASIC with all entries; initialised receiver grows by exactly one Stack/Condition; non-trivial = distinct inputs that were decoded"
		c.Bound["inputs"] = len(inputs)
		parallelFor(len(inputs), func(i int) {
			if c.TimeUp() {
				return
			}
			for _, r := range recvs {
				for _, f := range forms {
					c16Run(c, c16Case{inputs[i], r, f}, true, inputs[(i+1)%len(inputs)], inputs[(i+len(inputs)-1)%len(inputs)], inputs[(i*7+13)%len(inputs)])
				}
			}
		})
		c.States.Store(int64(len(inputs)))
		c.Exhaustive = true
		c.Sample(c16Case{inputs[10], "zero", "spread"})
		c.Sample(c16Case{inputs[len(inputs)/2], "and", "envelope"})
		c.Sample(c16Case{inputs[len(inputs)-1], "zero", "spread"})
	}, Replay: func(c *Ctx, raw json.RawMessage) {
		installLockModel()
		var cs c16Case
		json.Unmarshal(raw, &cs)
		c16Run(c, cs, false)
	}})
}
