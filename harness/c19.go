package main

import (
	"encoding/json"
	"fmt"
	"math"
	"strings"

	stackage "github.com/JesseCoretta/go-stackage"
)

// C19 — Defrag removes every nil gap and nothing else (Engine B).

type c19Case struct {
	Len    int    `json:"len"`
	Mask   int    `json:"nonnil_mask"` // bit i set = slot i non-nil
	Limit  int    `json:"scan_limit"`  // 0 = default
	Neg    bool   `json:"neg"`
	Fwd    bool   `json:"fwd"`
	Place  string `json:"placement"` // top, in-stack, in-cond, alias, ptr-alias, in-cond-alias
	Kind   string `json:"kind"`
	PreErr bool   `json:"pre_existing_error,omitempty"` // an earlier operation left an error in the stack
	Long   string `json:"long_pattern,omitempty"`       // run-length description of a long pattern, e.g. "1,50x0,1,45x0"
	// ChildRO: the (nested) stack is read-only: Defrag of the parent leaves it exactly as it is
	ChildRO bool `json:"nested_stack_read_only,omitempty"`
	// Prior: this many values were pushed, and the stack defragmented once (nothing to do), before the
	// pattern was pushed; Pol: an accept-everything push policy is installed (the pushes take that path)
	Prior int  `json:"values_pushed_and_defragmented_before,omitempty"`
	Pol   bool `json:"push_policy,omitempty"`
	// TNil: 1 / 2 = the non-nil elements at even / odd positions are typed nil pointers ((*int)(nil), a nil
	// *Stack ...): values like any other, no gaps
	TNil int `json:"typed_nil_pointer_elements,omitempty"`
	// Log: every log level switched on and a live logger installed on the stack that is compacted
	Log bool `json:"all_log_levels_live_logger,omitempty"`
	// FIFO: the stack that is compacted is in FIFO mode (compaction has nothing to do with which end Pop takes)
	FIFO bool `json:"fifo,omitempty"`
	// Rej: the stack that is compacted carries a validity closure that objects to nil elements - the very
	// state Defrag is there to repair
	Rej bool `json:"validity_closure_objects_to_nil_elements,omitempty"`
}

func (cs c19Case) pattern() string {
	if cs.Long != "" {
		return cs.Long
	}
	b := make([]byte, cs.Len)
	for i := range b {
		b[i] = '0'
		if cs.Mask&(1<<i) != 0 {
			b[i] = '1'
		}
	}
	return string(b)
}

func longestNilRun(n, mask int) int {
	best, cur := 0, 0
	for i := 0; i < n; i++ {
		if mask&(1<<i) == 0 {
			cur++
			if cur > best {
				best = cur
			}
		} else {
			cur = 0
		}
	}
	return best
}

// classify compares the content after Defrag with the expected one and names the discrepancy.
func c19Classify(got, want []any) string {
	if sameList(got, want) {
		return ""
	}
	nn := make([]any, 0, len(got))
	nils, trailing := 0, 0
	for _, v := range got {
		if v == nil {
			nils++
			trailing++
		} else {
			nn = append(nn, v)
			trailing = 0
		}
	}
	interior := nils - trailing
	// relation of the surviving non-nil elements to the expected list
	rel := "reordered-or-foreign"
	switch {
	case sameList(nn, want):
		rel = "all-kept"
	case len(nn) < len(want) && sameList(nn, want[:len(nn)]):
		rel = "tail-lost"
	default:
		seen := map[any]int{}
		for _, v := range nn {
			seen[v]++
		}
		for _, c := range seen {
			if c > 1 {
				rel = "duplicated"
			}
		}
	}
	switch {
	case interior > 0:
		return rel + "+interior-nil-left"
	case trailing > 0:
		return rel + "+trailing-nil-kept"
	}
	return rel
}

// pinnedDefrag is a transliteration of the defect recorded in known_findings.txt: what the pinned
// tree's defrag/implode/verifyImplode compute for a stack holding vals (scan limit max, index
// options neg/fwd). It is used ONLY to recognise the recorded finding precisely: a violation whose
// outcome equals this model's is the known one ("as-recorded"); any other wrong outcome is new.
func pinnedDefrag(vals []any, max int, neg, fwd bool, preErr ...bool) (out []any, errSet bool) {
	had := len(preErr) > 0 && preErr[0]
	raw := append([]any{"cfg"}, vals...)
	ulen := func() int { return len(raw) - 1 }
	index := func(i int) (any, bool) {
		L := ulen()
		ok := false
		if L > 0 {
			if i < 0 {
				if neg && -i <= L {
					i = L + i + 1
					ok = true
				}
			} else if i > L-1 {
				if fwd {
					i, ok = L, true
				}
			} else {
				i++
				ok = true
			}
			if ok {
				return raw[i], raw[i] != nil
			}
		}
		return nil, false
	}
	n := len(raw)
	start := -1
	spat := make([]int, n)
	for i := 0; i < n; i++ {
		if _, ok := index(i); !ok {
			if start == -1 {
				start = i
			}
			continue
		}
		spat[i] = 1
	}
	if start == -1 || max <= start {
		return raw[1:], had // nothing done: an earlier error stays
	}
	tpat := make([]int, n)
	tpat[0] = 1
	ct := 0
	for {
		if ct >= max || start+ct >= ulen() {
			break
		}
		if raw[start+ct+1] == nil {
			ct++
			continue
		}
		raw[start+1] = raw[start+ct+1]
		tpat[start+ct] = 1
		raw[start+ct+1] = nil
		start++
		ct = 0
	}
	last, fail := -1, false
	for i := 1; i < n; i++ {
		fail = spat[i] != tpat[i]
		if tpat[i] != 0 {
			last = (i - 1 + i) - n
		}
	}
	last--
	if fail {
		return raw[1:], true
	}
	if last >= 0 {
		raw = raw[:last+1]
	}
	return raw[1:], false
}

// longValues expands a run-length description ("1,50x0,1" = value, fifty nils, value).
func longValues(desc string) []any {
	var out []any
	for _, part := range strings.Split(desc, ",") {
		n, bit := 1, part
		if i := strings.Index(part, "x"); i >= 0 {
			fmt.Sscanf(part[:i], "%d", &n)
			bit = part[i+1:]
		}
		for k := 0; k < n; k++ {
			if bit == "1" {
				out = append(out, fmt.Sprintf("v%d", len(out)))
			} else {
				out = append(out, nil)
			}
		}
	}
	return out
}

func c19Run(c *Ctx, cs c19Case, count bool) {
	vals := patternValues(cs.Len, cs.Mask, "v")
	if cs.Long != "" {
		vals = longValues(cs.Long)
	}
	if cs.TNil > 0 {
		tn := []any{(*int)(nil), (*stackage.Stack)(nil), (*string)(nil), (*StackAlias)(nil), (*eqStruct)(nil)}
		for i := range vals {
			if vals[i] != nil && i%2 == cs.TNil-1 {
				vals[i] = tn[(i/2)%len(tn)]
			}
		}
	}
	target := newStackKind(cs.Kind)
	if cs.FIFO {
		target.SetFIFO(true)
	}
	if cs.Neg {
		target.SetNegativeIndices(true)
	}
	if cs.Fwd {
		target.SetForwardIndices(true)
	}
	if cs.Pol {
		target.SetPushPolicy(func(...any) error { return nil })
		// round 14: an option that is off is told so once more (half of the cases: those with a policy)
		if !cs.Fwd {
			target.SetForwardIndices(false)
		}
		if !cs.Neg {
			target.SetNegativeIndices(false)
		}
	}
	if cs.Prior > 0 {
		var prior []any
		for i := 0; i < cs.Prior; i++ {
			prior = append(prior, fmt.Sprintf("q%d", i))
		}
		target.Push(prior...)
		target.Defrag() // nothing to compact: whatever this call concludes is out of date after the next Push
		vals = append(prior, vals...)
	}
	target.Push(vals[cs.Prior:]...)
	if cs.PreErr {
		target.SetErr(errCat)
	}
	if cs.Log {
		target.SetLogger(c11EnvLogger).SetLogLevel("all")
	}
	if cs.Rej {
		t := target
		target.SetValidityPolicy(func(...any) error {
			for i := 0; i < t.Len(); i++ {
				if v, _ := t.Index(i); v == nil {
					return errCat
				}
			}
			return nil
		})
	}
	var want []any
	for _, v := range vals {
		if v != nil {
			want = append(want, v)
		}
	}
	if cs.ChildRO {
		target.SetReadOnly(true)
	}
	sibling := stackage.List().Push("s1", nil, "s2") // a sibling holding a nil gap of its own
	var recv stackage.Stack
	var parentWant []any
	switch cs.Place {
	case "top":
		recv = target
	case "top-mutex":
		target.SetMutex()
		recv = target
	case "top-decorated":
		decorate(target).SetFIFO(true).SetValidityPolicy(func(...any) error { return nil })
		recv = target
	case "in-stack":
		recv = stackage.And().Push("p0", target, "p1")
		parentWant = []any{"p0", target, "p1"}
	case "alias":
		a := StackAlias(target)
		recv = stackage.Or().Push(a, "p1")
		parentWant = []any{a, "p1"}
	case "ptr-alias":
		a := StackAlias(target)
		recv = stackage.Or().Push("p0", &a)
		parentWant = []any{"p0", &a}
		parentWant[1] = contents(recv)[1]
	case "in-cond":
		cd := stackage.Cond("kw", stackage.Eq, target)
		recv = stackage.And().Push(stackage.List().Push("z"), cd)
		parentWant = contents(recv)
	case "in-read-only-cond": // the Condition is read-only, the Stack it holds is not: the Stack is compacted like any other
		cd := stackage.Cond("kw", stackage.Eq, target).SetReadOnly(true)
		recv = stackage.And().Push("p0", cd, stackage.List().Push("z"))
		parentWant = contents(recv)
	case "in-cond-only": // no sibling Stack: the parent is not "nesting" by IsNesting's definition
		cd := stackage.Cond("kw", stackage.Eq, target)
		recv = stackage.And().Push("p0", cd)
		parentWant = contents(recv)
	case "in-stack-parent-options": // options of the parent that have no say in what Defrag does below it
		recv = stackage.And().Push("p0", target, "p1")
		decorate(recv).SetNoNesting(true).SetNegativeIndices(true).SetMutex()
		parentWant = []any{"p0", target, "p1"}
	case "in-cond-nonesting-parent": // a no-nesting parent still takes Conditions, whose expression may be a Stack
		cd := stackage.Cond("kw", stackage.Eq, target)
		recv = stackage.Or().SetNoNesting(true).Push("p0", cd)
		parentWant = contents(recv)
	case "in-cond-alias":
		cd := CondAlias(stackage.Cond("kw", stackage.Eq, StackAlias(target)))
		recv = stackage.And().Push(stackage.List().Push("z"), cd, sibling)
		parentWant = contents(recv)
	case "named-ptr": // declared pointer types (type StackRef *Stack, type CondRef *Condition): pointers like any other
		t := target
		recv = stackage.And().Push("p0", StackRef(&t), "p1")
		parentWant = contents(recv)
	case "named-ptr-cond":
		cd := stackage.Cond("kw", stackage.Eq, target)
		recv = stackage.Or().Push(CondRef(&cd), stackage.List().Push("z"))
		parentWant = contents(recv)
	case "ptr-to-named-ptr-alias":
		a := StackAlias(target)
		r := AliasRef(&a)
		recv = stackage.And().Push(stackage.Cond("kw", stackage.Ne, &r), "p1")
		parentWant = contents(recv)
	case "in-cond-late-pointer": // the Condition was given a pointer to a Stack variable that was filled in afterwards
		late := new(stackage.Stack)
		cd := stackage.Cond("kw", stackage.Eq, late)
		recv = stackage.And().Push(stackage.List().Push("z"), cd)
		*late = target
		parentWant = contents(recv)
	case "late-pointer": // ... and the same for a pointer stored as an element
		late := new(stackage.Stack)
		recv = stackage.And().Push("p0", late, stackage.Cond("k2", stackage.Eq, "v"))
		*late = target
		parentWant = contents(recv)
	case "late-pointer-alias":
		late := new(StackAlias)
		cd := stackage.Cond("kw", stackage.Eq, late)
		recv = stackage.Or().Push("p0", cd)
		*late = StackAlias(target)
		parentWant = contents(recv)
	case "deep":
		mid := stackage.Or().Push("m0", target)
		recv = stackage.And().Push(mid, "p1")
		parentWant = contents(recv)
	}
	before := dumpKey(recv)
	if count {
		c.Evals.Add(1)
		c.Transitions.Add(1)
		c.Traces.Add(1)
	}
	var p string
	if cs.Limit > 0 {
		p = noPanic(func() { recv.Defrag(cs.Limit) })
	} else {
		p = noPanic(func() { recv.Defrag() })
	}
	size := cs.Len*4 + len(cs.Place) + len(cs.Long)*10
	if p != "" {
		c.Violation("panic:"+cs.Place, fmt.Sprintf("Defrag panicked on %s: %s", jsonString(cs), p), cs, size)
		return
	}
	got := contents(target)
	if cs.ChildRO {
		// a read-only stack below the receiver: untouched, and nothing of it leaks upwards
		if !sameList(got, vals) {
			c.Violation("nested("+cs.Place+"):read-only-child-changed", fmt.Sprintf("Defrag of the parent changed a read-only nested stack: %s want %s (%s)", showList(got), showList(vals), jsonString(cs)), cs, size)
		}
		if recv.Err() != nil {
			c.Violation("nested("+cs.Place+"):parent-err-set", fmt.Sprintf("the receiver reports Err()=%v after Defrag although only a nested read-only stack carried an (earlier, unrelated) error: %s", recv.Err(), jsonString(cs)), cs, size)
		}
		// ... and once the flag is cleared, the next Defrag of the parent compacts it like any other
		target.SetReadOnly(false)
		if cs.Limit > 0 {
			p = noPanic(func() { recv.Defrag(cs.Limit) })
		} else {
			p = noPanic(func() { recv.Defrag() })
		}
		lim := cs.Limit
		if lim <= 0 {
			lim = 50
		}
		if p != "" {
			c.Violation("panic:"+cs.Place, fmt.Sprintf("the second Defrag (nested stack no longer read-only) panicked on %s: %s", jsonString(cs), p), cs, size)
		} else if pin, pinErr := pinnedDefrag(append([]any{}, vals...), lim, cs.Neg, cs.Fwd, cs.PreErr); sameList(pin, want) && !pinErr {
			if got2 := contents(target); !sameList(got2, want) {
				c.Violation("nested("+cs.Place+"):not-compacted-after-read-only-cleared", fmt.Sprintf("the nested stack was read-only during one Defrag of the parent (and left alone); with the flag cleared the next Defrag of the parent leaves it at %s, want %s (%s)", showList(got2), showList(want), jsonString(cs)), cs, size)
			}
		}
		c.Outcome("read-only-child")
		return
	}
	pre := ""
	if !strings.HasPrefix(cs.Place, "top") {
		pre = "nested(" + cs.Place + "):"
	}
	lim := cs.Limit
	if lim <= 0 {
		lim = 50
	}
	pinGot, pinErr := pinnedDefrag(append([]any{}, vals...), lim, cs.Neg, cs.Fwd, cs.PreErr)
	rec := func(cls string, isErr bool) string {
		// the recorded finding: same wrong content (and error state) as the pinned tree produces
		if sameList(got, pinGot) && (target.Err() != nil) == pinErr {
			return cls + ":as-recorded"
		}
		return pre + cls
	}
	hasNil := cs.Mask != (1<<cs.Len)-1 || cs.Long != ""
	if !hasNil && cs.PreErr {
		// nothing to compact, but an earlier call had left an error behind: the content stays, and Err() is
		// nil afterwards like after any other Defrag (the statement asks for both)
		if !sameList(got, want) {
			c.Violation(pre+"changed-without-nil", fmt.Sprintf("Defrag altered the content of a stack that holds no nil: %s want %s (%s)", showList(got), showList(want), jsonString(cs)), cs, size)
		}
		if err := target.Err(); err != nil {
			c.Violation(rec("err-left", true), fmt.Sprintf("Err()=%v after Defrag of a stack without nil that carried an earlier error: %s", err, jsonString(cs)), cs, size)
		}
		c.Outcome("untouched-error-cleared")
		return
	}
	if !hasNil {
		after := dumpKey(recv)
		if cs.Place == "in-cond-alias" {
			before, after = "", "" // the sibling holds a nil of its own; judged below
		}
		if after != before {
			if target.Err() != nil && sameList(got, want) {
				c.Violation(rec("err-set", true), fmt.Sprintf("Err()=%v after Defrag of a stack without nil: %s", target.Err(), jsonString(cs)), cs, size)
			} else {
				c.Violation(pre+"changed-without-nil", fmt.Sprintf("Defrag altered a structure that holds no nil: %s\n before %s\n after  %s", jsonString(cs), before, after), cs, size)
			}
		}
		c.Outcome("untouched")
		if cs.Place != "in-cond-alias" {
			return
		}
	}
	if count && hasNil {
		c.Nontrivial(jsonString(cs))
	}
	if cls := c19Classify(got, want); cls != "" {
		c.Violation(rec(cls, false), fmt.Sprintf("Defrag(%s) on pattern %s (1=value,0=nil; placement %s neg=%v fwd=%v) left %s, want %s", limitStr(cs.Limit), cs.pattern(), cs.Place, cs.Neg, cs.Fwd, showList(got), showList(want)), cs, size)
		c.Outcome(cls)
	} else {
		c.Outcome("compacted")
	}
	if target.Len() != len(got) {
		c.Violation(pre+"len-mismatch", fmt.Sprintf("Len()=%d but %d slots after Defrag on %s", target.Len(), len(got), jsonString(cs)), cs, size)
	}
	if err := target.Err(); err != nil && hasNil {
		c.Violation(rec("err-set", true), fmt.Sprintf("Err()=%v after Defrag on %s", err, jsonString(cs)), cs, size)
	}
	if !target.IsInit() {
		c.Violation(pre+"config-lost", fmt.Sprintf("stack no longer initialised after Defrag on %s", jsonString(cs)), cs, size)
	}
	if !strings.HasPrefix(cs.Place, "top") {
		if perr := recv.Err(); perr != nil {
			// the receiver itself had no error and no nil of its own: whatever a nested stack still
			// carries (an earlier, unrelated error; the recorded forward-index failure) stays down there
			c.Violation(pre+"parent-err-set", fmt.Sprintf("the receiver reports Err()=%v after Defrag on %s", perr, jsonString(cs)), cs, size)
		}
		if pg := contents(recv); !sameList(pg, parentWant) {
			c.Violation(pre+"parent-changed", fmt.Sprintf("the enclosing stack changed: %s want %s (%s)", showTypes(pg), showTypes(parentWant), jsonString(cs)), cs, size)
		}
		if cs.Place == "in-cond-alias" {
			if sg := contents(sibling); !sameList(sg, []any{"s1", "s2"}) {
				k := pre + "sibling-not-compacted"
				if pg, _ := pinnedDefrag([]any{"s1", nil, "s2"}, lim, false, false); sameList(sg, pg) {
					k = c19Classify(sg, []any{"s1", "s2"}) + ":as-recorded"
				}
				c.Violation(k, fmt.Sprintf("sibling stack %s want [s1 s2]", showList(sg)), cs, size)
			}
		}
	}
}

func limitStr(l int) string {
	if l == 0 {
		return ""
	}
	return fmt.Sprint(l)
}

func c19Cases(c *Ctx) []c19Case {
	maxLen, nestLen := 8, 4
	if !c.Quick() {
		maxLen, nestLen = 14, 8
	}
	var out []c19Case
	for n := 0; n <= maxLen; n++ {
		for mask := 0; mask < 1<<n; mask++ {
			run := longestNilRun(n, mask)
			for _, lim := range []int{0, 1, 2, 3, 13} {
				if lim > 0 && run >= lim {
					continue // the property only speaks of runs shorter than the scan limit
				}
				for _, opt := range []struct{ neg, fwd bool }{{false, false}, {true, false}, {false, true}, {true, true}} {
					if (opt.neg || opt.fwd) && (lim != 0 || n > maxLen-2) {
						continue
					}
					out = append(out, c19Case{n, mask, lim, opt.neg, opt.fwd, "top", "LIST", false, "", false, 0, false, 0, false, false, false})
					if mask != (1<<n)-1 && !opt.neg && !opt.fwd && (lim == 0 || lim == 3) && n <= nestLen+2 {
						out = append(out, c19Case{n, mask, lim, false, false, "top", "LIST", true, "", false, 0, false, 0, false, false, false})
					}
				}
				if n <= nestLen && (lim == 0 || lim == 3) {
					for _, pl := range []string{"top-mutex", "top-decorated", "in-stack", "alias", "ptr-alias", "in-cond", "in-cond-only", "in-cond-alias", "deep", "in-stack-parent-options", "in-cond-nonesting-parent"} {
						out = append(out, c19Case{n, mask, lim, false, false, pl, "AND", false, "", false, 0, false, 0, false, false, false})
						if mask != (1<<n)-1 && n <= 4 && lim == 0 {
							out = append(out, c19Case{n, mask, lim, false, false, pl, "AND", true, "", false, 0, false, 0, false, false, false})
						}
					}
				}
			}
		}
	}
	// a second Defrag: values pushed and defragmented (nothing to do), then the pattern pushed - through
	// the plain path and through a push policy - and defragmented again
	for n := 1; n <= 5; n++ {
		for mask := 0; mask < (1<<n)-1; mask++ {
			for prior := 1; prior <= 2; prior++ {
				for v := 0; v < 8; v++ {
					out = append(out, c19Case{Len: n, Mask: mask, Place: "top", Kind: "LIST", Neg: v&1 != 0, Fwd: v&2 != 0, Pol: v&4 != 0, Prior: prior})
				}
			}
		}
	}
	for _, long := range []string{"5x0,20x1", "2x1,5x0,9x1"} {
		for v := 0; v < 8; v++ {
			out = append(out, c19Case{Place: "top", Kind: "AND", Neg: v&1 != 0, Fwd: v&2 != 0, Pol: v&4 != 0, Prior: 3, Long: long})
		}
	}
	// nested stacks with index options, an earlier error, or the read-only flag of their own
	for n := 1; n <= 4; n++ {
		for mask := 0; mask < 1<<n; mask++ {
			for _, pl := range []string{"in-stack", "in-cond", "deep", "alias"} {
				for v := 0; v < 4; v++ {
					x := c19Case{Len: n, Mask: mask, Place: pl, Kind: "AND", Neg: v&1 != 0, Fwd: v&2 != 0, PreErr: true}
					if mask != (1<<n)-1 { // whether a stale error on a nil-free stack survives is not constrained
						out = append(out, x)
					}
					x.PreErr = false
					if v != 0 {
						out = append(out, x)
					}
				}
				out = append(out, c19Case{Len: n, Mask: mask, Place: pl, Kind: "AND", PreErr: true, ChildRO: true}, c19Case{Len: n, Mask: mask, Place: pl, Kind: "AND", Fwd: true, ChildRO: true})
			}
		}
	}
	// a nested stack that is read-only during one Defrag of its parent and writable during the next
	for n := 1; n <= 6; n++ {
		for mask := 0; mask < 1<<n; mask++ {
			for _, pl := range []string{"in-stack", "in-cond", "deep", "alias", "ptr-alias", "in-cond-alias"} {
				out = append(out, c19Case{Len: n, Mask: mask, Place: pl, Kind: "AND", ChildRO: true}, c19Case{Len: n, Mask: mask, Place: pl, Kind: "AND", ChildRO: true, Neg: true, Limit: 13})
			}
		}
	}
	// FIFO mode, with and without locking; a read-only Condition around a writable Stack
	for n := 1; n <= 7; n++ {
		for mask := 0; mask < 1<<n; mask++ {
			for _, pl := range []string{"top", "top-mutex", "in-stack", "in-read-only-cond"} {
				if pl != "top" && pl != "top-mutex" && n > nestLen {
					continue
				}
				out = append(out, c19Case{Len: n, Mask: mask, Place: pl, Kind: "AND", FIFO: pl != "in-read-only-cond"})
				if pl == "in-read-only-cond" {
					out = append(out, c19Case{Len: n, Mask: mask, Place: pl, Kind: "AND", FIFO: true, Neg: true})
				}
			}
		}
	}
	for _, long := range []string{"1,5x0,1", "2x1,5x0,9x1", "1,7x0,1,7x0,1"} {
		out = append(out, c19Case{Place: "top-mutex", Kind: "LIST", Long: long, FIFO: true}, c19Case{Place: "in-read-only-cond", Kind: "AND", Long: long})
	}
	// every log level on, a live logger behind it (alone each is covered by the decorated placements)
	for n := 1; n <= 7; n++ {
		for mask := 0; mask < 1<<n; mask++ {
			for _, pl := range []string{"top", "in-stack", "in-cond"} {
				if pl != "top" && n > nestLen {
					continue
				}
				out = append(out, c19Case{Len: n, Mask: mask, Place: pl, Kind: "AND", Log: true})
			}
		}
	}
	// pointers that were empty when they were stored
	for n := 1; n <= 6; n++ {
		for mask := 0; mask < 1<<n; mask++ {
			if n > nestLen {
				continue
			}
			for _, pl := range []string{"in-cond-late-pointer", "late-pointer", "late-pointer-alias", "named-ptr", "named-ptr-cond", "ptr-to-named-ptr-alias"} {
				out = append(out, c19Case{Len: n, Mask: mask, Place: pl, Kind: "AND"})
			}
		}
	}
	for _, pl := range []string{"in-cond-late-pointer", "late-pointer", "late-pointer-alias", "named-ptr", "named-ptr-cond", "ptr-to-named-ptr-alias"} {
		out = append(out, c19Case{Place: pl, Kind: "AND", Long: "1,1x0,1,1x0,1,1x0,1,1x0,1,1x0,1"}, c19Case{Place: pl, Kind: "LIST", Long: "1,5x0,1"})
	}
	// scan limits nobody would call small: "no limit" written as the largest int, and its neighbours
	for _, lim := range []int{math.MaxInt, math.MaxInt - 1, math.MaxInt / 2, 1 << 40, 100} {
		for _, long := range []string{"1,1x0,1,1x0,1,1x0,1,1x0,1,1x0,1", "1,5x0,1", "2x1,5x0,9x1", "1,1x0,1", "3x0,1,2x0,1"} {
			for _, pl := range []string{"top", "in-stack", "in-cond"} {
				out = append(out, c19Case{Place: pl, Kind: "AND", Long: long, Limit: lim}, c19Case{Place: pl, Kind: "LIST", Long: long, Limit: lim, Neg: true, Fwd: true})
			}
		}
	}
	for n := 1; n <= 5; n++ {
		for mask := 0; mask < 1<<n; mask++ {
			out = append(out, c19Case{Len: n, Mask: mask, Place: "top", Kind: "OR", Limit: math.MaxInt}, c19Case{Len: n, Mask: mask, Place: "in-stack", Kind: "OR", Limit: math.MaxInt - 1})
		}
	}
	// a validity closure on the stack that is compacted, unhappy for as long as there are nil elements
	for n := 1; n <= 6; n++ {
		for mask := 0; mask < 1<<n; mask++ {
			for _, pl := range []string{"top", "in-stack", "in-cond", "alias"} {
				if pl != "top" && n > nestLen {
					continue
				}
				out = append(out, c19Case{Len: n, Mask: mask, Place: pl, Kind: "AND", Rej: true}, c19Case{Len: n, Mask: mask, Place: pl, Kind: "LIST", Rej: true, Neg: true, Fwd: true, Limit: 13})
			}
		}
	}
	for _, long := range []string{"1,5x0,1", "2x1,5x0,9x1", "5x0,20x1", "1,7x0,1,7x0,1"} {
		out = append(out, c19Case{Place: "top", Kind: "LIST", Long: long, Log: true}, c19Case{Place: "in-stack", Kind: "AND", Long: long, Log: true})
	}
	// no nil at all, but an error left behind by an earlier call (a refused setter, a rejected push)
	for n := 0; n <= 5; n++ {
		for _, pl := range []string{"top", "top-mutex", "in-stack", "in-cond", "deep", "alias"} {
			out = append(out, c19Case{Len: n, Mask: (1 << n) - 1, Place: pl, Kind: "AND", PreErr: true}, c19Case{Len: n, Mask: (1 << n) - 1, Place: pl, Kind: "AND", PreErr: true, Neg: true, Limit: 13})
		}
	}
	// typed nil pointers among the values: they are values (C08, C15), not gaps
	for n := 1; n <= 6; n++ {
		for mask := 1; mask < 1<<n; mask++ {
			for tn := 1; tn <= 2; tn++ {
				for _, pl := range []string{"top", "in-stack", "in-cond", "ptr-alias"} {
					if pl != "top" && n > nestLen {
						continue
					}
					out = append(out, c19Case{Len: n, Mask: mask, Place: pl, Kind: "AND", TNil: tn}, c19Case{Len: n, Mask: mask, Place: pl, Kind: "AND", TNil: tn, Neg: true, Fwd: true, Limit: 13})
				}
			}
		}
	}
	for i := range out {
		out[i].Kind = kindNames[i%5] // every kind is sampled evenly
	}
	// long patterns: nil runs of 50 and more with a scan limit above the default of 50, in every placement
	for _, long := range []string{"1,50x0,1,45x0", "51x0,1", "1,55x0,1", "1,49x0,1,2x0,1", "2x1,52x0,3x1,1x0",
		// stacks longer than a machine word has bits, with short runs only
		"10x1,5x0,55x1", "63x1,5x0,2x1", "20x1,2x0,20x1,3x0,30x1", "64x1,1x0,1", "60x1,1x0,9x1", "33x1,1x0,33x1,1x0,33x1,1x0,33x1", "5x0,130x1",
		// ... and longer than 256 / 512 / 1024 slices
		"250x1,5x0,45x1", "5x0,300x1", "255x1,1x0,4x1", "500x1,5x0,30x1", "1020x1,5x0,10x1"} {
		for _, lim := range []int{0, 60, 100} {
			run := 0
			for _, v := range longValues(long) {
				if v == nil {
					run++
				}
			}
			if lim == 0 && run >= 50 {
				continue // the default limit is 50: the property does not speak about longer runs
			}
			for _, pl := range []string{"top", "top-mutex", "in-stack", "alias", "ptr-alias", "in-cond", "in-cond-only", "in-cond-alias", "deep", "in-stack-parent-options", "in-cond-nonesting-parent"} {
				kind := "AND"
				if pl == "top" {
					kind = "LIST"
				}
				out = append(out, c19Case{0, 0, lim, false, false, pl, kind, false, long, false, 0, false, 0, false, false, false})
			}
		}
	}
	return out
}

func init() {
	register(&Check{ID: "C19", Engine: "B", Run: func(c *Ctx) {
		installLockModel()
		cases := c19Cases(c)
		c.Rule = "every nil/non-nil pattern of length 0..max over distinct tokens x scan limit {default,1,2,3,13} (only patterns whose longest nil run is shorter than the limit) x index options x placement (top level, element of a Stack, alias, pointer to alias, expression of a Condition, Condition alias holding an alias, two levels deep); non-trivial = distinct cases that contain at least one nil"
		parallelFor(len(cases), func(i int) { c19Run(c, cases[i], true) })
		c.States.Store(int64(len(cases)))
		c.Exhaustive = true
		c.Bound["max_len_top"] = cases[len(cases)-1].Len
		c.Sample(cases[1])
		c.Sample(cases[len(cases)/3])
		c.Sample(cases[len(cases)-1])
	}, Replay: func(c *Ctx, raw json.RawMessage) {
		var cs c19Case
		json.Unmarshal(raw, &cs)
		c19Run(c, cs, false)
	}})
}
