package main

import (
	"encoding/json"
	"fmt"
	"math"
	"reflect"
	"sort"
	"strings"
	"sync/atomic"
	"time"

	stackage "github.com/JesseCoretta/go-stackage"
)

// C08 — no index and no element value can panic or corrupt a Stack (Engine B, reflection-driven).

type c08Cfg struct {
	Kind string `json:"kind"`
	Len  int    `json:"len"`
	Mask int    `json:"nonnil_mask"`
	Neg  bool   `json:"neg"`
	Fwd  bool   `json:"fwd"`
	Cap  int    `json:"cap"`
	Mtx  bool   `json:"mutex,omitempty"`
	// Rebuilt: the same content reached the long way round - one value more was pushed in front and taken out
	// again with Remove(0) (the library rebuilds the backing array on that path)
	Rebuilt bool `json:"reached_through_remove,omitempty"`
}

func (cf c08Cfg) build() (stackage.Stack, *listModel) {
	var s stackage.Stack
	if cf.Cap > 0 {
		s = newStackKind(cf.Kind, cf.Cap)
	} else {
		s = newStackKind(cf.Kind)
	}
	m := &listModel{capk: cf.Cap, neg: cf.Neg, fwd: cf.Fwd}
	if cf.Neg {
		s.SetNegativeIndices(true)
	}
	if cf.Fwd {
		s.SetForwardIndices(true)
	}
	vals := patternValues(cf.Len, cf.Mask, "e")
	if cf.Rebuilt && cf.Len > 0 {
		s.Push("passing-through")
		s.Push(vals[:cf.Len-1]...) // one slot short of the content, so that a capacity of Len is enough
		s.Remove(0)
		s.Push(vals[cf.Len-1])
	} else {
		s.Push(vals...)
	}
	m.push(vals...)
	if cf.Mtx {
		s.SetMutex()
	}
	return s, m
}

// c08Nested: the index options belong to the stack that is being indexed. A nested stack (a direct
// element, a Condition's expression) with its own combination of the two options, inside a parent with any
// other combination: the second index of Traverse is resolved by the nested stack's options, the first by
// the parent's.
func c08Nested(c *Ctx) int {
	n := 0
	for pv := 0; pv < 4; pv++ {
		for cv := 0; cv < 4; cv++ {
			for L := 0; L <= 3; L++ {
				for _, viaCond := range []bool{false, true} {
					child := stackage.Or()
					cm := &listModel{neg: cv&1 != 0, fwd: cv&2 != 0}
					child.SetNegativeIndices(cm.neg).SetForwardIndices(cm.fwd)
					vals := patternValues(L, (1<<L)-1, "c")
					child.Push(vals...)
					cm.push(vals...)
					var el any = child
					if viaCond {
						el = stackage.Cond("k", stackage.Eq, child)
					}
					parent := stackage.And().SetNegativeIndices(pv&1 != 0).SetForwardIndices(pv&2 != 0).Push("p0", el, "p2")
					firsts := []int{1}
					if pv&1 != 0 {
						firsts = append(firsts, -2)
					}
					for _, i1 := range firsts {
						for _, i2 := range c08IndexValues(L) {
							var gv any
							var gok bool
							n++
							c.Transitions.Add(1)
							desc := fmt.Sprintf("Traverse(%d,%d): parent AND [p0 <nested> p2] neg=%v fwd=%v, nested OR of %d elements (as a Condition's expression: %v) neg=%v fwd=%v", i1, i2, pv&1 != 0, pv&2 != 0, L, viaCond, cm.neg, cm.fwd)
							if p := noPanic(func() { gv, gok = parent.Traverse(i1, i2) }); p != "" {
								c.Violation("nested-index-options:panic", desc+" panicked: "+p, nil, 0)
								continue
							}
							if wv, wok := cm.index(i2); gv != wv || gok != wok {
								c.Violation("nested-index-options:Traverse", fmt.Sprintf("%s = (%s,%v), want (%s,%v): the nested stack's own options decide", desc, show(gv), gok, show(wv), wok), nil, 0)
							}
						}
					}
				}
			}
		}
	}
	return n
}

func c08IndexValues(L int) []int {
	v := []int{math.MinInt, math.MinInt + 1, math.MaxInt - 1, math.MaxInt, math.MinInt / 2, math.MaxInt / 2}
	for i := -L - 2; i <= L+2; i++ {
		v = append(v, i)
	}
	return v
}

type c08IntCase struct {
	Cfg  c08Cfg `json:"stack"`
	Op   string `json:"op"`
	Args []int  `json:"args"`
}

// c08IntRun performs one int-argument call on a fresh stack and compares with the reference.
func c08IntRun(c *Ctx, cs c08IntCase, count bool) {
	s, m := cs.Cfg.build()
	before := dumpKey(s)
	size := cs.Cfg.Len + len(cs.Op)
	desc := fmt.Sprintf("%s%v on %s (len %d, non-nil mask %b, neg=%v fwd=%v cap=%d)", cs.Op, cs.Args, cs.Cfg.Kind, cs.Cfg.Len, cs.Cfg.Mask, cs.Cfg.Neg, cs.Cfg.Fwd, cs.Cfg.Cap)
	viol := func(k, f string, a ...any) { c.Violation(k, desc+": "+fmt.Sprintf(f, a...), cs, size) }
	i := cs.Args[0]
	j := 0
	if len(cs.Args) > 1 {
		j = cs.Args[1]
	}
	_, addressed := m.resolve(i)
	plain := i >= 0 && i < len(m.items)
	var p string
	unchangedWanted := false
	if count {
		c.Evals.Add(1)
		c.Transitions.Add(1)
		c.Traces.Add(1)
	}
	switch cs.Op {
	case "Index":
		var gv any
		var gok bool
		p = noPanic(func() { gv, gok = s.Index(i) })
		wv, wok := m.index(i)
		if p == "" && (gv != wv || gok != wok) {
			viol("Index:wrong", "returned (%s,%v) want (%s,%v)", show(gv), gok, show(wv), wok)
		}
		unchangedWanted = true
	case "Remove":
		var gv any
		var gok bool
		p = noPanic(func() { gv, gok = s.Remove(i) })
		wv, wok := m.remove(i)
		if p == "" && (gv != wv || gok != wok) {
			viol("Remove:wrong-return", "returned (%s,%v) want (%s,%v)", show(gv), gok, show(wv), wok)
		}
		unchangedWanted = !addressed
	case "Replace":
		var gok bool
		p = noPanic(func() { gok = s.Replace("NEW", i) })
		if p == "" {
			switch {
			case plain:
				if !gok {
					viol("Replace:refused", "returned false for an existing position")
				}
				m.replace("NEW", i)
			case gok && addressed:
				// an option-resolved position was replaced: accepted (DESIGN.md §4)
				pos, _ := m.resolve(i)
				m.replace("NEW", pos)
			case gok:
				viol("Replace:true-for-bad-index", "returned true although the index addresses no element")
			}
		}
		unchangedWanted = !addressed
	case "Swap":
		p = noPanic(func() { s.Swap(i, j) })
		_, addressedJ := m.resolve(j)
		plainJ := j >= 0 && j < len(m.items)
		if plain && plainJ {
			m.swap(i, j)
		} else if addressed && addressedJ && p == "" {
			// option-resolved swap accepted if that is what happened
			pi, _ := m.resolve(i)
			pj, _ := m.resolve(j)
			alt := m.clone()
			alt.swap(pi, pj)
			if sameList(contents(s), alt.items) {
				m = alt
			}
		}
		unchangedWanted = !(addressed && addressedJ)
	case "Traverse":
		var gv any
		var gok bool
		p = noPanic(func() { gv, gok = s.Traverse(cs.Args...) })
		wv, wok := m.index(i)
		if len(cs.Args) > 1 {
			wv, wok = nil, false // leaves cannot be descended into
		}
		if p == "" && (gv != wv || gok != wok) {
			viol("Traverse:wrong", "returned (%s,%v) want (%s,%v)", show(gv), gok, show(wv), wok)
		}
		unchangedWanted = true
	case "Insert":
		var gok bool
		p = noPanic(func() { gok = s.Insert("NEW", i) })
		wok := m.insert("NEW", i)
		if p == "" && gok != wok {
			viol("Insert:wrong-return", "returned %v want %v", gok, wok)
		}
	case "Less":
		p = noPanic(func() { s.Less(i, j) })
		unchangedWanted = true
	case "Defrag":
		// content after Defrag is C19's subject; here: any int is a legal scan limit
		p = noPanic(func() { s.Defrag(i) })
		if p == "" && !s.IsInit() {
			viol("Defrag:config-lost", "stack no longer initialised")
		}
		if count {
			c.Outcome("Defrag")
		}
		if p != "" {
			viol("panic:Defrag", "panicked: %s", p)
		}
		return
	}
	if p != "" {
		viol("panic:"+cs.Op, "panicked: %s", p)
		return
	}
	if cs.Cfg.Mtx {
		if m := stackage.VerifDump(s).Mtx; m != 0 {
			if _, held := heldMutexes.Load(m); held {
				heldMutexes.Delete(m)
				viol("lock-leaked:"+cs.Op, "the stack's mutex is still held after the call returned (the next locking call would block forever)")
				return
			}
		}
	}
	if !s.IsInit() || s.Kind() != cs.Cfg.Kind {
		viol(cs.Op+":stack-destroyed", "afterwards IsInit=%v Kind=%s (the configuration slot was overwritten)", s.IsInit(), s.Kind())
		return
	}
	if unchangedWanted {
		if after := dumpKey(s); after != before {
			viol(cs.Op+":changed-on-failure", "the index addresses no element (or the call is a query) but the stack changed:\n before %s\n after  %s", before, after)
			return
		}
	}
	for _, b := range compareList(s, m) {
		viol(cs.Op+":content:"+obsClass(b), "%s", b)
	}
	if count {
		if !addressed {
			c.Nontrivial(jsonString(cs))
		}
		c.Outcome(fmt.Sprintf("%s/%v/%v", cs.Op, addressed, plain))
	}
}

// ---- awkward values --------------------------------------------------------------------------------

type c08ValCase struct {
	Recv   string `json:"receiver"`
	Method string `json:"method"`
	Args   string `json:"args"`
}

// selfRef stands for "the receiver itself" among the argument values (0 the same handle, 1 an alias of
// it, 2 a pointer to it, 3 a Condition whose expression is the receiver): two names, one structure.
type selfRef int

func c08Receivers() map[string]func() any {
	return map[string]func() any{
		"LIST cap mutex": func() any { return stackage.List(8).SetMutex().Push("a", "b") },
		"AND": func() any {
			return stackage.And().Push("a", stackage.Or().Push("b"), stackage.Cond("k", stackage.Eq, "v"))
		},
		"LIST+idx": func() any {
			return stackage.List().SetNegativeIndices(true).SetForwardIndices(true).Push("a", nil, "c")
		},
		"BASIC cap": func() any { return stackage.Basic(4).Push(1, 2) },
		"NOT mutex": func() any { return stackage.Not().SetMutex().Push("x") },
		"OR mutex strings-only policy": func() any {
			return stackage.Or().SetMutex().SetPushPolicy(func(x ...any) error {
				if _, ok := x[0].(string); !ok {
					return errCat
				}
				return nil
			}).Push("x")
		},
		"empty OR": func() any { return stackage.Or() },
		"LIST enc": func() any { return stackage.List().SetEncap(`"`).SetDelimiter(",").SetID("x").Push("a", "b") },
		"Condition enc": func() any {
			return stackage.Cond("kw", stackage.Eq, "val").SetEncap([]string{"<", ">"})
		},
		"Condition": func() any { return stackage.Cond("kw", stackage.Ge, "val") },
		"Condition(stack)": func() any {
			return stackage.Cond("kw", stackage.Ne, stackage.And().Push("x", "y"))
		},
	}
}

// followUps exercises a structure after an awkward value has been handed to it.
func followUps(x any, twins ...any) (string, string) {
	type fu struct {
		n string
		f func()
	}
	var list []fu
	switch tv := x.(type) {
	case stackage.Stack:
		var twin any = tv
		if len(twins) > 0 {
			twin = twins[0] // an independently built structure that went through the same call
		}
		list = []fu{
			{"String", func() { _ = tv.String() }}, {"Unmarshal", func() { tv.Unmarshal() }}, {"IsEqual(self)", func() { tv.IsEqual(tv) }},
			{"IsEqual(twin)", func() { tv.IsEqual(twin) }}, {"Valid", func() { tv.Valid() }}, {"IsNesting", func() { tv.IsNesting() }},
			{"Traverse(0)", func() { tv.Traverse(0) }}, {"Traverse(0,0)", func() { tv.Traverse(0, 0) }}, {"Front", func() { tv.Front() }}, {"Back", func() { tv.Back() }},
			{"Less(0,1)", func() { tv.Less(0, 1) }}, {"Len", func() { tv.Len() }}, {"Kind", func() { tv.Kind() }},
			{"Less(every pair)", func() {
				for i := -1; i <= tv.Len(); i++ {
					for j := -1; j <= tv.Len(); j++ {
						tv.Less(i, j)
					}
				}
			}},
			{"sort.Stable", func() {
				if !tv.IsReadOnly() {
					sort.Stable(tv)
				}
			}},
			{"Reveal", func() { tv.Reveal() }},
			// round 14: each element once more as the ONLY child of a plain wrapper inside a parent that is revealed
			{"Reveal of a parent of single-element wrappers", func() {
				parent := stackage.And()
				for i := 0; i < tv.Len() && i < 8; i++ {
					if e, ok := tv.Index(i); ok {
						parent.Push(stackage.Or().Push(e))
					}
				}
				parent.Reveal()
			}},
			{"Defrag", func() { tv.Defrag() }}, {"String again", func() { _ = tv.String() }}, {"Pop", func() { tv.Pop() }}, {"Reset", func() { tv.Reset() }},
		}
	case stackage.Condition:
		var twin any = tv
		if len(twins) > 0 {
			twin = twins[0]
		}
		list = []fu{
			{"String", func() { _ = tv.String() }}, {"Unmarshal", func() { tv.Unmarshal() }}, {"IsEqual(self)", func() { tv.IsEqual(tv) }}, {"IsEqual(twin)", func() { tv.IsEqual(twin) }}, {"Valid", func() { tv.Valid() }},
			{"IsNesting", func() { tv.IsNesting() }}, {"Len", func() { tv.Len() }}, {"IsFIFO", func() { tv.IsFIFO() }}, {"Expression", func() { tv.Expression() }}, {"Keyword", func() { tv.Keyword() }},
		}
	}
	for _, f := range list {
		if p := noPanic(f.f); p != "" {
			return f.n, p
		}
	}
	return "", ""
}

func c08ValueCases(c *Ctx, run bool) (n int) {
	recvs := c08Receivers()
	aw := awkwardAny()
	awSelf := append(append([]namedValue{}, aw...), nv("SELF", selfRef(0)), nv("SELF as alias", selfRef(1)), nv("pointer to SELF", selfRef(2)), nv("Condition over SELF", selfRef(3)))
	pick := func(t reflect.Type, pos int) []namedValue {
		switch t {
		case anyType:
			return awSelf
		case opType:
			return []namedValue{{"Eq", reflect.ValueOf(stackage.Eq)}, {"nil-op", reflect.Zero(opType)}, nv("userOp{}", userOp{}), nv("ComparisonOperator(200)", stackage.ComparisonOperator(200)), nv("sliceOp", sliceOp{"=~", "ctx"})}
		case intType:
			return []namedValue{nv("0", 0), nv("-1", -1), nv("99", 99)}
		}
		return basicValues(t)
	}
	type job struct {
		rname string
		me    methodEntry
		t     argTuple
	}
	var jobs []job
	for rname, mk := range recvs {
		sample := mk()
		var ms []methodEntry
		if _, ok := sample.(stackage.Stack); ok {
			ms = methodsOf(stackage.Stack{}, "Stack")
		} else {
			ms = methodsOf(stackage.Condition{}, "Condition")
		}
		for _, me := range ms {
			takesAny := false
			for i := 0; i < me.Type.NumIn(); i++ {
				t := me.Type.In(i)
				if t == anyType || t == opType || (me.Type.IsVariadic() && i == me.Type.NumIn()-1 && t.Elem() == anyType) {
					takesAny = true
				}
			}
			limit := 400
			if !takesAny {
				// the methods that take no element value (options, Free, Init, Reset, getters ...) with a small
				// catalogue: what matters for them is what every other handle on the instance does afterwards
				limit = 24
			}
			for _, t := range argTuples(me.Type, pick, limit) {
				jobs = append(jobs, job{rname, me, t})
			}
		}
	}
	if !run {
		return len(jobs)
	}
	parallelFor(len(jobs), func(i int) {
		j := jobs[i]
		c08ValRun(c, recvs[j.rname], c08ValCase{j.rname, j.me.Name, j.t.Desc}, j.t.Args, true)
	})
	return len(jobs)
}

func c08ValRun(c *Ctx, mk func() any, cs c08ValCase, args []reflect.Value, count bool) {
	x := mk()
	pv := reflect.New(reflect.TypeOf(x))
	pv.Elem().Set(reflect.ValueOf(x))
	// a twin built independently goes through the same call, so that IsEqual afterwards really
	// compares two structures (an instance compared with itself takes a pointer shortcut)
	y := mk()
	pw := reflect.New(reflect.TypeOf(y))
	pw.Elem().Set(reflect.ValueOf(y))
	if count {
		c.Evals.Add(1)
		c.Transitions.Add(1)
		c.Traces.Add(1)
	}
	desc := fmt.Sprintf("%s.%s(%s)", cs.Recv, cs.Method, cs.Args)
	argsX, argsY, usesSelf := c08Self(args, x), c08Self(args, y), false
	for i := range args {
		if args[i].IsValid() && args[i].Type() == reflect.TypeOf(selfRef(0)) {
			usesSelf = true
		}
	}
	if usesSelf && cs.Method != "Transfer" && cs.Method != "IsEqual" {
		// methods that store their argument (Push, Insert, Replace, SetExpression, Marshal) would build a
		// structure that contains itself; cyclic structures are outside the statement's value domain
		return
	}
	if usesSelf && !strings.Contains(cs.Recv, "cap") {
		// a structure handed to itself is only tried on capacity-limited receivers, where a call
		// that feeds on its own output still comes to an end
		return
	}
	var lenBefore, capBefore int
	if sx, ok := x.(stackage.Stack); ok {
		lenBefore, capBefore = sx.Len(), sx.Cap()
	}
	argsBefore := c08ArgText(argsX)
	// the instance is also an element of somebody else's stack
	holder := stackage.List().Push(x)
	callMethod(pw, cs.Method, argsY)
	_, p := callMethod(pv, cs.Method, argsX)
	if p == "" && !usesSelf {
		// the same call once more: it now meets whatever the first one stored (e.g. a slot that already
		// holds a value of the very type that is offered again)
		callMethod(pw, cs.Method, argsY)
		_, p = callMethod(pv, cs.Method, argsX)
		if p != "" {
			p = "(second identical call) " + p
		}
	}
	if p == "" && !usesSelf {
		if after := c08ArgText(argsX); after != argsBefore {
			c.Violation("argument-modified:"+cs.Method, fmt.Sprintf("%s changed a value the caller handed in (the caller's slice / map / array): before %s after %s", desc, argsBefore, after), cs, len(desc))
		}
	}
	if sx, ok := x.(stackage.Stack); ok && p == "" && usesSelf && cs.Method == "Transfer" && !strings.Contains(cs.Args, "Condition over") {
		// a stack transferred onto itself holds its elements twice if they fit, and is unchanged otherwise
		want := lenBefore
		if capBefore < 0 || 2*lenBefore <= capBefore {
			want = 2 * lenBefore
		}
		if got := sx.Len(); got != want {
			c.Violation("self-transfer-corrupts", fmt.Sprintf("%s: the stack held %d elements (capacity %d) and holds %d afterwards, want %d (content %s)", desc, lenBefore, capBefore, got, want, showList(contents(sx))), cs, len(desc))
		}
	}
	if p != "" {
		if strings.Contains(p, "harness/gen.go") && strings.Contains(p, "ptrOp") {
			return // the panic is inside the user's own nil-receiver method
		}
		c.Violation("panic:"+cs.Method+":"+awkClass(cs.Args), desc+" panicked: "+p, cs, len(desc))
		return
	}
	// the receiver (the same underlying instance) must remain usable
	if fn, p := followUps(x, y); p != "" {
		c.Violation("panic-after:"+cs.Method+":"+awkClass(cs.Args)+":"+fn, desc+" returned, but "+fn+" then panicked: "+p, cs, len(desc))
		return
	}
	if fn, p := followUps(holder); p != "" {
		c.Violation("panic-after:"+cs.Method+":"+awkClass(cs.Args)+":holder."+fn, desc+" returned, but "+fn+" on a stack that holds the instance as an element then panicked: "+p, cs, len(desc))
		return
	}
	if count {
		c.Nontrivial(desc)
		c.Outcome(cs.Method)
	}
}

// c08ArgText renders the arguments as the caller sees them (slices, maps and arrays by content).
func c08ArgText(args []reflect.Value) string {
	var p []string
	for _, a := range args {
		if !a.IsValid() {
			p = append(p, "<invalid>")
			continue
		}
		switch a.Kind() {
		case reflect.Slice, reflect.Map, reflect.Array:
			txt := ""
			if noPanic(func() { txt = fmt.Sprintf("%#v", a.Interface()) }) != "" {
				txt = "<unprintable>"
			}
			p = append(p, txt)
		default:
			p = append(p, a.Type().String())
		}
	}
	return strings.Join(p, " | ")
}

// c08Self substitutes the receiver for the selfRef placeholders.
func c08Self(args []reflect.Value, recv any) []reflect.Value {
	out := make([]reflect.Value, len(args))
	for i, a := range args {
		out[i] = a
		if !a.IsValid() || a.Type() != reflect.TypeOf(selfRef(0)) {
			continue
		}
		var v any = recv
		switch tv := recv.(type) {
		case stackage.Stack:
			switch a.Interface().(selfRef) {
			case 1:
				v = StackAlias(tv)
			case 2:
				v = &tv
			case 3:
				v = stackage.Cond("self", stackage.Eq, tv)
			}
		case stackage.Condition:
			switch a.Interface().(selfRef) {
			case 1:
				v = CondAlias(tv)
			case 2:
				v = &tv
			case 3:
				v = stackage.Cond("self", stackage.Eq, tv)
			}
		}
		out[i] = reflect.ValueOf(v)
	}
	return out
}

// awkClass reduces an argument description to the awkward value's class for violation keys.
func awkClass(args string) string {
	for _, k := range []string{"(*Stack)(nil)", "(*Condition)(nil)", "(*StackAlias)(nil)", "(*CondAlias)(nil)", "Stack{}", "Condition{}", "StackAlias{}", "CondAlias{}", "freed", "nil-op", "NaN", "Inf", "unexported", "func", "chan", "map", "reflect.Value", "[]any", "(*int)(nil)", "string)(nil)", "[]string{}", "userOp{}"} {
		if strings.Contains(args, k) {
			return k
		}
	}
	if len(args) > 24 {
		return args[:24]
	}
	return args
}

// c08CrossCompare compares structures holding DIFFERENT awkward values with each other, in both
// directions and both as Stack elements and as Condition expressions: comparing never panics.
func c08CrossCompare(c *Ctx) int {
	aw := awkwardAny()
	val := func(v namedValue) any {
		if !v.V.IsValid() || (v.V.Kind() == reflect.Interface && v.V.IsNil()) {
			return nil
		}
		return v.V.Interface()
	}
	n := 0
	parallelFor(len(aw), func(i int) {
		for j := range aw {
			a, b := val(aw[i]), val(aw[j])
			c.Transitions.Add(2)
			s1, s2 := stackage.And().Push("lead", a), stackage.And().Push("lead", b)
			if p := noPanic(func() { s1.IsEqual(s2) }); p != "" {
				c.Violation("panic:IsEqual-cross:"+awkClass(aw[i].N), fmt.Sprintf("And(lead, %s).IsEqual(And(lead, %s)) panicked: %s", aw[i].N, aw[j].N, p), nil, 0)
			}
			c1, c2 := stackage.Cond("k", stackage.Eq, a), stackage.Cond("k", stackage.Eq, b)
			if p := noPanic(func() { c1.IsEqual(c2) }); p != "" {
				c.Violation("panic:Cond.IsEqual-cross:"+awkClass(aw[i].N), fmt.Sprintf("Cond(k,=,%s).IsEqual(Cond(k,=,%s)) panicked: %s", aw[i].N, aw[j].N, p), nil, 0)
			}
		}
	})
	n = len(aw) * len(aw) * 2
	return n
}

func c08IntCases(c *Ctx) []c08IntCase {
	var out []c08IntCase
	maxLen := 3
	kinds := []string{"AND", "LIST"}
	if !c.Quick() {
		maxLen = 4
		kinds = kindNames
	}
	for ki, k := range kinds {
		for n := 0; n <= maxLen; n++ {
			masks := []int{(1 << n) - 1}
			if n >= 2 {
				masks = append(masks, ((1<<n)-1)&^2, ((1<<n)-1)&^(1<<(n-1))) // a nil slot inside / at the end
			}
			for _, mask := range masks {
				for o := 0; o < 4; o++ {
					for _, cp := range []int{0, n, n + 1} {
						if cp == 0 && n > 0 && false {
							continue
						}
						if cp == n && n == 0 {
							continue
						}
						if c.Quick() && ki > 0 && cp != 0 {
							continue
						}
						for _, mtx := range []bool{false, true} {
							if mtx && (cp != 0 || (c.Quick() && mask != (1<<n)-1)) {
								continue
							}
							cf := c08Cfg{k, n, mask, o&1 != 0, o&2 != 0, cp, mtx, false}
							idx := c08IndexValues(n)
							for _, i := range idx {
								for _, op := range []string{"Index", "Remove", "Replace", "Traverse", "Insert", "Defrag"} {
									out = append(out, c08IntCase{cf, op, []int{i}})
								}
								if n > 0 && mask == (1<<n)-1 && !mtx {
									rb := cf
									rb.Rebuilt = true
									for _, op := range []string{"Index", "Remove", "Replace", "Insert"} {
										out = append(out, c08IntCase{rb, op, []int{i}})
									}
								}
								out = append(out, c08IntCase{cf, "Traverse", []int{i, 0}})
								for _, j := range idx {
									if c.Quick() && mask != (1<<n)-1 {
										continue
									}
									out = append(out, c08IntCase{cf, "Swap", []int{i, j}}, c08IntCase{cf, "Less", []int{i, j}})
								}
							}
						}
					}
				}
			}
		}
	}
	// the long regime: lengths beyond any small fixed-size scratch area or growth step, one dimension at
	// a time (all four index-option settings, with and without capacity, a nil slot), index values at
	// every boundary
	longLens := []int{9, 10, 11, 17, 33}
	if !c.Quick() {
		longLens = []int{8, 9, 10, 11, 12, 16, 17, 31, 32, 33, 34, 40, 62}
	}
	for li, n := range longLens {
		full := (1 << n) - 1
		for _, mask := range []int{full, full &^ 2} {
			for o := 0; o < 4; o++ {
				for _, cp := range []int{0, n + 1} {
					cf := c08Cfg{kindNames[(li+o)%5], n, mask, o&1 != 0, o&2 != 0, cp, cp != 0 && o == 3, false}
					idx := []int{math.MinInt, math.MaxInt, -n - 1, -n, -n + 1, -2, -1, 0, 1, n / 2, n - 2, n - 1, n, n + 1}
					for _, i := range idx {
						for _, op := range []string{"Index", "Remove", "Replace", "Traverse", "Insert", "Defrag"} {
							out = append(out, c08IntCase{cf, op, []int{i}})
						}
						for _, j := range idx {
							out = append(out, c08IntCase{cf, "Swap", []int{i, j}}, c08IntCase{cf, "Less", []int{i, j}})
						}
					}
				}
			}
		}
	}
	return out
}

// c08GenericInts calls every method that takes int parameters and is NOT modelled above with
// extreme values: methods added later are at least checked for panics and for keeping the stack alive.
func c08GenericInts(c *Ctx) int {
	modelled := map[string]bool{"Index": true, "Remove": true, "Replace": true, "Swap": true, "Traverse": true, "Insert": true, "Less": true, "Defrag": true}
	n := 0
	for _, me := range methodsOf(stackage.Stack{}, "Stack") {
		hasInt := false
		for i := 0; i < me.Type.NumIn(); i++ {
			t := me.Type.In(i)
			if t == intType || (me.Type.IsVariadic() && i == me.Type.NumIn()-1 && t.Elem() == intType) {
				hasInt = true
			}
		}
		if !hasInt || modelled[me.Name] {
			continue
		}
		pick := func(t reflect.Type, pos int) []namedValue {
			if t == intType {
				return []namedValue{nv("MinInt", math.MinInt), nv("-1", -1), nv("0", 0), nv("3", 3), nv("MaxInt", math.MaxInt)}
			}
			return basicValues(t)
		}
		for _, t := range argTuples(me.Type, pick, 200) {
			s := stackage.And().Push("a", "b")
			pv := reflect.New(stackType)
			pv.Elem().Set(reflect.ValueOf(s))
			n++
			c.Transitions.Add(1)
			if _, p := callMethod(pv, me.Name, t.Args); p != "" {
				c.Violation("panic:"+me.Name, fmt.Sprintf("Stack.%s(%s) panicked: %s", me.Name, t.Desc, p), nil, 0)
			} else if !s.IsInit() && me.Name != "Free" {
				c.Violation(me.Name+":stack-destroyed", fmt.Sprintf("Stack.%s(%s) left the stack uninitialised", me.Name, t.Desc), nil, 0)
			}
		}
	}
	return n
}

// Pointer types that refer to themselves (type P *P; type A *B with type B *A): a nil value of such a type is
// a typed nil pointer "of any depth" - of every depth, in fact. A value tied to itself (p = &p) is tried as
// well. A library routine that peels pointers until it arrives somewhere never arrives: "returns normally"
// fails by not returning at all, so each of these calls runs under a watchdog (60 s for a call that takes
// microseconds; the first one that does not come back ends the pass, since a spinning goroutine cannot be
// stopped).
type selfPtr *selfPtr
type ptrA *ptrB
type ptrB *ptrA

func c08SelfPointers(c *Ctx, only *c08ValCase) int {
	var knot selfPtr
	knot = selfPtr(&knot)
	var ka ptrA
	var kb ptrB
	ka, kb = ptrA(&kb), ptrB(&ka)
	vals := []namedValue{nv("nil pointer of type P *P", selfPtr(nil)), nv("nil pointer of type A *B (B *A)", ptrA(nil)), nv("pointer of type P *P tied to itself", knot), nv("pointer of type A *B tied to itself in two steps", ka)}
	recvs := c08Receivers()
	type job struct {
		rname string
		me    methodEntry
		t     argTuple
	}
	var jobs []job
	for rname, mk := range recvs {
		var ms []methodEntry
		if _, ok := mk().(stackage.Stack); ok {
			ms = methodsOf(stackage.Stack{}, "Stack")
		} else {
			ms = methodsOf(stackage.Condition{}, "Condition")
		}
		for _, me := range ms {
			takesAny := false
			for i := 0; i < me.Type.NumIn(); i++ {
				t := me.Type.In(i)
				if t == anyType || (me.Type.IsVariadic() && i == me.Type.NumIn()-1 && t.Elem() == anyType) {
					takesAny = true
				}
			}
			if !takesAny {
				continue
			}
			pick := func(t reflect.Type, pos int) []namedValue {
				switch t {
				case anyType:
					return vals
				case opType:
					return []namedValue{{"Eq", reflect.ValueOf(stackage.Eq)}}
				case intType:
					return []namedValue{nv("0", 0)}
				}
				return basicValues(t)[:1]
			}
			for _, t := range argTuples(me.Type, pick, 40) {
				if only == nil || (only.Recv == rname && only.Method == me.Name && only.Args == t.Desc) {
					jobs = append(jobs, job{rname, me, t})
				}
			}
		}
	}
	sort.Slice(jobs, func(i, k int) bool {
		return jobs[i].rname+jobs[i].me.Name+jobs[i].t.Desc < jobs[k].rname+jobs[k].me.Name+jobs[k].t.Desc
	})
	var stuck atomic.Bool
	for _, j := range jobs {
		if stuck.Load() {
			break
		}
		done := make(chan struct{})
		j := j
		go func() {
			defer close(done)
			c08ValRun(c, recvs[j.rname], c08ValCase{j.rname, j.me.Name, j.t.Desc}, j.t.Args, only == nil)
		}()
		select {
		case <-done:
		case <-time.After(60 * time.Second):
			stuck.Store(true)
			desc := fmt.Sprintf("%s.%s(%s)", j.rname, j.me.Name, j.t.Desc)
			c.Violation("never-returns:"+j.me.Name, desc+" (or one of the queries made on the instance afterwards) did not return within 60 s: a pointer type that refers to itself is peeled for ever", c08ValCase{j.rname, j.me.Name, j.t.Desc}, len(desc))
		}
	}
	// the package-level converters
	for _, v := range vals {
		if stuck.Load() || only != nil {
			break
		}
		v := v
		done := make(chan string, 1)
		go func() {
			done <- noPanic(func() {
				stackage.ConvertStack(v.V.Interface())
				stackage.ConvertCondition(v.V.Interface())
			})
		}()
		select {
		case p := <-done:
			if p != "" {
				c.Violation("panic:Convert:self-pointer", "ConvertStack / ConvertCondition("+v.N+") panicked: "+p, nil, 0)
			}
		case <-time.After(60 * time.Second):
			stuck.Store(true)
			c.Violation("never-returns:Convert", "ConvertStack / ConvertCondition("+v.N+") did not return within 60 s: a pointer type that refers to itself is peeled for ever", nil, 0)
		}
	}
	return len(jobs) + len(vals)
}

func init() {
	register(&Check{ID: "C08", Engine: "B", Run: func(c *Ctx) {
		installLockModel()
		c.Bound["traversals_into_nested_stacks_with_their_own_index_options"] = c08Nested(c)
		cases := c08IntCases(c)
		c.Rule = "(ints) complete product of stacks (kinds, length 0..3/4, nil-slot patterns, negative/forward options, capacity none/Len/Len+1) x index values {MinInt, MinInt+1, MinInt/2, -Len-2..Len+2, MaxInt/2, MaxInt-1, MaxInt} x {Index, Remove, Replace, Traverse (1 and 2 indices), Insert, Defrag, Swap(i,j), Less(i,j)} against the reference list, plus every other int-taking method found by reflection with extreme values; (values) every Stack/Condition method found by reflection that takes `any` or an Operator x the catalogue of awkward values x 7 receivers, followed by String/Unmarshal/IsEqual/Valid/IsNesting/Traverse/Front/Back/Less/Reveal/Defrag/Pop/Reset on the same instance; the same for nil and knotted values of pointer types that refer to themselves (type P *P), each call under a 60 s watchdog; oracle: no panic, failure + raw dump unchanged for indices that address no element, stack still initialised; non-trivial = distinct int cases whose index addresses no element + distinct value cases"
		parallelFor(len(cases), func(i int) { c08IntRun(c, cases[i], true) })
		ng := c08GenericInts(c)
		nv := c08ValueCases(c, true)
		nx := c08CrossCompare(c)
		c.Bound["cross_comparisons"] = nx
		nsp := c08SelfPointers(c, nil)
		c.Bound["calls_with_self_referential_pointer_types"] = nsp
		c.States.Store(int64(len(cases) + nv + ng + nx + nsp))
		c.Exhaustive = true
		c.Bound["int_cases"] = len(cases)
		c.Bound["value_cases"] = nv
		c.Bound["generic_int_method_calls"] = ng
		c.Bound["awkward_values"] = len(awkwardAny())
		var unc []string
		for t := range uncatalogued {
			unc = append(unc, t)
		}
		c.Extra["uncatalogued_types"] = unc
		c.Sample(cases[0])
		c.Sample(cases[len(cases)/2])
		c.Sample(c08ValCase{"AND", "Push", "(*StackAlias)(nil)"})
		c.Assumptions = append(c.Assumptions, "Replace/Swap with a negative or oversize index may either fail without change or act on the option-resolved element (the statement defines the index options through 'addresses')", "a panic raised inside a user-supplied method on its own nil receiver is not the library's")
	}, Replay: func(c *Ctx, raw json.RawMessage) {
		var ic c08IntCase
		if json.Unmarshal(raw, &ic) == nil && ic.Op != "" {
			c08IntRun(c, ic, false)
			return
		}
		var vc c08ValCase
		json.Unmarshal(raw, &vc)
		if strings.Contains(vc.Args, "pointer of type") {
			c08SelfPointers(c, &vc)
			return
		}
		recvs := c08Receivers()
		pickAll := func(t reflect.Type, pos int) []namedValue {
			if t == anyType {
				return awkwardAny()
			}
			return basicValues(t)
		}
		var ms []methodEntry
		if strings.HasPrefix(vc.Recv, "Condition") {
			ms = methodsOf(stackage.Condition{}, "Condition")
		} else {
			ms = methodsOf(stackage.Stack{}, "Stack")
		}
		for _, me := range ms {
			if me.Name != vc.Method {
				continue
			}
			for _, t := range argTuples(me.Type, pickAll, 400) {
				if t.Desc == vc.Args {
					c08ValRun(c, recvs[vc.Recv], vc, t.Args, false)
				}
			}
		}
	}})
}
