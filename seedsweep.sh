#!/bin/bash
# Re-verifies every stored seeded change against the current /repo HEAD and the current checks,
# rewriting each meta.json. Usage: ./seedsweep.sh [tier]   (must not run concurrently with other checks:
# it applies each patch to /repo and reverts it)
TIER="${1:-quick}"
cd /verif || exit 2
# SWEEP_ONLY / SWEEP_SKIP: extended regular expressions on the property id (e.g. SWEEP_SKIP='C10|C11');
# with SEED_OVERLAY=1 the patches are laid over /repo at build time instead of being applied to it
for d in seeded/*/; do
  n=$(basename "$d"); id=${n%%-*}; label=${n#*-}
  if [ -n "${SWEEP_ONLY:-}" ] && ! echo "$id" | grep -Eq "^(${SWEEP_ONLY})$"; then continue; fi
  if [ -n "${SWEEP_SKIP:-}" ] && echo "$id" | grep -Eq "^(${SWEEP_SKIP})$"; then continue; fi
  tmp=$(mktemp -d /tmp/sweep-XXXXXX)
  cp "$d"/patch.diff "$d"/demo_test.go "$tmp"/; [ -f "$d/notes.txt" ] && cp "$d/notes.txt" "$tmp"/
  ./seedtest.sh "$id" "$label" "$tmp" "$TIER" 2>&1 | tail -1 | cut -c1-200
  rm -rf "$tmp"
done
git -C /repo status --short
