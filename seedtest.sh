#!/bin/bash
# usage: seedtest.sh <property> <label> <dir with patch.diff demo_test.go notes.txt> [tier]
# Verifies a seeded property-breaking change in a scratch worktree (suite passes, demo fails with it
# and passes without it), then applies it to /repo, runs the property's check, and reverts /repo.
# On success the change is stored under /verif/seeded/<property>-<label>/ with meta.json.
set -u
export GOFLAGS=-mod=mod GOPROXY=off GOSUMDB=off GOTOOLCHAIN=local
ID="$1"; LABEL="$2"; SRC="$3"; TIER="${4:-quick}"
WT=/tmp/vs-$ID-$LABEL-$$
res() { echo "SEED $ID-$LABEL: $*"; }
git -C /repo worktree add -q --detach "$WT" HEAD || exit 2
cleanup() { git -C /repo worktree remove --force "$WT" 2>/dev/null; rm -rf "$WT"; }
trap cleanup EXIT
cd "$WT" || exit 2
cp "$SRC/demo_test.go" zz_seeded_demo_test.go
if ! go test -tags verif -count=1 -run 'TestSeeded' . >/tmp/vs-$$.log 2>&1; then res "REJECT demo fails on clean tree"; tail -5 /tmp/vs-$$.log; exit 3; fi
rm zz_seeded_demo_test.go
if ! git apply "$SRC/patch.diff"; then res "REJECT patch does not apply to current HEAD"; exit 3; fi
if ! go build ./... ; then res "REJECT does not build"; exit 3; fi
if ! go test -count=1 ./... >/tmp/vs-$$.log 2>&1; then res "REJECT suite fails with change"; tail -5 /tmp/vs-$$.log; exit 3; fi
cp "$SRC/demo_test.go" zz_seeded_demo_test.go
if go test -tags verif -count=1 -run 'TestSeeded' . >/tmp/vs-$$.log 2>&1; then res "REJECT demo passes with change"; exit 3; fi
rm -f /tmp/vs-$$.log
cd /verif
if [ "${SEED_OVERLAY:-0}" = "2" ] || { [ "${SEED_OVERLAY:-0}" = "1" ] && [ "$ID" != "C10" ] && [ "$ID" != "C11" ]; }; then
  # interim mode (used while another run occupies /repo and /verif/.bin/check): the patched files of
  # the scratch worktree are laid over /repo's with `go build -overlay`; /repo itself is not touched.
  rm -f "$WT/zz_seeded_demo_test.go"
  python3 - "$WT" > /tmp/vs-$$.overlay.json <<'PY'
import json,subprocess,sys
wt=sys.argv[1]
names=subprocess.run(["git","-C",wt,"status","--porcelain"],capture_output=True,text=True).stdout.split("\n")
rep={}
for l in names:
    if l.strip():
        n=l[3:].strip()
        rep["/repo/"+n]=wt+"/"+n
print(json.dumps({"Replace":rep}))
PY
  export GOCACHE=/verif/.cache/go-build CGO_ENABLED=1
  export VERIF_EVIDENCE_DIR=/tmp/vs-$$.evidence
  (cd /verif/harness && go build -tags verif -overlay /tmp/vs-$$.overlay.json -o /verif/.bin/check-seed-$$ . ) || { res "overlay build failed"; exit 2; }
  timeout 1500 /verif/.bin/check-seed-$$ -prop "$ID" -tier "$TIER" > /tmp/vs-$$.out 2>&1; RC=$?
  rm -rf /verif/.bin/check-seed-$$ /tmp/vs-$$.overlay.json /tmp/vs-$$.evidence; unset VERIF_EVIDENCE_DIR
else
if [ -n "$(git -C /repo status --porcelain)" ]; then res "ABORT /repo not clean"; exit 2; fi
git -C /repo apply "$SRC/patch.diff" || exit 2
trap 'git -C /repo checkout -- . ; cleanup' EXIT INT TERM
timeout 1500 ./run.sh "$ID" "$TIER" > /tmp/vs-$$.out 2>&1; RC=$?
git -C /repo checkout -- . 
fi
NV=$(grep -c '^VIOLATION' /tmp/vs-$$.out)
FIRST=$(grep -A2 '^VIOLATION' /tmp/vs-$$.out | head -3 | tr '\n' ' ' | cut -c1-400)
SUMMARY=$(tail -1 /tmp/vs-$$.out)
DEST=/verif/seeded/$ID-$LABEL
[ "${NO_STORE:-0}" = "1" ] && DEST=/tmp/vs-$$.dest   # dry run: nothing is left under seeded/
mkdir -p "$DEST"; cp "$SRC/patch.diff" "$SRC/demo_test.go" "$DEST/"; [ -f "$SRC/notes.txt" ] && cp "$SRC/notes.txt" "$DEST/"
python3 - "$ID" "$LABEL" "$TIER" "$RC" "$NV" "$FIRST" "$SUMMARY" "$DEST" <<'PY'
import json,sys,subprocess
id,label,tier,rc,nv,first,summary,dest=sys.argv[1:9]
notes=""
try: notes=open(dest+"/notes.txt").read()
except Exception: pass
head=subprocess.run(["git","-C","/repo","log","--format=%h","-1"],capture_output=True,text=True).stdout.strip()
meta={"property":id,"label":label,"breaks":notes.strip(),"needs_to_manifest":"see notes","origin":"independent sub-agent given only the property text and a scratch worktree",
 "verified":{"repo_head":head,"suite_passes_with_change":True,"demo_passes_clean":True,"demo_fails_with_change":True,
 "check_cmd":f"./run.sh {id} {tier}","check_exit":int(rc),"violation_lines":int(nv),"first_violation":first,"check_summary":summary},
 "detected": int(rc)==1 and int(nv)>0}
import os
if os.environ.get("NO_STORE")=="1":   # dry run: report, leave the stored record alone
    print("SEED %s-%s: detected=%s exit=%s violations=%s | %s"%(id,label,meta["detected"],rc,nv,first[:200])); sys.exit(0)
try:
    old=json.load(open(dest+"/meta.json"))
    for k in ("detected_by_other_checks","note"):   # annotations made by hand survive a re-run
        if k in old: meta[k]=old[k]
except Exception: pass
json.dump(meta,open(dest+"/meta.json","w"),indent=1)
print("SEED %s-%s: detected=%s exit=%s violations=%s | %s"%(id,label,meta["detected"],rc,nv,first[:200]))
PY
rm -f /tmp/vs-$$.out
if [ "${NO_STORE:-0}" = "1" ]; then rm -rf /tmp/vs-$$.dest; fi
exit 0
